#!/bin/bash
# usage: seed_baseline.sh <seed-id> <patch>  — full pinned suite on a scratch worktree of /repo HEAD + patch
ID=$1; PATCH=$2
WT=/tmp/blwt_$ID
git -C /repo worktree remove --force $WT >/dev/null 2>&1
git -C /repo worktree add --detach $WT HEAD >/dev/null 2>&1 || exit 2
cd $WT && git apply $PATCH || { echo "$ID: patch does not apply"; git -C /repo worktree remove --force $WT; exit 2; }
R=$(/verif/tools/run_baseline.sh $WT | grep -E "stable_pass|NOT PASSING" | head -5 | tr '\n' ' ')
echo "$ID baseline: $R" | tee -a /verif/seeded/baseline_results.txt
git -C /repo worktree remove --force $WT
true
