#!/bin/bash
# usage: run_baseline.sh [repo-dir]  — run the pinned test command on <repo-dir> (default /repo) and compare the
# junit result against BASELINE.json's stable_pass list; prints the stable tests that no longer pass.
REPO=${1:-/repo}
OUT=$(mktemp -d /tmp/baseline.XXXXXX)
cd $REPO || exit 2
touch $OUT/.start
PYTHONPATH=$REPO OPENMDAO_REPORTS=0 /venv/bin/python -m pytest -ra -q -p no:cacheprovider --timeout=900 --continue-on-collection-errors \
   --junitxml=$OUT/junit.xml > $OUT/log 2>&1
/venv/bin/python - "$OUT/junit.xml" <<'EOF'
import json, sys, xml.etree.ElementTree as ET
stable = set(json.load(open('/root/.vp/BASELINE.json'))['stable_pass'])
passed = set()
for tc in ET.parse(sys.argv[1]).getroot().iter('testcase'):
    ok = not any(ch.tag in ('failure', 'error', 'skipped') for ch in tc)
    if ok:
        passed.add('%s::%s' % (tc.get('classname'), tc.get('name')))
missing = sorted(stable - passed)
print('stable_pass=%d passed_now=%d stable_not_passing=%d' % (len(stable), len(passed), len(missing)))
for m in missing[:40]:
    print('  NOT PASSING:', m)
EOF
# the suite leaves untracked <name>_out report directories in its working directory: remove those it created
find $REPO -maxdepth 1 -type d -name '*_out' -newer $OUT/.start -exec rm -rf {} + 2>/dev/null
echo "log: $OUT/log"; [ -n "$KEEP_BASELINE_LOG" ] || rm -rf $OUT
