#!/usr/bin/env python3
"""Regenerates MANIFEST.json from contracts/manifest_meta.py (single source of truth)."""
import json, os, sys
HERE = os.path.dirname(os.path.dirname(os.path.abspath(__file__)))
sys.path.insert(0, HERE)
from contracts import manifest_meta as M

props = [json.loads(l) for l in open(os.path.join(HERE, 'properties.jsonl'))]
ids = [p['id'] for p in props]
checks = []
for pid in ids:
    if pid in M.CLAIMED:
        c = M.CLAIMED[pid]
        checks.append({
            'property_id': pid,
            'quick_cmd': './check %s --tier quick' % pid,
            'thorough_cmd': './check %s --tier thorough' % pid,
            'evidence_file': 'evidence/%s.json' % pid,
            'replay_cmd_template': './check --replay {path}',
            'engine': 'pyvc',
            'level_claimed': {'category': c.get('category', 'proof'), 'text': c['text'], 'design_ref': c['design_ref']},
            'level_note': c['note'],
            'technique': c['technique'],
        })
na = [{'property_id': pid, 'reason': M.NOT_APPLICABLE[pid]} for pid in ids if pid not in M.CLAIMED]
missing = [pid for pid in ids if pid not in M.CLAIMED and pid not in M.NOT_APPLICABLE]
assert not missing, missing
m = {
    'version': 1,
    'setup_cmd': M.SETUP_CMD,
    'hooks': M.HOOKS,
    'engines': [{'name': 'pyvc', 'path': 'pyvc', 'serves_properties': sorted(M.CLAIMED),
                 'kind_free_text': 'own deductive verifier: symbolic execution of the real /repo source (ast, re-read on every run) against sidecar contracts -> verification conditions -> z3 5.1 (seed portfolio; a SymPy rational-function identity back end with z3 showing every divisor non-zero for the interpolation algebra); inductive loop invariants from the sidecar; Lean 4/Mathlib for inductive lemmas over spec functions; native replay of counter-models under /venv/bin/python'}],
    'checks': checks,
    'notes': M.NOTES,
    'not_applicable': na,
}
json.dump(m, open(os.path.join(HERE, 'MANIFEST.json'), 'w'), indent=1)
print('claimed', len(checks), 'not applicable', len(na))
