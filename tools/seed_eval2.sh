#!/bin/bash
# usage: seed_eval2.sh <seed-id> <property> <agent-worktree> [--baseline]
# Confirms a seeded change on a fresh worktree of /repo's HEAD (demo passes without / fails with the change),
# runs the property's quick check against the seeded tree (PYVC_REPO), optionally the full pinned test-suite,
# stores patch/demo/notes/logs under /verif/seeded/<id>/ and removes the scratch worktree.  /repo is never touched.
set -u
ID=$1; PROP=$2; SRC=$3; BASE=${4:-}
OUT=/verif/seeded/$ID
WT=/tmp/evalwt_$ID
mkdir -p $OUT
git -C /repo worktree remove --force $WT >/dev/null 2>&1
git -C /repo worktree add --detach $WT HEAD >/dev/null 2>&1 || { echo "cannot create worktree"; exit 2; }
DEMO=$(cd $SRC && ls demo_*.py | head -1)
cp $SRC/patch.diff $OUT/patch.diff; cp $SRC/$DEMO $OUT/; cp $SRC/NOTES.md $OUT/NOTES.md 2>/dev/null
cd $WT
S=$(mktemp -d /tmp/seedrun.XXXX)
( cd $S && PYTHONPATH=$WT OPENMDAO_REPORTS=0 timeout 900 /venv/bin/python $OUT/$DEMO > $OUT/demo_without.log 2>&1 ); WO=$?
git apply $OUT/patch.diff || { echo "patch does not apply to HEAD"; git -C /repo worktree remove --force $WT; exit 2; }
( cd $S && PYTHONPATH=$WT OPENMDAO_REPORTS=0 timeout 900 /venv/bin/python $OUT/$DEMO > $OUT/demo_with.log 2>&1 ); W=$?
rm -rf $S
echo "demo exit with=$W without=$WO"
cd /verif
cp evidence/$PROP.json /tmp/evidence_$PROP.$$ 2>/dev/null
PYVC_REPO=$WT timeout 3000 ./check $PROP --tier quick > $OUT/check.log 2>&1; RC=$?
cp /tmp/evidence_$PROP.$$ evidence/$PROP.json 2>/dev/null; rm -f /tmp/evidence_$PROP.$$
grep -E "VIOLATION|CHECKER-ERROR|discharged" $OUT/check.log | cut -c1-220 | head -8
echo "check exit=$RC"
BL="not-run"
if [ "$BASE" = "--baseline" ]; then
  BL=$(/verif/tools/run_baseline.sh $WT | grep -E "stable_pass" )
  echo "$BL"
fi
echo "$ID $PROP demo_with=$W demo_without=$WO check_exit=$RC baseline: $BL" >> /verif/seeded/results.txt
git -C /repo worktree remove --force $WT
