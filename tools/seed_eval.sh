#!/bin/bash
# usage: seed_eval.sh <seed-id> <property> <worktree>  — confirm a seeded change and run the check against it
set -u
ID=$1; PROP=$2; WT=$3
OUT=/verif/seeded/$ID
mkdir -p $OUT
cd $WT || exit 2
DEMO=$(ls demo_*.py | head -1)
echo "== demo with change"; PYTHONPATH=$WT OPENMDAO_REPORTS=0 timeout 600 /venv/bin/python $DEMO > $OUT/demo_with.log 2>&1; W=$?; tail -2 $OUT/demo_with.log
git apply -R patch.diff || exit 2
echo "== demo without change"; PYTHONPATH=$WT OPENMDAO_REPORTS=0 timeout 600 /venv/bin/python $DEMO > $OUT/demo_without.log 2>&1; WO=$?; tail -1 $OUT/demo_without.log
git apply patch.diff
cp patch.diff $OUT/patch.diff; cp $DEMO $OUT/; cp NOTES.md $OUT/NOTES.md 2>/dev/null
echo "demo exit with=$W without=$WO"
cd /verif
git -C /repo apply $OUT/patch.diff || { echo "patch does not apply to /repo"; exit 2; }
echo "== check $PROP on seeded tree"
timeout 1800 ./check $PROP --tier quick > $OUT/check.log 2>&1; RC=$?
git -C /repo checkout -- .
grep -E "VIOLATION|CHECKER-ERROR|discharged" $OUT/check.log | cut -c1-200 | head -8
echo "check exit=$RC"
echo "$ID $PROP demo_with=$W demo_without=$WO check_exit=$RC" >> /verif/seeded/results.txt
