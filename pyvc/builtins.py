"""Python builtins, numpy module functions and methods of python/numpy values."""
import ast
from fractions import Fraction
import z3

from .values import *      # noqa
from . import npmodel as npm
from .npmodel import is_arr
from . import interp as I


def _isnum(v):
    return isinstance(v, (int, float, Fraction)) or (is_z3(v) and not z3.is_bool(v)) \
        or isinstance(v, Cx)


def call_builtin(it, name, args, kwargs):
    ctx = it.ctx
    fp = ctx.fp
    if name == 'locals':
        # the local variables of the function being executed (used by extracted fragments: `return locals()`)
        return dict(it.frames[-1].env)
    if name == 'len':
        v = args[0]
        if isinstance(v, (list, tuple, dict, str, set, frozenset)):
            return len(v)
        if isinstance(v, SArr):
            return v.shape[0]
        if isinstance(v, SSeq):
            return v.n
        if isinstance(v, SObj):
            return it.call_method(v, '__len__', [], {})
        raise Unsupported('len of %r' % (v,))
    if name == 'range':
        vals = list(args)
        if all(isinstance(x, int) for x in vals):
            return range(*vals)
        if len(vals) == 1:
            return I.SymRange(0, vals[0])
        if len(vals) == 2:
            return I.SymRange(vals[0], vals[1])
        return I.SymRange(vals[0], vals[1], vals[2])
    if name == 'isinstance':
        return isinstance_model(it, args[0], args[1])
    if name == 'abs':
        v = args[0]
        if is_arr(v):
            return npm.map1(ctx, v, lambda x: zabs(x, fp))
        return zabs(v, fp)
    if name in ('min', 'max'):
        vals = list(args[0]) if len(args) == 1 and isinstance(args[0], (list, tuple)) else list(args)
        if len(args) == 1 and isinstance(args[0], SArr):
            return npm.np_amax(ctx, args[0], name, 1 if name == 'max' else -1)
        if not vals:
            raise PyRaise('ValueError')
        r = vals[0]
        for x in vals[1:]:
            r = zmax(r, x, fp) if name == 'max' else zmin(r, x, fp)
        return r
    if name == 'float':
        v = args[0]
        if isinstance(v, (int, Fraction)) and not isinstance(v, bool):
            return Fraction(v) if not fp else float(v)
        if isinstance(v, float):
            return v
        if is_z3(v):
            return to_real(v) if not fp else to_fp(v)
        if isinstance(v, str):
            if v.strip().lower() in ('inf', '+inf', 'infinity') and not fp:
                return ctx.inf()
            if v.strip().lower() in ('-inf', '-infinity') and not fp:
                return -ctx.inf()
            try:
                return Fraction(v) if not fp else float(v)
            except ValueError:
                raise PyRaise('ValueError')
        if isinstance(v, Opaque):
            if ctx.branch(ctx.upred('float_fails', v.name)):
                raise PyRaise('ValueError')
            return ctx.fresh('float_of_' + v.name, RealS)
        raise Unsupported('float(%r)' % (v,))
    if name == 'int':
        v = args[0]
        if isinstance(v, bool):
            return int(v)
        if isinstance(v, int):
            return v
        if isinstance(v, Fraction):
            return int(v)
        if is_int_term(v):
            return v
        if is_bool_term(v):
            return bool_as_num(v)
        if is_fp_term(v):
            if ctx.branch(z3.fpIsNaN(v)):
                raise PyRaise('ValueError')
            if ctx.branch(z3.fpIsInf(v)):
                raise PyRaise('OverflowError')
            rv = z3.fpToReal(v)
            fl = z3.ToInt(rv)
            return FPInt(v, z3.If(rv >= 0, fl, z3.If(z3.ToReal(fl) == rv, fl, fl + 1)))
        if is_real_term(v):
            # truncation toward zero
            fl = z3.ToInt(v)
            return z3.If(v >= 0, fl, z3.If(z3.ToReal(fl) == v, fl, fl + 1))
        raise Unsupported('int(%r)' % (v,))
    if name == 'bool':
        return it.as_bool(args[0]) if args else False
    if name == 'str' or name == 'repr':
        if args and isinstance(args[0], str):
            return args[0]
        return Opaque('str')
    if name == 'enumerate':
        v = args[0]
        start = args[1] if len(args) > 1 else kwargs.get('start', 0)
        conc = it.concrete_iter(v)
        if conc is not None:
            return [(start + i, x) for i, x in enumerate(conc)]
        n, elem = it.symbolic_iter(v)
        return SSeq(n, lambda k: (scalar_arith('+', start, k), elem(k)), 'enumerate')
    if name == 'zip' and len(args) == 2 and isinstance(args[0], SWhere):
        w, b = args
        if isinstance(b, SCompact) and b.mask is w.mask:
            bv = b.val
            return SPairs(w.mask, lambda i: bv(i))
        if isinstance(b, SWhere) and b.mask is w.mask:
            return SPairs(w.mask, lambda i: i)
        raise Unsupported('zip of an index set with values over another index set')
    if name in ('list', 'tuple') and args and isinstance(args[0], SPairs):
        return args[0]
    if name == 'in_pairs':
        # clause helper: (a, b) is an element of an index-set pair sequence (None: the empty sequence)
        ps, a, b = args
        if ps is None:
            return False
        if not isinstance(ps, SPairs):
            raise Unsupported('in_pairs of %r' % (ps,))
        n = ps.mask.n
        g = npm.fz(ps.mask)
        ctx.add_iterm(tz(a))
        return zand(scalar_cmp('<=', 0, a), scalar_cmp('<', a, n), g(a), scalar_cmp('==', ps.second(a), b, fp))
    if name == 'zip':
        concs = [it.concrete_iter(v) for v in args]
        if all(c is not None for c in concs):
            return list(zip(*concs))
        pairs = [it.symbolic_iter(v) if c is None else (len(c), (lambda c_: lambda k: it.getitem(c_, k))(c))
                 for v, c in zip(args, concs)]
        n = pairs[0][0]
        for m, _ in pairs[1:]:
            n = zmin(n, m)
        return SSeq(n, lambda k: tuple(el(k) for _, el in pairs), 'zip')
    if name == 'sorted':
        v = it.concrete_iter(args[0])
        if v is not None and all(is_concrete(x) for x in v) and not kwargs:
            return sorted(v)
        raise Unsupported('sorted of symbolic values')
    if name in ('list', 'tuple'):
        if not args:
            return [] if name == 'list' else ()
        if isinstance(args[0], Opaque):
            return Opaque(name)
        v = it.concrete_iter(args[0])
        if v is None:
            raise Unsupported('%s() of symbolic sequence' % name)
        return list(v) if name == 'list' else tuple(v)
    if name == 'dict':
        if not args:
            return dict(kwargs)
        if isinstance(args[0], dict):
            d = dict(args[0])
            d.update(kwargs)
            return d
        raise Unsupported('dict() of non-dict')
    if name in ('set', 'frozenset'):
        if not args:
            return set()
        v = it.concrete_iter(args[0])
        if v is not None and all(is_concrete(x) for x in v):
            return set(v)
        raise Unsupported('set of symbolic values')
    if name == 'sum':
        v = it.concrete_iter(args[0])
        if v is not None:
            r = args[1] if len(args) > 1 else 0
            for x in v:
                r = it.binop('+', r, x)
            return r
        if isinstance(args[0], SArr) and args[0].ndim == 1:
            a = args[0]
            ag = npm.fz(a)
            return npm.np_sum(ctx, a.n, lambda k: ag(k))
        raise Unsupported('sum of symbolic sequence')
    if name in ('any', 'all'):
        v = args[0]
        if isinstance(v, SArr):
            return npm.np_any(ctx, v, all_=(name == 'all'))
        conc = it.concrete_iter(v)
        if conc is None:
            raise Unsupported('%s over symbolic sequence' % name)
        parts = [it.as_bool(x) for x in conc]
        return zor(*parts) if name == 'any' else zand(*parts)
    if name == 'getattr':
        try:
            return it.getattr(args[0], args[1])
        except Unsupported:
            if len(args) > 2:
                return args[2]
            raise
    if name == 'hasattr':
        o = args[0]
        if isinstance(o, SObj):
            return args[1] in o.attrs or it.find_method(o, args[1]) is not None
        raise Unsupported('hasattr on %r' % (o,))
    if name == 'setattr':
        if isinstance(args[0], SObj) and isinstance(args[1], str):
            args[0].attrs[args[1]] = args[2]
            return None
        raise Unsupported('setattr')
    if name == 'type':
        v = args[0]
        if isinstance(v, SObj):
            return I.ClassRef(None, v.cls)
        return Opaque('type')
    if name == 'namedtuple':
        fields = args[1]
        if isinstance(fields, str):
            fields = fields.replace(',', ' ').split()
        fields = list(fields)
        tname = args[0]

        def make(a, kw):
            vals = dict(zip(fields, a))
            vals.update(kw)
            if set(vals) != set(fields):
                raise PyRaise('TypeError')
            return SObj('namedtuple:' + str(tname), vals)
        return Closure(make, 'namedtuple')
    if name == 'iter':
        v = args[0]
        if isinstance(v, dict):
            return list(v.keys())
        c = it.concrete_iter(v)
        if c is not None:
            return c
        raise Unsupported('iter of symbolic')
    if name == 'next' and len(args) == 1 and isinstance(args[0], list):
        # iter() is modelled by the concrete list of items: next() on a fresh iterator is its first element
        if not args[0]:
            raise PyRaise('StopIteration')
        return args[0][0]
    if name == 'callable':
        return isinstance(args[0], (Closure, BoundMethod, I.FuncRef))
    if name == 'slice':
        a = list(args) + [None] * (3 - len(args))
        if len(args) == 1:
            return slice(None, args[0], None)
        return slice(*a[:3])
    if name == 'reversed':
        v = it.concrete_iter(args[0])
        if v is None:
            raise Unsupported('reversed symbolic')
        return list(reversed(v))
    if name == 'complex':
        return Cx(args[0], args[1] if len(args) > 1 else 0)
    if name == 'id':
        return Opaque('id')
    # ---- clause helpers ------------------------------------------------------------------
    if name == 'old':
        raise Unsupported('old() is handled by the clause evaluator')
    if name == 'ite':
        return zite(b2z(it.as_bool(args[0])), args[1], args[2], fp)
    if name == 'implies':
        return zor(znot(it.as_bool(args[0])), it.as_bool(args[1]))
    if name == 'iff':
        a, b = it.as_bool(args[0]), it.as_bool(args[1])
        return zand(zor(znot(a), b), zor(znot(b), a))
    if name == 'is_none':
        return args[0] is None
    if name == 'same_object':
        return it.identical(args[0], args[1])
    if name == 'is_nan':
        v = args[0]
        if is_fp_term(v):
            return z3.fpIsNaN(v)
        return False
    if name == 'is_inf':
        v = args[0]
        if is_fp_term(v):
            return z3.fpIsInf(v)
        return False
    if name == 'fp_finite':
        v = args[0]
        if is_fp_term(v):
            return z3.And(z3.Not(z3.fpIsNaN(v)), z3.Not(z3.fpIsInf(v)))
        return True
    if name == 'pow' and len(args) == 2:
        return scalar_arith('**', args[0], args[1], fp)
    if name == 'exceeds':
        return it.compare(ast.Gt(), args[0], args[1])
    if name == 'below':
        return it.compare(ast.Lt(), args[0], args[1])
    if name == 'same_fp':
        a, b = args
        if is_fp_term(a) or is_fp_term(b):
            return to_fp(a) == to_fp(b)
        return scalar_cmp('==', a, b, fp)
    if name == 'same_fp_bool':
        return scalar_cmp('==', args[0], args[1], fp)
    if name == 'floor_':
        v = args[0]
        if not is_z3(v):
            import math
            return math.floor(v)
        return z3.ToReal(z3.ToInt(to_real(v)))
    if name in ('log_', 'exp_', 'tanh_'):
        from .trans import apply_trans
        return apply_trans(it, name[:-1], args)
    if name == 'is_integral':
        v = args[0]
        if is_fp_term(v):
            return z3.And(z3.Not(z3.fpIsNaN(v)), z3.Not(z3.fpIsInf(v)), z3.fpRoundToIntegral(z3.RTZ(), v) == v)
        if is_z3(v):
            return z3.ToReal(z3.ToInt(to_real(v))) == to_real(v)
        return float(v) == int(v)
    if name == 'le':
        return scalar_cmp('<=', args[0], args[1], fp)
    if name == 'approx_h':
        # eps-part comparison: symbolically exact; natively the imaginary part is h * (eps-part)
        return scalar_cmp('==', args[0], args[1], fp)
    if name == 'atan2':
        from .trans import apply_trans
        return apply_trans(it, 'arctan2', args)
    if name == 'approx':
        return scalar_cmp('==', args[0], args[1], fp)
    if name == 'is_scalar':
        return not isinstance(args[0], (SArr, SCompact, SObj, list, tuple, dict)) and args[0] is not None
    if name == 'is_vector':
        return isinstance(args[0], SObj)
    if name == 'is_view':
        v, base, lo, hi = args
        if not (isinstance(v, SArr) and isinstance(base, SArr)) or v.store is not base.store \
                or v.part != base.part:
            return False
        k = ctx.fresh('vk', IntS)
        a = v.sidx((k,))
        b = base.sidx((scalar_arith('+', lo, k),))
        return zand(scalar_cmp('==', v.n, scalar_arith('-', hi, lo)),
                    *[scalar_cmp('==', x, y) for x, y in zip(a, b)])
    if name == 'shares_memory':
        a, b = args
        return isinstance(a, SArr) and isinstance(b, SArr) and a.store is b.store
    if name == 'ghost':
        return ctx.ghost.get(args[0])
    if name == 'Sum':
        n, f = args
        return npm.np_sum(ctx, n, lambda k: f.fn([k], {}))
    if name == 'round':
        raise Unsupported('round')
    if name == 'issubclass':
        raise Unsupported('issubclass')
    if name in ('next', 'map', 'divmod'):
        raise Unsupported(name)
    raise Unsupported('builtin %s' % name)


NUM_TYPES = {'float', 'int', 'Number', 'complex', 'Real', 'Integral'}


def isinstance_model(it, v, t):
    ts = list(t) if isinstance(t, (tuple, list, set)) else [t]
    res = False
    for ty in ts:
        if isinstance(ty, Opaque):
            res = zor(res, it.ctx.upred('isinstance', it.okey(v) if not isinstance(v, Opaque) else v.name, ty.name))
            continue
        if isinstance(ty, I.ClassRef):
            nm = ty.name
        elif isinstance(ty, PyType):
            nm = ty.name
        elif isinstance(ty, ExcClass):
            nm = ty.name
        elif isinstance(ty, I.ModAttr):
            nm = ty.attr
        else:
            raise Unsupported('isinstance type %r' % (ty,))
        res = zor(res, _isinst(it, v, nm))
    return res


def _isinst(it, v, nm):
    if isinstance(v, Opaque):
        return it.ctx.upred('isinstance', v.name, nm)
    if isinstance(v, SObj):
        if v.cls == nm or nm in v.bases or nm == 'object':
            return True
        # walk source hierarchy
        mod = it.mod_of_class(v.cls)
        seen, todo = set(), [(mod, v.cls)]
        from . import extract
        while todo:
            m, c = todo.pop()
            if m is None or (m.relpath, c) in seen:
                continue
            seen.add((m.relpath, c))
            if c == nm:
                return True
            if c in m.classes:
                for b in m.class_bases(c):
                    todo.append((m, b))
            elif c in m.imports:
                dotted, orig = m.imports[c]
                rel = extract.module_relpath(dotted) if dotted else None
                if rel:
                    todo.append((extract.load(rel, it.overrides.get(rel)), orig or c))
        return False
    if nm == 'object':
        return True
    if isinstance(v, bool) or is_bool_term(v):
        return nm in ('bool', 'int', 'Number', 'Real', 'Integral')
    if isinstance(v, int) or is_int_term(v):
        return nm in ('int', 'Number', 'Real', 'Integral')
    if isinstance(v, (float, Fraction)) or is_real_term(v) or is_fp_term(v):
        return nm in ('float', 'Number', 'Real')
    if isinstance(v, Cx):
        return nm in ('complex', 'Number')
    if isinstance(v, str):
        return nm == 'str'
    if isinstance(v, list):
        return nm in ('list', 'Iterable')
    if isinstance(v, tuple):
        return nm in ('tuple', 'Iterable')
    if isinstance(v, dict):
        return nm in ('dict', 'Iterable')
    if isinstance(v, (set, frozenset)):
        return nm in ('set', 'frozenset', 'Iterable')
    if isinstance(v, SArr):
        return nm in ('ndarray', 'Iterable')
    if isinstance(v, slice):
        return nm == 'slice'
    if v is None:
        return False
    if isinstance(v, (Closure, I.FuncRef, BoundMethod)):
        return False
    raise Unsupported('isinstance(%r, %s)' % (v, nm))


# --------------------------------------------------------------------------------------------
def call_module(it, fv, args, kwargs):
    ctx = it.ctx
    fp = ctx.fp
    path = fv.path()
    name = path.split('.', 1)[1] if path.startswith('numpy.') else path
    if path.startswith('os.environ'):
        return None      # A5: no USE_PROC_FILES etc.
    if not path.startswith('numpy.'):
        raise Unsupported('call of %s' % path)
    a0 = args[0] if args else None
    if name in ('abs', 'absolute', 'fabs'):
        if is_arr(a0):
            return npm.map1(ctx, a0, lambda x: zabs(x, fp))
        return zabs(a0, fp)
    if name in ('amax', 'max', 'amin', 'min'):
        if kwargs or len(args) > 1:
            raise Unsupported('np.%s with axis' % name)
        if not is_arr(a0):
            return a0
        return npm.np_amax(ctx, a0, name, 1 if name in ('amax', 'max') else -1)
    if name == 'array_equal':
        a, b = args[0], args[1]
        if not (isinstance(a, SArr) and isinstance(b, SArr) and a.ndim == 1 and b.ndim == 1):
            raise Unsupported('np.array_equal form')
        # a Boolean p with: p -> same length and equal everywhere ; not p -> lengths differ or a witness index
        pb = ctx.fresh('array_equal', BoolS)
        ga, gb = npm.fz(a), npm.fz(b)
        same_len = scalar_cmp('==', a.n, b.n)
        ctx.assume(z3.Implies(pb, b2z(same_len)))
        ctx.add_universal(lambda t: z3.Implies(z3.And(pb, t >= 0, t < tz(a.n)), b2z(scalar_cmp('==', ga(t), gb(t)))))
        k = ctx.fresh('k_diff', IntS)
        ctx.add_iterm(k)
        ctx.assume(z3.Implies(z3.Not(pb), z3.Or(z3.Not(b2z(same_len)),
                                               z3.And(k >= 0, k < tz(a.n), z3.Not(b2z(scalar_cmp('==', ga(k), gb(k))))))))
        return pb
    if name == 'bincount':
        x = a0
        w = args[1] if len(args) > 1 else kwargs.get('weights')
        minlength = args[2] if len(args) > 2 else kwargs.get('minlength', 0)
        if not (isinstance(x, SArr) and x.ndim == 1 and x.dtype == 'int') or not isinstance(w, SArr) or w.ndim != 1:
            raise Unsupported('np.bincount form')
        npm.shape_eq(ctx, x.shape, w.shape, 'bincount weights length')
        xg, wg = npm.fz(x), npm.fz(w)
        m = x.n
        # result length is max(minlength, max(x)+1): require every bin index below minlength (and >= 0,
        # numpy raises otherwise) so that the length is exactly minlength
        k = ctx.fresh('bk', IntS)
        ctx.add_iterm(k)
        ctx.oblige('pre@callee', 'np.bincount: 0 <= x[k] < minlength',
                   z3.Implies(z3.And(k >= 0, k < tz(m)), z3.And(tz(xg(k)) >= 0, tz(xg(k)) < tz(minlength))))
        return npm.new_arr(ctx, (minlength,), lambda j: npm.np_sum(
            ctx, m, lambda kk: zite(b2z(scalar_cmp('==', xg(kk), j)), wg(kk), 0, fp), 'bin'), w.dtype, 'bincount')
    if name == 'diff':
        if not (isinstance(a0, SArr) and a0.ndim == 1) or kwargs or len(args) > 1:
            raise Unsupported('np.diff form')
        g = npm.fz(a0)
        n = a0.n
        m = (n - 1) if isinstance(n, int) else z3.If(tz(n) >= 1, tz(n) - 1, z3.IntVal(0))
        if isinstance(m, int) and m < 0:
            m = 0
        return npm.new_arr(ctx, (m,), lambda i: scalar_arith('-', g(scalar_arith('+', i, 1)), g(i), fp), a0.dtype, 'diff')
    if name in ('argmax', 'argmin'):
        if not (isinstance(a0, SArr) and a0.ndim == 1) or kwargs or len(args) > 1:
            raise Unsupported('np.%s form' % name)
        g = npm.fz(a0)
        n = a0.n
        w = ctx.fresh(name, IntS)
        ctx.add_iterm(w)
        ctx.oblige('pre@callee', 'np.%s of a non-empty array' % name, scalar_cmp('>', n, 0))
        ctx.assume(z3.And(w >= 0, w < tz(n)))
        op = '<=' if name == 'argmax' else '>='
        strict = '<' if name == 'argmax' else '>'
        # first index attaining the extremum (numpy tie rule)
        ctx.add_universal(lambda t: z3.Implies(z3.And(t >= 0, t < tz(n)), b2z(scalar_cmp(op, g(t), g(w), fp))))
        ctx.add_universal(lambda t: z3.Implies(z3.And(t >= 0, t < w), b2z(scalar_cmp(strict, g(t), g(w), fp))))
        return w
    if name in ('maximum', 'minimum'):
        f = zmax if name == 'maximum' else zmin
        a, b = args
        if is_arr(a) or is_arr(b):
            ga = npm.fz(a) if isinstance(a, SArr) else None
            gb = npm.fz(b) if isinstance(b, SArr) else None
            if isinstance(a, SArr) and isinstance(b, SArr):
                npm.shape_eq(ctx, a.shape, b.shape, 'np.%s shape' % name)
                return npm.new_arr(ctx, a.shape, lambda *ix: f(ga(*ix), gb(*ix), fp), 'real')
            if isinstance(a, SArr):
                return npm.new_arr(ctx, a.shape, lambda *ix: f(ga(*ix), b, fp), 'real')
            if isinstance(b, SArr):
                return npm.new_arr(ctx, b.shape, lambda *ix: f(a, gb(*ix), fp), 'real')
            raise Unsupported('np.%s on compaction' % name)
        return f(a, b, fp)
    if name == 'where':
        if len(args) == 1 and isinstance(a0, SArr) and a0.ndim == 1 and a0.dtype == 'bool':
            g = npm.fz(a0)
            frozen = npm.new_arr(ctx, a0.shape, g, 'bool', 'where')
            return (SWhere(frozen),)
        if len(args) != 3:
            raise Unsupported('np.where with one argument')
        c, a, b = args
        if not isinstance(c, SArr):
            if is_arr(a) or is_arr(b):
                # scalar condition broadcast over array operands
                if any(isinstance(x, SCompact) for x in (a, b)):
                    raise Unsupported('np.where scalar cond with compaction')
                cz = it.as_bool(c)
                ga = npm.fz(a) if isinstance(a, SArr) else (lambda *ix: a)
                gb = npm.fz(b) if isinstance(b, SArr) else (lambda *ix: b)
                if isinstance(a, SArr) and isinstance(b, SArr):
                    npm.shape_eq(ctx, a.shape, b.shape, 'np.where operand shapes')
                shp = a.shape if isinstance(a, SArr) else b.shape
                return npm.new_arr(ctx, shp, lambda *ix: zite(b2z(cz), ga(*ix), gb(*ix), fp), 'real', 'where')
            return zite(b2z(it.as_bool(c)), a, b, fp)
        ga = npm.fz(a) if isinstance(a, SArr) else (lambda *ix: a)
        gb = npm.fz(b) if isinstance(b, SArr) else (lambda *ix: b)
        gc = npm.fz(c)
        for x in (a, b):
            if isinstance(x, SArr):
                npm.shape_eq(ctx, c.shape, x.shape, 'np.where shape')
        dt = 'real'
        return npm.new_arr(ctx, c.shape, lambda *ix: zite(
            b2z(gc(*ix) if c.dtype == 'bool' else scalar_cmp('!=', gc(*ix), 0)),
            ga(*ix), gb(*ix), fp), dt)
    if name in ('full', 'zeros', 'ones', 'empty'):
        shape = a0
        if isinstance(shape, (int,)) or is_int_term(shape):
            shape = (shape,)
        shape = tuple(shape)
        if name == 'full':
            val = args[1] if len(args) > 1 else kwargs['fill_value']
        elif name == 'zeros':
            val = 0
        elif name == 'ones':
            val = 1
        else:
            return npm.fresh_arr(ctx, shape, 'real', 'empty')
        dt = kwargs.get('dtype')
        dtype = 'real'
        if isinstance(dt, PyType):
            dtype = {'int': 'int', 'bool': 'bool', 'complex': 'complex', 'float': 'real'}.get(dt.name, 'real')
        elif isinstance(dt, SObj) and dt.cls == 'dtype':
            dtype = {'int': 'int', 'bool': 'bool', 'complex': 'complex', 'real': 'real', 'fp': 'real'}.get(dt.attrs.get('name'), 'real')
        if dtype == 'complex':
            val = to_cx(val)
        if dtype == 'bool':
            val = bool(val)
        return npm.new_arr(ctx, shape, lambda *ix: val, dtype, name)
    if name in ('zeros_like', 'ones_like') and isinstance(a0, SWhere):
        cval = 0 if name == 'zeros_like' else 1
        return SCompact(a0.mask, lambda i: cval, 'int')
    if name in ('zeros_like', 'ones_like', 'empty_like'):
        if not isinstance(a0, SArr):
            raise Unsupported(name)
        val = 0 if name == 'zeros_like' else 1
        if name == 'empty_like':
            return npm.fresh_arr(ctx, a0.shape, a0.dtype, 'empty')
        return npm.new_arr(ctx, a0.shape, lambda *ix: val, a0.dtype, name)
    if name == 'arange':
        if len(args) == 1 and not kwargs.get('dtype') or len(args) == 1:
            return npm.new_arr(ctx, (a0,), lambda i: i, 'int', 'arange')
        if len(args) == 2:
            lo, hi = args
            n = scalar_arith('-', hi, lo)
            return npm.new_arr(ctx, (n,), lambda i: scalar_arith('+', lo, i), 'int', 'arange')
        raise Unsupported('np.arange with step')
    if name == 'broadcast_to':
        shape = args[1]
        if isinstance(shape, int) or is_int_term(shape):
            shape = (shape,)
        if isinstance(a0, SArr) and a0.ndim == 1 and isinstance(a0.n, int) and a0.n == 1 and len(shape) == 1:
            g = npm.fz(a0)
            return npm.new_arr(ctx, tuple(shape), lambda i: g(0), a0.dtype, 'bcast')
        if _isnum(a0) and len(shape) == 1:
            return npm.new_arr(ctx, tuple(shape), lambda i: a0, 'real', 'bcast')
        if isinstance(a0, SArr) and a0.ndim == len(shape):
            npm.shape_eq(ctx, a0.shape, tuple(shape), 'broadcast_to shape')
            return a0
        raise Unsupported('np.broadcast_to form')
    if name == 'isscalar':
        return not isinstance(a0, (SArr, SCompact, list, tuple, dict, SObj)) and a0 is not None
    if name == 'isinf':
        if is_fp_term(a0):
            return z3.fpIsInf(a0)
        if isinstance(a0, float):
            import math
            return math.isinf(a0)
        if is_arr(a0):
            raise Unsupported('isinf of array')
        return False if not fp else (isinstance(a0, float) and a0 in (float('inf'), float('-inf')))
    if name == 'isnan':
        if is_fp_term(a0):
            return z3.fpIsNaN(a0)
        if isinstance(a0, float):
            import math
            return math.isnan(a0)
        if is_arr(a0):
            if fp:
                raise Unsupported('isnan of array in IEEE mode')
            # real mode (assumption A2): array entries are real numbers, none is NaN
            return npm.map1(ctx, a0, lambda x: False, 'bool')
        return False
    if name == 'isfinite':
        if is_fp_term(a0):
            return z3.And(z3.Not(z3.fpIsNaN(a0)), z3.Not(z3.fpIsInf(a0)))
        return True
    if name in ('inf', 'nan'):
        raise Unsupported('np.%s called' % name)
    if name == 'floor':
        if is_arr(a0):
            raise Unsupported('floor of array')
        if not is_z3(a0):
            import math
            return math.floor(a0)
        return z3.ToReal(z3.ToInt(to_real(a0))) if z3.is_real(a0) else a0
    if name == 'sign':
        def sg(x):
            if isinstance(x, Cx):
                # NumPy 2: sign(z) = z/|z|.  Dual-number reading (A3): for re != 0 it is sign(re)
                # with zero first-order part; for re == 0 it is i*sign(im).
                nz = scalar_cmp('!=', x.re, 0)
                return Cx(zite(b2z(nz), sg(x.re), 0), zite(b2z(nz), 0, sg(x.im)))
            if not is_z3(x):
                return (x > 0) - (x < 0)
            return z3.If(x > 0, 1, z3.If(x < 0, -1, 0)) if z3.is_int(x) else \
                z3.If(x > 0, z3.RealVal(1), z3.If(x < 0, z3.RealVal(-1), z3.RealVal(0)))
        if is_arr(a0):
            return npm.map1(ctx, a0, sg)
        return sg(a0)
    if name in ('sum',):
        if kwargs.get('axis', 0) is None:
            kwargs = {k: v for k, v in kwargs.items() if k != 'axis'}
        if isinstance(a0, SArr) and a0.ndim == 1 and not kwargs and len(args) == 1 and a0.dtype == 'complex':
            ag = npm.fz(a0)
            return Cx(npm.np_sum(ctx, a0.n, lambda k: ag(k).re, 'sum_re'), npm.np_sum(ctx, a0.n, lambda k: ag(k).im, 'sum_im'))
        if isinstance(a0, SArr) and a0.ndim == 1 and not kwargs and len(args) == 1:
            ag = npm.fz(a0)
            return npm.np_sum(ctx, a0.n, lambda k: ag(k))
        raise Unsupported('np.sum form')
    if name == 'concatenate' and len(args) == 1 and isinstance(a0, (list, tuple)) and a0 and all(isinstance(x, SArr) and x.ndim == 1 for x in a0):
        # np.concatenate of 1-d arrays: element k belongs to the first part whose cumulated length exceeds k
        parts = [(npm.fz(x), x.n) for x in a0]
        total = parts[0][1]
        for _, n_ in parts[1:]:
            total = scalar_arith('+', total, n_)

        def elc(k):
            off = 0
            r = None
            chain = []
            for g_, n_ in parts:
                chain.append((off, n_, g_))
                off = scalar_arith('+', off, n_)
            # built from the last part backwards
            off_l, n_l, g_l = chain[-1]
            r = g_l(scalar_arith('-', k, off_l))
            for off_p, n_p, g_p in reversed(chain[:-1]):
                r = zite(tz(k) < tz(scalar_arith('+', off_p, n_p)), g_p(scalar_arith('-', k, off_p)), r, fp)
            return r
        dt = 'real' if any(x.dtype == 'real' for x in a0) else a0[0].dtype
        return npm.new_arr(ctx, (total,), elc, dt, 'concat')
    if name == 'dot':
        return it.matmul(args[0], args[1])
    if name == 'repeat' and len(args) == 2 and isinstance(a0, SArr) and a0.ndim == 1 and (isinstance(args[1], int) or is_int_term(args[1])):
        # np.repeat(a, L): element k is a[k div L]
        L = args[1]
        g = npm.fz(a0)

        def rel(k):
            kz, lz = tz(k), tz(L)
            if z3.is_add(kz) and kz.num_args() == 2:
                for mi in (0, 1):
                    m_, i_ = kz.arg(mi), kz.arg(1 - mi)
                    if z3.is_mul(m_) and m_.num_args() == 2:
                        for ri in (0, 1):
                            if z3.is_int(lz) and m_.arg(1 - ri).eq(lz):
                                return g(z3.If(z3.And(i_ >= 0, i_ < lz), m_.arg(ri), kz / lz))
            return g(kz / lz)
        return npm.new_arr(ctx, (scalar_arith('*', a0.n, L),), rel, a0.dtype, 'repeat')
    if name == 'outer' and len(args) == 2 and isinstance(a0, SArr) and a0.ndim == 1:
        # np.outer(a, b)[i, j] = a[i] * b[j]; a scalar b is a length-1 vector
        b = args[1]
        ga = npm.fz(a0)
        if isinstance(b, SArr) and b.ndim == 1:
            gb, nb = npm.fz(b), b.n
        elif _isnum(b):
            gb, nb = (lambda j: b), 1
        else:
            raise Unsupported('np.outer operand')
        return npm.new_arr(ctx, (a0.n, nb), lambda i, j: scalar_arith('*', ga(i), gb(j), fp), 'real', 'outer')
    if name == 'ndim' and len(args) == 1:
        if isinstance(a0, SArr):
            return a0.ndim
        if isinstance(a0, SCompact):
            return 1
        if isinstance(a0, (list, tuple)):
            raise Unsupported('np.ndim of a python sequence')
        if a0 is None or isinstance(a0, (Opaque, SObj)):
            raise Unsupported('np.ndim of %r' % (a0,))
        return 0
    if name == 'einsum':
        sig = args[0]
        if sig == 'ni,ni->n' and len(args) == 3 and all(isinstance(x, SArr) and x.ndim == 2 for x in args[1:]):
            a, b = args[1], args[2]
            npm.shape_eq(ctx, a.shape, b.shape, 'einsum operand shapes')
            inner = a.shape[1]
            ga, gb = npm.fz(a), npm.fz(b)
            cplx = a.dtype == 'complex' or b.dtype == 'complex'

            def el(r):
                if cplx:
                    pr = lambda k: to_cx(scalar_arith('*', ga(r, k), gb(r, k), fp))
                    return Cx(npm.np_sum(ctx, inner, lambda k: pr(k).re, 'es_re'), npm.np_sum(ctx, inner, lambda k: pr(k).im, 'es_im'))
                return npm.np_sum(ctx, inner, lambda k: scalar_arith('*', ga(r, k), gb(r, k), fp), 'es')
            return npm.new_arr(ctx, (a.shape[0],), el, 'complex' if cplx else 'real', 'einsum')
        if sig == 'mi,i->m' and len(args) == 3 and isinstance(args[1], SArr) and args[1].ndim == 2 and isinstance(args[2], SArr) and args[2].ndim == 1:
            # matrix-vector product as finite sums
            a, b = args[1], args[2]
            npm.shape_eq(ctx, (a.shape[1],), b.shape, 'einsum operand shapes')
            inner = a.shape[1]
            ga, gb = npm.fz(a), npm.fz(b)
            if a.dtype == 'complex' or b.dtype == 'complex':
                raise Unsupported('complex einsum mi,i->m')

            def elmv(r):
                if isinstance(inner, int):
                    acc = scalar_arith('*', ga(r, 0), gb(0), fp)
                    for k in range(1, inner):
                        acc = scalar_arith('+', acc, scalar_arith('*', ga(r, k), gb(k), fp), fp)
                    return acc
                return npm.np_sum(ctx, inner, lambda k: scalar_arith('*', ga(r, k), gb(k), fp), 'es')
            return npm.new_arr(ctx, (a.shape[0],), elmv, 'real', 'einsum')
        raise Unsupported('einsum signature %r' % (sig,))
    if name in ('any', 'all'):
        if isinstance(a0, SArr):
            return npm.np_any(ctx, a0, all_=(name == 'all'))
        if isinstance(a0, bool) or is_bool_term(a0):
            return a0
        raise Unsupported('np.any of non-array')
    if name in ('asarray', 'array', 'atleast_1d', 'ascontiguousarray'):
        if isinstance(a0, SArr):
            if name == 'array' and kwargs.get('copy', True) is not False:
                g = it.frozen_getter(a0)
                return npm.new_arr(ctx, a0.shape, g, a0.dtype, 'copy')
            return a0
        if isinstance(a0, (list, tuple)) and all(_isnum(x) or isinstance(x, bool) for x in a0):
            vals = list(a0)
            dt = 'int' if all(isinstance(x, int) or is_int_term(x) for x in vals) else 'real'

            def el(i):
                if isinstance(i, int):
                    return vals[i]
                r = vals[-1]
                for j in range(len(vals) - 2, -1, -1):
                    r = zite(tz(i) == j, vals[j], r, fp)
                return r
            return npm.new_arr(ctx, (len(vals),), el, dt, 'lit')
        if isinstance(a0, (list, tuple)) and a0 and all(isinstance(r_, (list, tuple)) and len(r_) == len(a0[0]) and len(r_) > 0
                                                       and all(_isnum(x) or isinstance(x, bool) for x in r_) for r_ in a0):
            # rectangular 2-d literal
            rows = [list(r_) for r_ in a0]
            R, C = len(rows), len(rows[0])
            flat = [x for r_ in rows for x in r_]
            dt = 'int' if all(isinstance(x, int) or is_int_term(x) for x in flat) else 'real'

            def el2(i, j):
                if isinstance(i, int) and isinstance(j, int):
                    return rows[i][j]
                pos = tz(i) * C + tz(j)
                r = flat[-1]
                for q in range(len(flat) - 2, -1, -1):
                    r = zite(pos == q, flat[q], r, fp)
                return r
            return npm.new_arr(ctx, (R, C), el2, dt, 'lit2d')
        if _isnum(a0):
            # 0-d arrays are modelled as length-1 1-d arrays (same results after ravel/mask ops)
            return npm.new_arr(ctx, (1,), lambda i: a0, 'real', 'lit')
        raise Unsupported('np.%s of %r' % (name, a0))
    if name == 'linalg.norm':
        if isinstance(a0, SArr) and a0.ndim == 1:
            ag = npm.fz(a0)
            s = npm.np_sum(ctx, a0.n, lambda k: scalar_arith('*', ag(k), ag(k), fp), 'sumsq')
            r = ctx.fresh('norm', RealS)
            ctx.assume(r >= 0)
            ctx.assume(r * r == s)
            return r
        raise Unsupported('norm form')
    if name == 'sqrt':
        def sq(x):
            if not is_z3(x) and x >= 0:
                import math
                f = Fraction(x)
                rn, rd = math.isqrt(f.numerator), math.isqrt(f.denominator)
                if rn * rn == f.numerator and rd * rd == f.denominator:
                    return Fraction(rn, rd)
            r = ctx.fresh('sqrt', RealS)
            ctx.assume(r >= 0)
            ctx.assume(r * r == tz(to_real(x)))
            return r
        if isinstance(a0, SArr) and a0.ndim == 1:
            # element-wise square root: one uninterpreted function per call site with its defining facts stated for
            # every index in range (instantiated at the index terms in play); dual numbers: eps-part d with d*2*r == im
            g = npm.fz(a0)
            n = a0.n
            rf = ctx.fresh_fun('sqrtf', IntS, RealS)
            cplx = a0.dtype == 'complex'
            if cplx and not ctx.dual:
                raise Unsupported('sqrt of complex array outside dual mode')
            df = ctx.fresh_fun('dsqrtf', IntS, RealS) if cplx else None

            def facts(t):
                # (no new index terms while a universal fact is being instantiated: the operand's element function may
                #  itself introduce witnesses, e.g. finite sums, which would feed back into the instantiation)
                ctx.frozen_iterms += 1
                try:
                    x = g(t)
                finally:
                    ctx.frozen_iterms -= 1
                re = to_cx(x).re if cplx else x
                fs = [rf(t) >= 0, rf(t) * rf(t) == tz(to_real(re))]
                if cplx:
                    fs.append(z3.Implies(rf(t) != 0, df(t) * 2 * rf(t) == tz(to_real(to_cx(x).im))))
                return z3.Implies(z3.And(t >= 0, t < tz(n)), z3.And(*fs))
            ctx.add_universal(facts)

            def el(i):
                ctx.add_iterm(tz(i))
                return Cx(rf(tz(i)), df(tz(i))) if cplx else rf(tz(i))
            return npm.new_arr(ctx, a0.shape, el, 'complex' if cplx else 'real', 'sqrt')
        if is_arr(a0):
            raise Unsupported('sqrt of array')
        if isinstance(a0, Cx):
            if not ctx.dual:
                raise Unsupported('sqrt of complex value outside dual mode')
            r = sq(a0.re)
            # eps-part d = im / (2 r), stated without division (keeps the VC polynomial)
            d = ctx.fresh('dsqrt', RealS)
            ctx.assume(z3.Implies(tz(r) != 0, d * 2 * tz(r) == tz(to_real(a0.im))))
            return Cx(r, d)
        return sq(a0)
    if name in ('exp', 'log', 'tanh', 'arctan2', 'cos', 'sin', 'cosh', 'sinh', 'log10'):
        from .trans import apply_trans
        return apply_trans(it, name, args)
    if name == 'iscomplexobj':
        if isinstance(a0, SArr):
            return a0.dtype == 'complex'
        return isinstance(a0, Cx)
    if name == 'iscomplex':
        # element-wise: imaginary part non-zero
        if isinstance(a0, SArr):
            if a0.dtype != 'complex':
                return npm.new_arr(ctx, a0.shape, lambda *ix: False, 'bool')
            return npm.map1(ctx, a0, lambda x: scalar_cmp('!=', to_cx(x).im, 0), 'bool')
        return scalar_cmp('!=', to_cx(a0).im, 0) if isinstance(a0, Cx) else False
    if name == 'isclose':
        raise Unsupported('isclose')
    if name in ('float64', 'float_', 'int64', 'intp'):
        return a0
    if name == 'ndarray' or name == 'number':
        raise Unsupported('np.%s called' % name)
    if name == 'add.at':
        # np.add.at(a, idx, v): unbuffered accumulation  a[j] += sum_k [idx[k] == j] v[k]  (duplicates allowed)
        a, idx, v = args[0], args[1], args[2]
        if not (isinstance(a, SArr) and a.ndim == 1 and isinstance(idx, SArr) and idx.ndim == 1 and idx.dtype == 'int'):
            raise Unsupported('np.add.at form')
        ig = npm.fz(idx)
        if isinstance(v, SArr):
            npm.shape_eq(ctx, idx.shape, v.shape, 'np.add.at value length')
            vg = npm.fz(v)
        else:
            vg = lambda k: v
        m = idx.n
        kk = ctx.fresh('ak', IntS)
        ctx.add_iterm(kk)
        ctx.oblige('bounds', 'np.add.at index within bounds', z3.Implies(z3.And(kk >= 0, kk < tz(m)), z3.And(tz(ig(kk)) >= 0, tz(ig(kk)) < tz(a.n))))
        npm.arr_write(ctx, a, None, lambda j: npm.np_sum(ctx, m, lambda k: zite(b2z(scalar_cmp('==', ig(k), j)), vg(k), 0, fp), 'addat'),
                      lambda o, add: scalar_arith('+', o, add, fp))
        return None
    if name == 'real':
        return it.getattr(a0, 'real')
    if name == 'imag':
        return it.getattr(a0, 'imag')
    if name == 'ravel':
        return call_pymethod(it, a0, 'ravel', [], {})
    if name == 'size':
        return it.getattr(a0, 'size') if isinstance(a0, SArr) else 1
    raise Unsupported('numpy function %s' % name)


def call_pymethod(it, obj, name, args, kwargs):
    ctx = it.ctx
    fp = ctx.fp
    if isinstance(obj, dict):
        if name == 'items':
            return list(obj.items())
        if name == 'keys':
            return list(obj.keys())
        if name == 'values':
            return list(obj.values())
        if name == 'get':
            k = args[0]
            if not is_concrete(k):
                raise Unsupported('dict.get symbolic key')
            return obj.get(k, args[1] if len(args) > 1 else None)
        if name == 'copy':
            return dict(obj)
        if name == 'update':
            if args:
                obj.update(args[0])
            obj.update(kwargs)
            return None
        if name == 'pop':
            k = args[0]
            if k in obj:
                return obj.pop(k)
            if len(args) > 1:
                return args[1]
            raise PyRaise('KeyError')
        if name == 'setdefault':
            return obj.setdefault(args[0], args[1] if len(args) > 1 else None)
        if name == 'clear':
            obj.clear()
            return None
    if isinstance(obj, list):
        if name == 'append':
            obj.append(args[0])
            return None
        if name == 'extend':
            v = it.concrete_iter(args[0])
            if v is None:
                raise Unsupported('extend with symbolic sequence')
            obj.extend(v)
            return None
        if name == 'pop':
            if not obj:
                raise PyRaise('IndexError')
            return obj.pop(*args)
        if name == 'copy':
            return list(obj)
        if name == 'index':
            for i, x in enumerate(obj):
                if it.truth(scalar_cmp('==', x, args[0])):
                    return i
            raise PyRaise('ValueError')
    if isinstance(obj, (set,)):
        if name == 'add':
            obj.add(args[0])
            return None
        if name == 'update':
            obj.update(args[0])
            return None
    if isinstance(obj, str):
        if name == 'lower':
            return obj.lower()
        if name == 'upper':
            return obj.upper()
        if name == 'format':
            return Opaque('fstring')
        if name == 'startswith':
            return obj.startswith(args[0])
        if name == 'endswith':
            return obj.endswith(args[0])
        if name == 'join':
            return Opaque('fstring')
        if name in ('strip', 'split', 'rsplit', 'replace', 'partition', 'rpartition'):
            if all(isinstance(a, (str, int)) for a in args):
                return getattr(obj, name)(*args)
    if isinstance(obj, SArr):
        a = obj
        if name == 'any':
            return npm.np_any(ctx, a)
        if name == 'all':
            return npm.np_any(ctx, a, all_=True)
        if name == 'copy':
            return npm.new_arr(ctx, a.shape, it.frozen_getter(a), a.dtype, 'copy')
        if name in ('ravel', 'flatten', 'reshape'):
            if a.ndim == 1:
                if name == 'flatten':
                    return npm.new_arr(ctx, a.shape, it.frozen_getter(a), a.dtype, 'copy')
                if name == 'reshape':
                    sh = args[0] if len(args) == 1 else tuple(args)
                    if sh in (-1, (-1,)):
                        return a
                    if isinstance(sh, tuple) and len(sh) == 1:
                        npm.shape_eq(ctx, a.shape, sh, 'reshape extent')
                        return a
                    if isinstance(sh, tuple) and len(sh) == 2 and all(isinstance(x, int) or is_int_term(x) for x in sh):
                        # 1-d -> 2-d, C order: (r, c) <-> r*s1 + c
                        s0, s1 = sh
                        ctx.oblige('pre@callee', 'reshape: total size unchanged', scalar_cmp('==', a.n, scalar_arith('*', s0, s1)))
                        return a.view((s0, s1), lambda r, c: (scalar_arith('+', scalar_arith('*', r, s1), c),),
                                      lambda k: (True, (tz(k) / tz(s1), tz(k) % tz(s1))))
                    raise Unsupported('reshape')
                return a
            if a.ndim == 2 and (name in ('ravel', 'flatten') or (name == 'reshape' and (args[0] if len(args) == 1 else tuple(args)) in (-1, (-1,)))):
                # C-order flattening: flat index k <-> (k div n1, k mod n1); ravel/reshape give a view, flatten a copy
                n0, n1 = a.shape
                tot = scalar_arith('*', n0, n1)
                if isinstance(n1, int) and n1 == 1:
                    v = a.view((n0,), lambda k: (k, 0), lambda r, c: (True, (r,)))
                else:
                    def imap(k):
                        if isinstance(k, int) and isinstance(n1, int):
                            return (k // n1, k % n1)
                        kz, nz = tz(k), tz(n1)
                        # k syntactically r*n1 + i: inside 0 <= i < n1 the pair is (r, i) — spares the solver div/mod
                        if z3.is_add(kz) and kz.num_args() == 2:
                            for mi in (0, 1):
                                m_, i_ = kz.arg(mi), kz.arg(1 - mi)
                                if z3.is_mul(m_) and m_.num_args() == 2:
                                    for ri in (0, 1):
                                        if z3.is_int(nz) and m_.arg(1 - ri).eq(nz):
                                            r_ = m_.arg(ri)
                                            ok = z3.And(i_ >= 0, i_ < nz)
                                            return (z3.If(ok, r_, kz / nz), z3.If(ok, i_, kz % nz))
                        return (kz / nz, kz % nz)
                    v = a.view((tot,), imap, lambda r, c: (True, (scalar_arith('+', scalar_arith('*', r, n1), c),)))
                if name == 'flatten':
                    return npm.new_arr(ctx, v.shape, it.frozen_getter(v), a.dtype, 'copy')
                return v
            raise Unsupported('%s of n-d array' % name)
        if name == 'view' and not args:
            return a
        if name == 'astype':
            t = args[0]
            tn = t.name if isinstance(t, PyType) else None
            if tn == 'bool':
                return npm.map1(ctx, a, lambda x: it.as_bool(x) if not isinstance(x, Cx) else
                                zor(it.as_bool(x.re), it.as_bool(x.im)), 'bool')
            if tn == 'float' and a.dtype in ('real', 'int'):
                return npm.map1(ctx, a, lambda x: to_real(x), 'real')
            if tn == 'int' and a.dtype == 'int':
                return npm.new_arr(ctx, a.shape, it.frozen_getter(a), 'int', 'copy')
            if tn == 'complex':
                return npm.map1(ctx, a, to_cx, 'complex')
            raise Unsupported('astype(%r)' % (t,))
        if name == 'fill':
            v = args[0]
            npm.arr_write(ctx, a, None, lambda *ix: v)
            return None
        if name in ('max', 'min'):
            return npm.np_amax(ctx, a, name, 1 if name == 'max' else -1)
        if name == 'sum':
            if a.ndim == 1 and not args and not kwargs:
                ag = npm.fz(a)
                return npm.np_sum(ctx, a.n, lambda k: ag(k))
        if name == 'dot':
            return it.matmul(a, args[0])
        if name == 'conj':
            return a
        if name == 'item':
            if a.ndim == 1:
                if not (isinstance(a.n, int) and a.n == 1):
                    ctx.oblige('pre@callee', 'ndarray.item(): size is 1', scalar_cmp('==', a.n, 1))
                return a.get(0)
        if name == 'tolist':
            if a.ndim == 1 and isinstance(a.n, int):
                return [a.get(i) for i in range(a.n)]
    if is_z3(obj) or isinstance(obj, (int, Fraction, float)):
        if name == 'ravel':
            return npm.new_arr(ctx, (1,), lambda i: obj, 'real', 'lit')
        if name == 'item':
            return obj
        if name == 'conjugate' or name == 'conj':
            return obj
    if isinstance(obj, Cx) and name in ('conjugate', 'conj'):
        return Cx(obj.re, zneg(obj.im))
    raise Unsupported('method %s of %s' % (name, type(obj).__name__))
