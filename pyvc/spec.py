"""Sidecar contract language: parameter shape specs + the contract registry.

This module is importable by both interpreters (python3-vt for proving, /venv for native replay):
it has no z3 / numpy imports at module level.
"""


class T:
    pass


class Real(T):
    def __init__(self, **kw):
        self.kw = kw


class FP(T):
    """IEEE double (fp mode)."""


class Int(T):
    def __init__(self, lo=None, hi=None):
        self.lo = lo
        self.hi = hi


class Bool(T):
    pass


class Complex(T):
    """complex scalar (dual number re + eps*im in dual mode)"""


class Const(T):
    def __init__(self, v):
        self.v = v


class OneOf(T):
    """Configuration choice: each alternative (a T or a plain value) is verified separately."""

    def __init__(self, *alts):
        self.alts = alts


def Opt(t):
    return OneOf(None, t)


class Arr(T):
    """Array with symbolic named sizes: Arr('n') 1-d, Arr('r','c') 2-d.  An int is a literal."""

    def __init__(self, *shape, dtype='real'):
        self.shape = shape
        self.dtype = dtype


class Obj(T):
    def __init__(self, cls, **attrs):
        self.cls = cls
        self.attrs = attrs


class DictT(T):
    def __init__(self, items):
        self.items = items


class TupleT(T):
    def __init__(self, *items):
        self.items = items


class ListT(T):
    def __init__(self, *items):
        self.items = items


class OpaqueT(T):
    def __init__(self, name=None):
        self.name = name


class Size(T):
    """The symbolic size named `name` itself (an Int >= 0)."""

    def __init__(self, name):
        self.name = name


class Seq(T):
    """Sequence of symbolic length `size` whose elements are built by elem(j) specs.
    elem: a T (each element independent fresh instance keyed by index)"""

    def __init__(self, size, elem):
        self.size = size
        self.elem = elem


class Callable(T):
    """A callable attribute returning the instance of `ret` (e.g. weakref `self._system()`)."""

    def __init__(self, ret):
        self.ret = ret


class SliceT(T):
    """slice(lo, hi) with named symbolic bounds (sizes)."""

    def __init__(self, lo, hi):
        self.lo, self.hi = lo, hi


class BoundTo(T):
    """instance attribute bound to one of the object's own methods (e.g. subjac.apply_fwd)"""

    def __init__(self, method):
        self.method = method


class ViewOf(T):
    """1-d slice view base[lo:hi] of an earlier array parameter; lo/hi are named sizes."""

    def __init__(self, path, lo, hi):
        self.path, self.lo, self.hi = path, lo, hi


class Shared(T):
    """Reference to another parameter path: same object (aliasing made explicit)."""

    def __init__(self, path):
        self.path = path


def Vec(size, complex_step=False, cls='DefaultVector', **extra):
    """A DefaultVector over a flat real data array of symbolic length `size`."""
    attrs = dict(_data=Arr(size), _under_complex_step=Const(complex_step))
    attrs.update(extra)
    return Obj(cls, **attrs)


class Assumed:
    """Assumed (unchecked) contract for an external / opaque callee, matched by call text."""

    def __init__(self, returns=None, modifies=(), ensures=(), requires=(), may_raise=(),
                 note='', ghost=None, returns_expr=None, sets=None):
        self.returns = returns
        self.sets = dict(sets or {})          # path -> spec: the callee REPLACES that attribute by a fresh value of this shape
        self.modifies = tuple(modifies)
        self.ensures = tuple(ensures)
        self.requires = tuple(requires)
        self.may_raise = tuple(may_raise)
        self.note = note
        self.ghost = ghost
        self.returns_expr = returns_expr      # result is the value of this expression (e.g. an attribute)


class Contract:
    def __init__(self, target, props, params, requires=(), ensures=(), modifies=(),
                 raises_iff=None, may_raise=(), exc_ensures=(), invariants=None, inline=(),
                 assumed=None, self_cls=None, fp=False, canaries=(), native=None,
                 name=None, ghosts=None, lemmas=(), notes='', bounded=None, returns=None,
                 old_exprs=(), max_paths=400, loop_modifies=None, abstract=None,
                 config_filter=None, unroll=0, defs=None, lets=None, sampler=None,
                 ghost_init=None, ghost_on_call=None, no_sampling=False,
                 ghost_on_result=None, native_expand=None, native_ensures=(), split_configs=False,
                 exc_modifies=None, ensures_check_only=()):
        self.target = target
        self.props = list(props)
        self.params = params
        self.requires = list(requires)
        self.ensures = list(ensures)
        self.modifies = list(modifies)
        self.raises_iff = dict(raises_iff or {})
        self.may_raise = list(may_raise)
        self.exc_ensures = list(exc_ensures)
        self.invariants = dict(invariants or {})
        self.inline = set(inline)
        self.assumed = dict(assumed or {})
        self.fp = fp
        self.canaries = list(canaries)
        self.native = native
        self.name = name or target
        self.ghosts = dict(ghosts or {})
        self.lemmas = list(lemmas)
        self.notes = notes
        self.bounded = bounded
        self.returns = returns
        self.max_paths = max_paths
        self.loop_modifies = dict(loop_modifies or {})
        self.abstract = abstract
        self.config_filter = config_filter
        self.unroll = unroll
        self.defs = dict(defs or {})
        self.lets = dict(lets or {})
        self.sampler = sampler
        self.ghost_init = dict(ghost_init or {})
        self.ghost_on_call = dict(ghost_on_call or {})
        self.no_sampling = no_sampling
        self.ghost_on_result = dict(ghost_on_result or {})
        self.native_expand = native_expand
        self.native_ensures = list(native_ensures)
        self.split_configs = split_configs
        self.exc_modifies = exc_modifies
        # proved against the body but not assumed at call sites (e.g. statements over a universally
        # quantified spec variable that is not an argument)
        self.ensures_check_only = list(ensures_check_only)


REGISTRY = {}


def contract(target, props, params, **kw):
    c = Contract(target, props, params, **kw)
    REGISTRY.setdefault(c.target, []).append(c)
    return c


class Lemma:
    """Property-level statement proved from contracts only (no code): hypotheses and goal are
    clause texts over declared symbols."""

    def __init__(self, name, props, params, hyps, goal, notes=''):
        self.name = name
        self.props = list(props)
        self.params = params
        self.hyps = list(hyps)
        self.goal = goal
        self.notes = notes


LEMMAS = []


def lemma(name, props, params, hyps, goal, **kw):
    l = Lemma(name, props, params, hyps, goal, **kw)
    LEMMAS.append(l)
    return l
