"""Path context: path condition, universal facts, index terms, obligations, decisions."""
import z3
from .values import Infeasible, is_z3, b2z, FPS as FPS_


class Oblig:
    def __init__(self, kind, name, goal, pc, universals, iterms, path, info=None, axioms=None):
        self.axioms = axioms if axioms is not None else []
        self.kind = kind
        self.name = name
        self.goal = goal
        self.pc = pc
        self.universals = universals
        self.iterms = iterms
        self.path = path
        self.info = info or {}
        self.status = None      # 'discharged' | 'refuted' | 'unknown'
        self.backend = None
        self.seconds = 0.0
        self.model = None

    def hyps(self, quantified=True):
        hs = list(self.pc) + list(self.axioms)
        terms = list(self.iterms)      # instantiating a fact must not feed new terms back in
        for U in self.universals:
            for t in terms:
                try:
                    h = U(t)
                except Exception:
                    continue
                if isinstance(h, bool):
                    if not h:
                        hs.append(z3.BoolVal(False))
                    continue
                hs.append(h)
            if quantified:
                q = z3.Int('q!u')
                try:
                    body = U(q)
                except Exception:
                    continue
                if not isinstance(body, bool):
                    hs.append(z3.ForAll([q], body))
        return hs


class Ctx:
    def __init__(self, decisions=(), fp=False, feas_timeout_ms=3000):
        self.fp = fp
        self.pc = []
        self.universals = []
        self.iterms = []
        self._iterm_ids = set()
        self.obligs = []
        self.decisions = list(decisions)
        self.taken = []
        self.alts = []
        self.n = 0
        self.feas_timeout_ms = feas_timeout_ms
        self.ghost = {}
        self.notes = []
        self.oo = None
        self.upreds = {}
        self.no_branch_record = False
        self.frozen_iterms = 0
        self.dual = False
        self.axioms = []     # true facts about uninterpreted math functions (shared by every obligation)
        self.aux = []       # (name, term): results of assumed callees etc. (for counter-model replay)

    # -- symbols -----------------------------------------------------------------------------
    def fresh_name(self, base):
        self.n += 1
        return '%s!%d' % (base, self.n)

    def fresh(self, base, sort):
        return z3.Const(self.fresh_name(base), sort)

    def fresh_fun(self, base, *sorts):
        return z3.Function(self.fresh_name(base), *sorts)

    def inf(self):
        if self.oo is None:
            self.oo = z3.Real('np_inf')
            # float('inf') in real mode: a constant above every finite double
            self.pc.append(self.oo > z3.RealVal('2e308'))
        return self.oo

    def fdiv(self, a, b):
        """IEEE division abstracted as an uninterpreted function plus true facts about special
        operands (a weakening of the hypotheses, hence sound for proofs)."""
        if not hasattr(self, '_fdiv'):
            from .values import FPS
            self._fdiv = z3.Function('fdiv', FPS, FPS, FPS)
            self._fdiv_seen = set()
        q = self._fdiv(a, b)
        key = (a.get_id(), b.get_id())
        if key not in self._fdiv_seen:
            self._fdiv_seen.add(key)
            nan, inf, zero, neg = z3.fpIsNaN, z3.fpIsInf, z3.fpIsZero, z3.fpIsNegative
            self.pc.append(z3.Implies(z3.Or(nan(a), nan(b)), nan(q)))
            self.pc.append(z3.Implies(z3.And(inf(a), inf(b)), nan(q)))
            self.pc.append(z3.Implies(z3.And(zero(a), zero(b)), nan(q)))
            self.pc.append(z3.Implies(z3.And(z3.Not(nan(a)), z3.Not(nan(b)), z3.Not(z3.And(inf(a), inf(b))),
                                             z3.Not(z3.And(zero(a), zero(b)))), z3.Not(nan(q))))
            self.pc.append(z3.Implies(z3.And(inf(a), z3.Not(nan(b)), z3.Not(inf(b))), inf(q)))
            # sign rule for non-NaN results
            self.pc.append(z3.Implies(z3.Not(nan(q)), neg(q) == z3.Xor(neg(a), neg(b))))
            # x / x == 1 for finite non-zero x ; x / 1 == x
            self.pc.append(z3.Implies(z3.And(a == b, z3.Not(nan(a)), z3.Not(inf(a)), z3.Not(zero(a))),
                                      z3.fpEQ(q, z3.FPVal(1.0, FPS_))))
            self.pc.append(z3.Implies(z3.fpEQ(b, z3.FPVal(1.0, FPS_)), q == a))
        return q

    def upred(self, name, *keys):
        k = (name,) + tuple(keys)
        if k not in self.upreds:
            self.upreds[k] = z3.Bool('%s(%s)' % (name, ','.join(str(x) for x in keys)))
        return self.upreds[k]

    # -- facts -------------------------------------------------------------------------------
    def assume(self, b):
        if isinstance(b, bool):
            if not b:
                raise Infeasible()
            return
        self.pc.append(b2z(b))

    def add_universal(self, fn):
        self.universals.append(fn)

    def add_iterm(self, t):
        if self.frozen_iterms:
            return
        if isinstance(t, int):
            t = z3.IntVal(t)
        if not is_z3(t) or not z3.is_int(t):
            return
        i = t.get_id()
        if i not in self._iterm_ids:
            self._iterm_ids.add(i)
            self.iterms.append(t)

    def hyps(self):
        hs = list(self.pc) + list(self.axioms)
        terms = list(self.iterms)      # instantiating a fact must not feed new terms back in
        for U in self.universals:
            for t in terms:
                try:
                    h = U(t)
                except Exception:
                    continue
                if isinstance(h, bool):
                    if not h:
                        hs.append(z3.BoolVal(False))
                    continue
                hs.append(h)
        return hs

    def feasible(self, cond):
        s = z3.Solver()
        s.set('timeout', self.feas_timeout_ms)
        s.add(*self.hyps())
        s.add(cond)
        return s.check() != z3.unsat

    def entails(self, cond, timeout_ms=None):
        if isinstance(cond, bool):
            return cond
        s = z3.Solver()
        s.set('timeout', timeout_ms or self.feas_timeout_ms)
        s.add(*self.hyps())
        s.add(z3.Not(cond))
        return s.check() == z3.unsat

    # -- branching ---------------------------------------------------------------------------
    def branch(self, cond):
        if isinstance(cond, bool):
            return cond
        cond = z3.simplify(b2z(cond))
        if z3.is_true(cond):
            return True
        if z3.is_false(cond):
            return False
        k = len(self.taken)
        if k < len(self.decisions):
            d = self.decisions[k]
        else:
            can_t = self.feasible(cond)
            can_f = self.feasible(z3.Not(cond))
            if can_t and can_f:
                self.alts.append(self.taken + [False])
                d = True
            elif can_t:
                d = True
            elif can_f:
                d = False
            else:
                raise Infeasible()
        self.taken.append(d)
        self.pc.append(cond if d else z3.Not(cond))
        return d

    def branch_pair(self, g_true, g_false):
        """Branch on a condition whose two sides were translated separately (quantified clauses
        are skolemised per polarity, so `not g_true` is NOT the right assumption for False)."""
        if isinstance(g_true, bool):
            return g_true
        k = len(self.taken)
        if k < len(self.decisions):
            d = self.decisions[k]
        else:
            can_t = self.feasible(b2z(g_true))
            can_f = self.feasible(b2z(g_false))
            if can_t and can_f:
                self.alts.append(self.taken + [False])
                d = True
            elif can_t:
                d = True
            elif can_f:
                d = False
            else:
                raise Infeasible()
        self.taken.append(d)
        self.pc.append(b2z(g_true) if d else b2z(g_false))
        return d

    def choose(self, nalts):
        """Nondeterministic n-way choice (loop cut: iterate vs exit)."""
        k = len(self.taken)
        if k < len(self.decisions):
            d = self.decisions[k]
        else:
            for j in range(nalts - 1, 0, -1):
                self.alts.append(self.taken + [j])
            d = 0
        self.taken.append(d)
        return d

    # -- obligations ---------------------------------------------------------------------------
    def oblige(self, kind, name, goal, info=None):
        if isinstance(goal, bool):
            goal = z3.BoolVal(goal)
        ob = Oblig(kind, name, goal, list(self.pc), list(self.universals), self.iterms,
                   tuple(self.taken), info, self.axioms)
        self.obligs.append(ob)
        return ob
