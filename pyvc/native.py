"""Native side (runs under /venv/bin/python): evaluates the *same* sidecar clause texts over real
NumPy/OpenMDAO values, on the real function loaded from /repo's working tree.

Usage: native.py < job.json > result.json
job = {"module": "contracts.c10_bounds", "contract": <name>, "cases": [<vals>...],
       "override": {"relpath":..., "old":..., "new":...} | null, "mode": "replay"|"bounded"}
"""
import ast
import copy
import importlib
import json
import math
import os
import sys
import traceback
import types
from fractions import Fraction

VERIF = os.path.dirname(os.path.dirname(os.path.abspath(__file__)))
REPO = os.environ.get('PYVC_REPO', '/repo')
sys.path.insert(0, VERIF)
sys.path.insert(0, REPO)


def decode(v):
    if isinstance(v, dict):
        if '__frac__' in v:
            return Fraction(v['__frac__'][0], v['__frac__'][1])
        if '__float__' in v:
            return float(v['__float__'])
        if '__cx__' in v:
            return complex(float(decode(v['__cx__'][0])), float(decode(v['__cx__'][1])))
        if '__arr__' in v:
            return v       # left to the builder (needs shape/dtype)
        if '__obj__' in v:
            return {'__cls__': v['__obj__'], **{k: decode(x) for k, x in v['attrs'].items()}}
        if '__dict__' in v:
            return {(tuple(k) if isinstance(k, list) else k): decode(x) for k, x in v['__dict__']}
        if '__seq__' in v:
            s = [decode(x) for x in v['__seq__']]
            return tuple(s) if v.get('tuple') else s
        if '__slice__' in v:
            return slice(*[decode(x) for x in v['__slice__']])
        if '__callable__' in v:
            return {'__callable__': decode(v['__callable__'])}
        if '__opaque__' in v:
            return v
        if '__type__' in v:
            return v
        if '__ref__' in v:
            return v
        return {k: decode(x) for k, x in v.items()}
    if isinstance(v, list):
        return [decode(x) for x in v]
    return v


def arr(v, np, dtype=float):
    """decoded '__arr__' record -> ndarray"""
    if v is None:
        return None
    if isinstance(v, dict) and '__arr__' in v:
        data = [decode(x) for x in v['__arr__']]
        dt = {'real': float, 'int': int, 'bool': bool, 'complex': complex, 'fp': float}.get(v.get('dtype'), dtype)
        if dt is float:
            data = [float(x) for x in data]
        a = np.array(data, dtype=dt).reshape(v['shape'])
        return a
    return np.asarray(v, dtype=dtype)


class OldRewriter(ast.NodeTransformer):
    """old(E) -> E with parameter names p renamed to __old_p ; implies(A,B) -> (not A) or B"""

    def __init__(self, params):
        self.params = set(params)
        self.in_old = 0

    def visit_Call(self, node):
        if isinstance(node.func, ast.Name) and node.func.id == 'old' and len(node.args) == 1:
            self.in_old += 1
            inner = self.visit(node.args[0])
            self.in_old -= 1
            return inner
        if isinstance(node.func, ast.Name) and node.func.id == 'implies' and len(node.args) == 2:
            a = self.visit(node.args[0])
            b = self.visit(node.args[1])
            return ast.BoolOp(op=ast.Or(), values=[ast.UnaryOp(op=ast.Not(), operand=a), b])
        if isinstance(node.func, ast.Name) and node.func.id == 'ite' and len(node.args) == 3:
            c, a, b = [self.visit(x) for x in node.args]
            return ast.IfExp(test=c, body=a, orelse=b)
        return self.generic_visit(node)

    def visit_Name(self, node):
        if self.in_old and node.id in self.params:
            return ast.copy_location(ast.Name(id='__old_' + node.id, ctx=node.ctx), node)
        return node


def compile_clause(txt, params):
    tree = ast.parse(txt.strip(), mode='eval')
    tree = OldRewriter(params).visit(tree)
    ast.fix_missing_locations(tree)
    return compile(tree, '<clause>', 'eval')


def helpers(np):
    def iff(a, b):
        return bool(a) == bool(b)

    def is_none(x):
        return x is None

    def same_object(a, b):
        if a is b:
            return True
        # pre-state objects come from a second, independent build: compare plain values by value
        if isinstance(a, (str, int, float, bool, type(None), tuple)) and type(a) is type(b):
            return a == b
        return False

    def is_nan(x):
        return bool(np.isnan(x))

    def is_inf(x):
        return bool(np.isinf(x))

    def fp_finite(x):
        return bool(np.isfinite(x))

    def Sum(n, f):
        return sum(f(k) for k in range(n))

    def arr_eq(a, b):
        return np.array_equal(np.asarray(a), np.asarray(b))
    def is_view(v, base, lo, hi):
        if not isinstance(v, np.ndarray) or not isinstance(base, np.ndarray):
            return False
        if v.ndim != 1 or v.shape[0] != hi - lo:
            return False
        if hi == lo:
            return True
        off = v.__array_interface__['data'][0] - base.__array_interface__['data'][0]
        return bool(np.shares_memory(v, base) and off == lo * base.strides[0] and
                    v.strides[0] == base.strides[0])

    def shares_memory(a, b):
        return isinstance(a, np.ndarray) and isinstance(b, np.ndarray) and bool(np.shares_memory(a, b))

    def same_fp(a, b):
        a, b = float(a), float(b)
        return a == b or (a != a and b != b)

    def same_fp_bool(a, b):
        return bool(a) == bool(b)

    def exceeds(a, b):
        try:
            return bool(a > b)
        except TypeError:
            return True

    def below(a, b):
        try:
            return bool(a < b)
        except TypeError:
            return True

    def le(a, b, tol=1e-9):
        # a <= b over the reals; natively within round-off (assumption A2)
        return a <= b + tol * (1 + abs(a) + abs(b))

    def approx(a, b, tol=1e-9):
        a, b = complex(a), complex(b)
        return abs(a - b) <= tol * (1 + abs(a) + abs(b))
    def is_scalar(x):
        return np.isscalar(x)

    def is_vector(x):
        return hasattr(x, '_data') and hasattr(x, 'asarray')
    import math as _math
    return dict(is_integral=lambda v: bool(np.isfinite(v)) and float(v) == int(v), log_=np.log, exp_=np.exp, tanh_=np.tanh, le=le, floor_=_math.floor, approx_h=None, exceeds=exceeds, below=below, INF_BOUND=1.0e30, same_fp=same_fp, same_fp_bool=same_fp_bool, approx=approx, is_scalar=is_scalar, is_vector=is_vector, is_view=is_view, iff=iff, is_none=is_none, same_object=same_object, is_nan=is_nan, is_inf=is_inf,
                fp_finite=fp_finite, Sum=Sum, arr_eq=arr_eq, np=np, shares_memory=shares_memory)


_MUTANTS = {}


def mutant_module(override):
    """The mutated source of override['relpath'] executed as a module of its own (same name / package as the original)."""
    relpath = override.get('relpath')
    key = (relpath, override.get('old'), override.get('new'))
    if key in _MUTANTS:
        return _MUTANTS[key]
    try:
        modname = relpath[:-3].replace('/', '.')
        mod = importlib.import_module(modname)
        path = os.path.join(REPO, relpath)
        src = open(path).read()
        if override['old'] not in src:
            return None
        src = src.replace(override['old'], override['new'], 1)
        m2 = types.ModuleType(modname + '__mutant')
        m2.__dict__.update({k: v for k, v in mod.__dict__.items() if k.startswith('__') and k != '__name__'})
        m2.__dict__['__name__'] = mod.__name__
        m2.__dict__['__package__'] = mod.__package__
        m2.__dict__['__file__'] = path
        exec(compile(src, path, 'exec'), m2.__dict__)
    except Exception:
        m2 = None
    _MUTANTS[key] = m2
    return m2


def load_function(target, override=None):
    relpath, qual = target.split('::')
    if relpath.startswith('verif:'):
        relpath = relpath[6:]
    modname = relpath[:-3].replace('/', '.')
    mod = importlib.import_module(modname)
    if override and override.get('relpath') == relpath:
        path = os.path.join(REPO, relpath)
        src = open(path).read()
        if override['old'] not in src:
            raise RuntimeError('override fragment not found')
        src = src.replace(override['old'], override['new'], 1)
        m2 = types.ModuleType(modname + '__mutant')
        m2.__dict__.update({k: v for k, v in mod.__dict__.items() if k.startswith('__') and k != '__name__'})
        m2.__dict__['__name__'] = mod.__name__
        m2.__dict__['__package__'] = mod.__package__
        m2.__dict__['__file__'] = path
        exec(compile(src, path, 'exec'), m2.__dict__)
        mod = m2
    if '@' in qual:
        # mechanically extracted fragment: the wrapper text is exec'd in the (possibly mutated) module namespace
        from pyvc import extract      # pure stdlib (ast), importable under the native interpreter
        ov = None
        if override and override.get('relpath') == relpath:
            ov = {relpath: src}
        extract.clear_cache()
        text, name = extract.fragment_source(target, ov)
        ns = mod.__dict__
        exec(compile(text, '<fragment of %s>' % target, 'exec'), ns)
        return ns[name], mod
    obj = mod
    for part in qual.split('.'):
        obj = getattr(obj, part)
    return obj, mod


def run_case(c, vals, np, om, override=None, tol=1e-9):
    """Counter-models of loop functions carry no input history: the contract may expand one
    model into candidate scenarios (bounded search seeded by the model's values)."""
    expand = getattr(c, 'native_expand', None)
    if expand is None or (isinstance(vals, dict) and vals.get('__scenario__')):
        return run_one(c, vals, np, om, override)
    last = None
    n = 0
    for cand in expand(vals):
        n += 1
        r = run_one(c, cand, np, om, override)
        if r.get('pre_ok') and r.get('failed'):
            r['scenario'] = cand
            r['scenarios_tried'] = n
            return r
        if last is None or r.get('pre_ok'):
            last = r
    if last is None:
        last = {'pre_ok': None, 'failed': [], 'detail': {'note': 'no scenario'}}
    last['scenarios_tried'] = n
    return last


def run_one(c, vals, np, om, override=None, tol=1e-9):
    """Returns dict(pre_ok, outcome, failed=[clause...], detail)"""
    out = {'pre_ok': None, 'outcome': None, 'failed': [], 'detail': {}}
    fn, mod = load_function(c.target, override)
    built = c.native(vals, np, om)
    built_old = c.native(vals, np, om)
    kwargs, sizes = built[0], built[1]
    okwargs = built_old[0]
    if override:
        # a mutation may sit in a CALLEE of the function under contract (a canary on compute_coeffs, or on a component
        # method called by a lemma harness): every argument object whose class is defined in the mutated file becomes an
        # instance of the mutant module's class, so that the methods it runs are the mutated ones
        mm = mod if getattr(mod, '__name__', '') == override.get('relpath', '')[:-3].replace('/', '.') else mutant_module(override)
        if mm is not None:
            for v in list(kwargs.values()):
                cls = type(v)
                if getattr(cls, '__module__', None) != mm.__dict__.get('__name__'):
                    continue
                mcls = mm.__dict__.get(cls.__name__)
                if isinstance(mcls, type) and mcls is not cls:
                    try:
                        v.__class__ = mcls
                    except TypeError:
                        pass
    call = built[2] if len(built) > 2 else None
    env = helpers(np)
    env.update(sizes)
    env.update(kwargs)
    pnames = list(kwargs.keys())
    for k, v in okwargs.items():
        env['__old_' + k] = v
    # requires
    pre_ok = True
    for cl in c.requires:
        try:
            if not eval(compile_clause(cl, pnames), env):
                pre_ok = False
                out['detail']['pre_failed'] = cl
                break
        except Exception as e:
            pre_ok = False
            out['detail']['pre_error'] = '%s: %r' % (cl, e)
            break
    out['pre_ok'] = pre_ok
    if not pre_ok:
        return out
    raised = None
    result = None
    try:
        if call is not None:
            result = call(fn, kwargs)
        else:
            import inspect
            sig_names = [p for p in inspect.signature(fn).parameters]
            result = fn(**{k: v for k, v in kwargs.items() if k in sig_names})
    except Exception as e:      # noqa
        raised = type(e).__name__
        out['detail']['exception'] = ''.join(traceback.format_exception_only(type(e), e)).strip()
    env['result'] = result
    out['outcome'] = 'raise:' + raised if raised else 'return'
    for cl in getattr(c, 'native_ensures', ()):
        # statements that are pre@callee / invariant obligations symbolically, observed natively
        try:
            ok = bool(eval(compile_clause(cl, pnames), env))
        except Exception as e:
            ok = False
            out['detail'].setdefault('clause_errors', []).append('%s: %r' % (cl, e))
        if not ok:
            out['failed'].append({'kind': 'native-ensures', 'clause': cl})
    if raised is None:
        for cl in list(c.ensures) + list(getattr(c, 'ensures_check_only', ())):
            try:
                ok = bool(eval(compile_clause(cl, pnames), env))
            except Exception as e:
                ok = False
                out['detail'].setdefault('clause_errors', []).append('%s: %r' % (cl, e))
            if not ok:
                out['failed'].append({'kind': 'post', 'clause': cl})
        for et, cond in c.raises_iff.items():
            e2 = dict(env)
            for k in pnames:
                e2[k] = env['__old_' + k]
            try:
                should = bool(eval(compile_clause(cond, pnames), e2))
            except Exception as e:
                should = False
                out['detail'].setdefault('clause_errors', []).append('%s: %r' % (cond, e))
            if should:
                out['failed'].append({'kind': 'exc', 'clause': 'must raise %s when %s' % (et, cond)})
    else:
        if raised not in c.raises_iff and '*' in c.raises_iff and raised in c.may_raise:
            e2 = dict(env)
            for k in pnames:
                e2[k] = env['__old_' + k]
            try:
                should = bool(eval(compile_clause(c.raises_iff['*'], pnames), e2))
            except Exception as e:
                should = True
                out['detail'].setdefault('clause_errors', []).append('%s: %r' % (c.raises_iff['*'], e))
            if not should:
                out['failed'].append({'kind': 'exc', 'clause': '%s raised although not (%s)' % (raised, c.raises_iff['*'])})
        elif raised in c.raises_iff:
            e2 = dict(env)
            for k in pnames:
                e2[k] = env['__old_' + k]
            try:
                should = bool(eval(compile_clause(c.raises_iff[raised], pnames), e2))
            except Exception:
                should = False
            if not should:
                out['failed'].append({'kind': 'exc', 'clause': '%s raised although not (%s)' % (raised, c.raises_iff[raised])})
        elif raised not in c.may_raise:
            out['failed'].append({'kind': 'exc', 'clause': 'unexpected %s' % raised})
        env['raised'] = raised
        for cl in c.exc_ensures:
            try:
                ok = bool(eval(compile_clause(cl, pnames), env))
            except Exception as e:
                ok = False
                out['detail'].setdefault('clause_errors', []).append('%s: %r' % (cl, e))
            if not ok:
                out['failed'].append({'kind': 'exc-post', 'clause': cl})
    return out


def find_contract(module, name):
    from pyvc import spec
    importlib.import_module(module)
    for cs in spec.REGISTRY.values():
        for c in cs:
            if c.name == name:
                return c
    raise KeyError(name)


def main():
    import numpy as np
    import warnings
    warnings.simplefilter('ignore')
    try:
        import openmdao.api as om
    except Exception:
        om = None
    job = json.load(sys.stdin)
    jobs = job['jobs'] if 'jobs' in job else [job]
    allres = []
    for jb in jobs:
        res = []
        try:
            c = find_contract(jb['module'], jb['contract'])
        except Exception:
            allres.append([{'error': traceback.format_exc()}] * len(jb['cases']))
            continue
        for vals in jb['cases']:
            try:
                r = run_case(c, decode(vals), np, om, jb.get('override'))
            except Exception as e:
                r = {'error': traceback.format_exc()}
            res.append(r)
        allres.append(res)
    sys.stdout.write('\n')
    json.dump(allres if 'jobs' in job else allres[0], sys.stdout, default=str)


if __name__ == '__main__':
    main()
