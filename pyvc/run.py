"""Check driver:  run.py <Cxx> [--tier quick|thorough] | --replay <file> | --update-ledger <Cxx>

exit 0  property held on everything explored (undischarged-but-not-refuted obligations are
        reported as undecided in the evidence and never raise an alarm)
exit 1  VIOLATION line(s) printed
exit 3  the machinery itself is broken (zero obligations, surviving canary, internal error)
"""
import sys
import os
import json
import time
import hashlib
import importlib
import subprocess
import traceback
import multiprocessing as mp

VERIF = os.path.dirname(os.path.dirname(os.path.abspath(__file__)))
sys.path.insert(0, VERIF)
os.chdir(VERIF)

from pyvc import spec, verify, extract, interp          # noqa: E402
import contracts                                         # noqa: E402

NATIVE_PY = os.environ.get('PYVC_NATIVE_PY', '/venv/bin/python')
REPO = extract.REPO

interp.Interp.CLASS_HOME.update(contracts.CLASS_HOME)


def ob_key(o, cname):
    return '%s|%s|%s|%s' % (cname, o['kind'], o.get('clause') or o['name'], o['config'])


def contract_module(c):
    return c.__dict__.get('_module')


def load_property(prop):
    mods = contracts.PROPERTY_MODULES.get(prop, [])
    for m in mods:
        before = {id(c) for cs in spec.REGISTRY.values() for c in cs}
        mod = importlib.import_module(m)
        for cs in spec.REGISTRY.values():
            for c in cs:
                if id(c) not in before and not hasattr(c, '_module'):
                    c._module = m
    # every other sidecar module is imported as well: a contract TAGGED for this property is part of its check wherever it
    # is written (seed S-C02-6 was missed because a contract tagged C02 lived in a module the C02 check did not load), and
    # callee contracts from other properties' modules must be loadable too
    others = [m for ms in contracts.PROPERTY_MODULES.values() for m in ms if m not in mods]
    for m in list(dict.fromkeys(others)) + list(contracts.SHARED_MODULES):
        before = {id(c) for cs in spec.REGISTRY.values() for c in cs}
        importlib.import_module(m)
        for cs in spec.REGISTRY.values():
            for c in cs:
                if id(c) not in before and not hasattr(c, '_module'):
                    c._module = m
    return [c for cs in spec.REGISTRY.values() for c in cs if prop in c.props]


def summarize(res):
    return {'name': res.name, 'target': res.target, 'source_sha256': res.source_hash,
            'configs': res.configs, 'paths': res.paths, 'fallback': res.fallback,
            'error': res.error, 'obligations': res.obligations,
            'callee_contracts': sorted(res.callees), 'inlined': sorted(set(t for t, _ in res.inlined)),
            'assumed': sorted(res.assumed), 'seconds': round(res.seconds, 3),
            'symex_seconds': round(res.symex_seconds, 3), 'vacuity': res.vacuity}


def _task(args):
    kind, cname, timeout_ms, canary_idx, extra_requires = args[:5]
    cfg_slice = args[5] if len(args) > 5 else None
    try:
        c = CONTRACTS[cname]
        overrides = None
        if kind == 'canary':
            desc, (old, new), expect = c.canaries[canary_idx][:3]
            ctarget = c.canaries[canary_idx][3] if len(c.canaries[canary_idx]) > 3 else c.target
            relpath = ctarget.split('::')[0]
            text = open(os.path.join(REPO, relpath)).read()
            extract.clear_cache()
            mod, fn, _ = extract.find_function(ctarget)
            seg = mod.segment(fn)
            if seg is None or seg.count(old) < 1 or text.count(seg) != 1:
                return {'kind': 'canary', 'name': cname, 'idx': canary_idx, 'desc': desc,
                        'status': 'not-applicable', 'why': 'fragment not found (source changed)'}
            seg2 = seg.replace(old, new, 1)
            overrides = {relpath: text.replace(seg, seg2, 1)}
            old, new = seg, seg2
            extract.clear_cache()
        if extra_requires:
            import copy
            c = copy.copy(c)
            c.requires = list(c.requires) + list(extra_requires)
        res = verify.verify_contract(c, spec.REGISTRY, overrides=overrides, timeout_ms=timeout_ms,
                                     max_refuted=1 if kind == 'canary' else 3, cfg_slice=cfg_slice)
        out = summarize(res)
        out['kind'] = kind
        if kind == 'canary':
            out['idx'] = canary_idx
            out['desc'] = c.canaries[canary_idx][0]
            out['override'] = {'relpath': relpath, 'old': old, 'new': new}
            extract.clear_cache()
        return out
    except Exception:
        return {'kind': kind, 'name': cname, 'idx': canary_idx, 'error': traceback.format_exc(),
                'obligations': []}


CONTRACTS = {}


def native_run(module, cname, cases, override=None, timeout=600):
    job = {'module': module, 'contract': cname, 'cases': cases, 'override': override}
    env = dict(os.environ)
    env['PYTHONPATH'] = VERIF + os.pathsep + REPO
    env.setdefault('OPENMDAO_REPORTS', '0')
    env['PYTHONWARNINGS'] = 'ignore'
    p = subprocess.run([NATIVE_PY, os.path.join(VERIF, 'pyvc', 'native.py')], input=json.dumps(job),
                       capture_output=True, text=True, timeout=timeout, env=env, cwd='/tmp')
    if p.returncode != 0:
        return [{'error': 'native runner failed: ' + p.stderr[-2000:]}] * len(cases)
    try:
        # the runner prints only JSON on the last line
        line = p.stdout.strip().splitlines()[-1]
        return json.loads(line)
    except Exception:
        return [{'error': 'native runner output unparsable: ' + p.stdout[-1000:] + p.stderr[-1000:]}] * len(cases)


def native_batch(jobs, timeout=1200):
    """jobs: list of {'module','contract','cases'}; returns list of result lists (16 processes)."""
    from concurrent.futures import ThreadPoolExecutor
    if not jobs:
        return []
    nchunks = min(16, len(jobs))
    chunks = [jobs[i::nchunks] for i in range(nchunks)]

    def run_chunk(chunk):
        env = dict(os.environ)
        env['PYTHONPATH'] = VERIF + os.pathsep + REPO
        env.setdefault('OPENMDAO_REPORTS', '0')
        env['PYTHONWARNINGS'] = 'ignore'
        try:
            p = subprocess.run([NATIVE_PY, os.path.join(VERIF, 'pyvc', 'native.py')],
                               input=json.dumps({'jobs': chunk}), capture_output=True, text=True,
                               timeout=timeout, env=env, cwd='/tmp')
            if p.returncode != 0:
                raise RuntimeError(p.stderr[-1500:])
            return json.loads(p.stdout.strip().splitlines()[-1])
        except Exception as e:
            return [[{'error': 'native batch failed: %s' % e}] * len(j['cases']) for j in chunk]
    with ThreadPoolExecutor(nchunks) as ex:
        outs = list(ex.map(run_chunk, chunks))
    res = [None] * len(jobs)
    for ci, out in enumerate(outs):
        for k, r in enumerate(out):
            res[ci + k * nchunks] = r
    return res


def load_json(path, default):
    try:
        with open(path) as f:
            return json.load(f)
    except Exception:
        return default


def run_check(prop, tier, seed):
    t0 = time.time()
    cs = load_property(prop)
    # contracts marked defs={'tier': 'thorough'} (many-path proofs) are verified by the thorough tier only; the quick tier
    # lists them in the evidence as deferred
    deferred = [c.name for c in cs if tier == 'quick' and c.defs.get('tier') == 'thorough']
    cs = [c for c in cs if c.name not in deferred]
    for c in cs:
        CONTRACTS[c.name] = c
    for cl in spec.REGISTRY.values():
        for c in cl:
            CONTRACTS.setdefault(c.name, c)
    timeout_ms = 10000 if tier == 'quick' else 60000
    known = load_json(os.path.join(VERIF, 'known_findings.json'), {'known': [], 'fixed': []})
    ledger = set(load_json(os.path.join(VERIF, 'baseline_obligations.json'), {}).get(prop, []))
    known_here = [k for k in known.get('known', []) if k['property'] == prop]

    tasks = []
    for c in cs:
        extra = [('not (%s)' % k['exclude']) for k in known_here if k.get('contract') == c.name]
        nsplit = 1
        if c.fp or getattr(c, 'split_configs', False):
            try:
                nsplit = min(8, max(1, len(verify.enumerate_configs(c.params))))
            except Exception:
                nsplit = 1
        for j in range(nsplit):
            tasks.append(('verify', c.name, max(timeout_ms, c.defs.get('timeout_ms', 0)), None, tuple(extra), (j, nsplit) if nsplit > 1 else None))
    run_canaries = True
    if run_canaries:
        for c in cs:
            for i in range(len(c.canaries)):
                tasks.append(('canary', c.name, max(c.defs.get('canary_timeout_ms', 0), 5000 if tier == 'quick' else 20000), i, ()))
    nproc = min(16, max(1, len(tasks)))
    if nproc > 1:
        with mp.get_context('fork').Pool(nproc) as pool:
            results = pool.map(_task, tasks, chunksize=1)
    else:
        results = [_task(t) for t in tasks]

    violations = []
    lines = []
    machinery_errors = []
    fn_records = []
    total_obl = discharged = 0
    undecided = []
    samples = []
    replay_dir = os.path.join(VERIF, 'replay')
    os.makedirs(replay_dir, exist_ok=True)

    # ---- merge per-config-slice results of one contract ---------------------------------------
    merged = {}
    order = []
    for r in [r for r in results if r['kind'] == 'verify']:
        nm = r['name']
        if nm not in merged:
            merged[nm] = r
            order.append(nm)
            continue
        m = merged[nm]
        m['obligations'] = m.get('obligations', []) + r.get('obligations', [])
        for k in ('paths', 'seconds', 'symex_seconds'):
            m[k] = (m.get(k) or 0) + (r.get(k) or 0)
        for k in ('callee_contracts', 'inlined', 'assumed'):
            m[k] = sorted(set(m.get(k) or []) | set(r.get(k) or []))
        m['fallback'] = m.get('fallback') or r.get('fallback')
        m['error'] = m.get('error') or r.get('error')
        m['vacuity'] = (m.get('vacuity') or []) + (r.get('vacuity') or [])
    if merged:
        for m in merged.values():
            vac = m.get('vacuity') or []
            if m.get('error') and 'requires unsatisfiable in every configuration' in str(m['error']) and \
                    any(v['requires_satisfiable'] != 'unsat' for v in vac):
                m['error'] = None
    results = [merged[nm] for nm in order] + [r for r in results if r['kind'] != 'verify']

    # ---- main verification results -------------------------------------------------------
    for r in [r for r in results if r['kind'] == 'verify']:
        c = CONTRACTS[r['name']]
        if r.get('error'):
            if 'Traceback' in (r.get('error') or ''):
                machinery_errors.append('%s: %s' % (r['name'], r['error'][-800:]))
            else:
                machinery_errors.append('%s: %s' % (r['name'], r['error']))
            continue
        obls = r['obligations']
        nd = sum(1 for o in obls if o['status'] == 'discharged')
        rec = {k: r[k] for k in ('name', 'target', 'source_sha256', 'configs', 'paths', 'fallback',
                                 'callee_contracts', 'inlined', 'assumed', 'seconds', 'symex_seconds')}
        rec['obligations'] = len(obls)
        rec['discharged'] = nd
        rec['proved'] = (r['fallback'] is None and nd == len(obls) and len(obls) > 0)
        rec['solver_seconds'] = round(sum(o['seconds'] for o in obls), 3)
        rec['backend'] = sorted({o['backend'] for o in obls if o.get('backend')})
        fn_records.append(rec)
        if r['fallback'] is None:
            total_obl += len(obls)
            discharged += nd
        else:
            undecided.append({'contract': r['name'], 'why': r['fallback']})
        if len(samples) < 6:
            for o in obls[:2]:
                samples.append({'obligation': o['id'], 'kind': o['kind'], 'statement': o['name'][:300],
                                'status': o['status'], 'seconds': o['seconds']})
        bad = [o for o in obls if o['status'] == 'refuted']
        unk = [o for o in obls if o['status'] == 'unknown']
        for o in unk:
            undecided.append({'contract': r['name'], 'obligation': o['id'], 'why': 'solver: %s' % o.get('reason')})
        # replay refuted obligations (distinct clause keys, first model each)
        seen = set()
        confirmed_here = 0
        for o in bad:
            key = ob_key(o, r['name'])
            ckey = '%s|%s|%s' % (r['name'], o['kind'], o.get('clause') or o['name'])
            if key in seen or ckey in seen:
                continue
            seen.add(key)
            if confirmed_here >= 2:
                undecided.append({'contract': r['name'], 'obligation': o['id'],
                                  'why': 'refuted; not replayed (two violations of this contract already confirmed)'})
                continue
            verdict, path = replay_and_decide(prop, c, o, key, ledger, None)
            if verdict == 'violation':
                violations.append((key, path, ''))
                confirmed_here += 1
                seen.add(ckey)
            elif verdict == 'violation-noinput':
                violations.append((key, path, ' no-failing-input-found'))
                undecided.append({'contract': r['name'], 'obligation': o['id'], 'why': 'refuted (ledger obligation); counter-model did not replay natively'})
            else:
                undecided.append({'contract': r['name'], 'obligation': o['id'],
                                  'why': 'counter-model did not replay natively and obligation is not in the baseline ledger'})

    # ---- canaries ------------------------------------------------------------------------
    canary_records = []
    for r in [r for r in results if r['kind'] == 'canary']:
        if r.get('status') == 'not-applicable':
            canary_records.append({'contract': r['name'], 'desc': r['desc'], 'status': 'not-applicable'})
            continue
        if r.get('error'):
            machinery_errors.append('canary %s#%s: %s' % (r['name'], r.get('idx'), str(r['error'])[-500:]))
            continue
        obls = r['obligations']
        killed = [o for o in obls if o['status'] == 'refuted']
        status = 'killed' if killed else ('undecided' if (r['fallback'] or any(
            o['status'] == 'unknown' for o in obls)) else 'SURVIVED')
        crec = {'contract': r['name'], 'desc': r['desc'], 'status': status,
                'failed_obligation': killed[0]['name'][:200] if killed else None}
        if killed and tier == 'thorough' and CONTRACTS[r['name']].native:
            c = CONTRACTS[r['name']]
            nat = native_run(c._module, c.name, [killed[0].get('model', {})], r['override'])
            crec['native_replay'] = 'confirmed' if nat and nat[0].get('failed') else \
                ('not-confirmed: %s' % json.dumps(nat[0])[:300])
        if status == 'undecided' and CONTRACTS[r['name']].native and r.get('override'):
            # the solver could neither prove nor refute the mutant: evaluate the contract's clauses natively on the
            # MUTATED source over sampled inputs; a failing clause shows the contract distinguishes the mutant
            from pyvc import sample as _sampler
            c = CONTRACTS[r['name']]
            try:
                cases = _sampler.samples(c, 300, seed)
                nat = native_run(c._module, c.name, cases, r['override'])
                bad = [x for x in nat if x.get('pre_ok') and x.get('failed')]
                if bad:
                    crec['status'] = status = 'killed'
                    crec['failed_obligation'] = str(bad[0]['failed'][0].get('clause'))[:200]
                    crec['killed_by'] = 'native evaluation of the contract clauses on the mutated source (%d of %d sampled inputs fail; solver undecided)' % (len(bad), len(nat))
            except Exception as e:      # noqa
                crec['sampling_error'] = str(e)[-200:]
        canary_records.append(crec)
        if status == 'SURVIVED':
            machinery_errors.append('canary survived: %s — %s (engine or contract too weak)' % (r['name'], r['desc']))

    # ---- native sampling of the contracts on the real code (bounded, never counted as proof) ---
    from pyvc import sample as sampler
    nsamp = 12 if tier == 'quick' else 120
    # contracts whose proof is not complete on this tree get a much larger bounded exploration
    weak = set(u['contract'] for u in undecided if 'contract' in u)
    sjobs = []
    for c in cs:
        if c.native and not getattr(c, 'no_sampling', False):
            k = nsamp if c.name not in weak else (600 if tier == 'quick' else 3000)
            sjobs.append({'module': c._module, 'contract': c.name, 'cases': sampler.samples(c, k, seed)})
    sres = native_batch(sjobs)
    samp_total = samp_checked = 0
    samp_records = []
    for jb, rs in zip(sjobs, sres):
        ok = sum(1 for r in rs if r.get('pre_ok') and not r.get('failed') and not r.get('error'))
        skipped = sum(1 for r in rs if r.get('pre_ok') is False)
        errs = [r for r in rs if r.get('error')]
        fails = [(i, r) for i, r in enumerate(rs) if r.get('pre_ok') and r.get('failed')]
        samp_total += len(rs)
        samp_checked += ok
        samp_records.append({'contract': jb['contract'], 'cases': len(rs), 'held': ok,
                             'precondition_false': skipped, 'errors': len(errs)})
        if errs and len(errs) == len(rs):
            undecided.append({'contract': jb['contract'], 'why': 'native sampler could not run: %s' % str(errs[0]['error'])[-300:]})
        for i, r in fails[:1]:
            c = CONTRACTS[jb['contract']]
            rid = hashlib.sha1(json.dumps(jb['cases'][i], sort_keys=True, default=str).encode()).hexdigest()[:10]
            path = os.path.join('replay', '%s-sample-%s.json' % (prop, rid))
            with open(os.path.join(VERIF, path), 'w') as f:
                json.dump({'property': prop, 'contract': c.name, 'module': c._module, 'target': c.target,
                           'kind': 'native-sample', 'model': jb['cases'][i], 'native': r}, f, indent=1, default=str)
            key = 'sample|%s|%s' % (c.name, r['failed'][0]['clause'])
            if not any(kf.get('contract') == c.name and kf.get('clause') == r['failed'][0]['clause'] for kf in known_here):
                violations.append((key, path, ''))

    # ---- extra tiers (lemmas / lean / bounded) -------------------------------------------
    extra = {}
    hook = contracts.EXTRA_TIERS.get(prop)
    if hook:
        extra = hook(tier, seed, native_run) or {}
        for v in extra.get('violations', []):
            if not any(kf.get('witness_id') == v.get('witness_id') for kf in known_here if kf.get('witness_id')):
                path = os.path.join('replay', '%s-%s.json' % (prop, hashlib.sha1(json.dumps(v, sort_keys=True, default=str).encode()).hexdigest()[:10]))
                with open(os.path.join(VERIF, path), 'w') as f:
                    json.dump(v, f, indent=1, default=str)
                violations.append((v.get('what', 'bounded'), path, ''))
        lines.extend(extra.get('known_lines', []))
        total_obl += extra.get('obligations', 0)
        discharged += extra.get('discharged', 0)
        machinery_errors.extend(extra.get('errors', []))

    # ---- known findings ------------------------------------------------------------------
    for k in known_here:
        if not k.get('contract'):
            continue
        still = True
        if k.get('witness') is not None and k.get('contract') in CONTRACTS and CONTRACTS[k['contract']].native:
            c = CONTRACTS[k['contract']]
            nat = native_run(c._module, c.name, [k['witness']])
            still = bool(nat and (nat[0].get('failed')))
        if still:
            lines.append('KNOWN-FINDING: property=%s %s' % (prop, k['what']))

    wall = time.time() - t0
    if total_obl == 0 and not machinery_errors and not any(f['fallback'] for f in fn_records) and \
            not (contracts.LEVELS.get(prop) == 'exploration' and (extra.get('exploration') or {}).get('evaluations')):
        machinery_errors.append('zero obligations generated for %s' % prop)

    evidence = {
        'property_id': prop, 'tier': tier, 'seed': seed,
        'level': contracts.LEVELS.get(prop, 'proof'),
        'coverage': {
            'obligations': total_obl, 'discharged': discharged,
            'checker_cmd': './check %s --tier %s' % (prop, tier),
            'trusted_base': contracts.TRUSTED_BASE + contracts.PROPERTY_TRUST.get(prop, []),
            'functions_under_contract': fn_records,
            'functions_proved': sum(1 for f in fn_records if f['proved']),
            'functions_fallen_back': [f['name'] for f in fn_records if f['fallback']],
            'undecided': undecided,
            'canaries': canary_records,
            'samples': samples,
            'unverified': contracts.GAPS.get(prop, []) + (['deferred to the thorough tier (proved there, not in this run): ' + '; '.join(deferred)] if deferred else []),
            'solver_seconds': round(sum(f['solver_seconds'] for f in fn_records), 2),
            'known_findings_excluded': [k['what'] for k in known_here],
            'bounded_native_samples': {'note': 'bounded stand-in / sanity tier, NOT counted in obligations', 'cases': samp_total, 'held': samp_checked, 'per_contract': samp_records},
        },
        'assumptions': contracts.ASSUMPTIONS + contracts.PROPERTY_ASSUMPTIONS.get(prop, []),
        'wall_s': round(wall, 2),
        'violations': len(violations),
    }
    for k, v in extra.items():
        if k not in ('violations', 'obligations', 'discharged', 'errors', 'known_lines', 'exploration'):
            evidence['coverage'][k] = v
    if evidence['level'] == 'exploration':
        # the property itself is decided by the bounded tier: its counts are the level's own keys; the proof
        # obligations on the surrounding glue stay listed beside them
        ex = extra.get('exploration') or {}
        evidence['coverage']['proof_obligations_on_glue'] = evidence['coverage'].pop('samples')
        for k in ('evaluations', 'distinct_nontrivial', 'rule', 'samples', 'exhaustive'):
            if k in ex:
                evidence['coverage'][k] = ex[k]
    os.makedirs(os.path.join(VERIF, 'evidence'), exist_ok=True)
    with open(os.path.join(VERIF, 'evidence', prop + '.json'), 'w') as f:
        json.dump(evidence, f, indent=1, default=str)

    for ln in lines:
        print(ln)
    print('%s: %d functions under contract, %d/%d obligations discharged, %d undecided, %d canaries (%d killed), %.1fs'
          % (prop, len(fn_records), discharged, total_obl, len(undecided), len(canary_records),
             sum(1 for c in canary_records if c['status'] == 'killed'), wall))
    for u in undecided[:10]:
        print('  undecided:', json.dumps(u)[:300])
    if machinery_errors:
        for m in machinery_errors:
            print('CHECKER-ERROR:', m)
    if violations:
        for key, path, suffix in violations:
            print('VIOLATION property=%s replay=%s%s' % (prop, path, suffix))
        return 1
    if machinery_errors:
        return 3
    return 0


def replay_and_decide(prop, c, o, key, ledger, override):
    """Returns (verdict, replay path). verdict: violation | violation-noinput | undecided"""
    rid = hashlib.sha1((key + json.dumps(o.get('model', {}), sort_keys=True, default=str)).encode()).hexdigest()[:10]
    path = os.path.join('replay', '%s-%s.json' % (prop, rid))
    rec = {'property': prop, 'contract': c.name, 'module': getattr(c, '_module', None), 'target': c.target,
           'obligation': o['id'], 'obligation_key': key, 'kind': o['kind'], 'statement': o['name'],
           'config': o['config'], 'path': o['path'], 'solver': o.get('backend'),
           'model': o.get('model'), 'model_sizes': o.get('model_sizes')}
    nat = None
    if c.native and o.get('model') is not None:
        nat = native_run(c._module, c.name, [o['model']], override)[0]
        rec['native'] = nat
    confirmed = bool(nat and nat.get('pre_ok') and nat.get('failed'))
    in_ledger = key in ledger
    if not in_ledger and o['kind'] == 'frame' and any(k.startswith(c.name + '|') and k.endswith('|' + str(o['config'])) for k in ledger):
        # frame obligations are only generated for locations the code writes: this one did not exist on the unchanged tree
        # (nothing wrote there, so it held trivially) while every obligation of this contract and configuration was
        # discharged; a refuted one now means the code writes outside the contract's `modifies`
        in_ledger = True
    if confirmed:
        rec['verdict'] = 'violation: counter-model replays on the real code'
    elif in_ledger:
        rec['verdict'] = 'violation: obligation was discharged on the unchanged tree and is now refuted; no-failing-input-found'
        rec['solver_output'] = 'sat (model above)'
    else:
        rec['verdict'] = 'undecided'
    with open(os.path.join(VERIF, path), 'w') as f:
        json.dump(rec, f, indent=1, default=str)
    if confirmed:
        return 'violation', path
    if in_ledger:
        return 'violation-noinput', path
    return 'undecided', path


def update_ledger(prop):
    cs = load_property(prop)
    for c in cs:
        CONTRACTS[c.name] = c
    keys = set()
    known = load_json(os.path.join(VERIF, 'known_findings.json'), {'known': [], 'fixed': []})
    known_here = [k for k in known.get('known', []) if k['property'] == prop]
    tasks = []
    for c in cs:
        extra = [('not (%s)' % k['exclude']) for k in known_here if k.get('contract') == c.name]
        tasks.append(('verify', c.name, 20000, None, tuple(extra)))
    with mp.get_context('fork').Pool(min(16, max(1, len(tasks)))) as pool:
        results = pool.map(_task, tasks, chunksize=1)
    for r in results:
        by = {}
        for o in r.get('obligations', []):
            by.setdefault(ob_key(o, r['name']), []).append(o['status'])
        for k, sts in by.items():
            if all(s == 'discharged' for s in sts):
                keys.add(k)
    path = os.path.join(VERIF, 'baseline_obligations.json')
    led = load_json(path, {})
    led[prop] = sorted(keys)
    with open(path, 'w') as f:
        json.dump(led, f, indent=0, sort_keys=True)
    print('ledger %s: %d obligation keys' % (prop, len(keys)))


def do_replay(path):
    rec = json.load(open(path))
    prop = rec['property']
    load_property(prop)
    for cl in spec.REGISTRY.values():
        for c in cl:
            CONTRACTS.setdefault(c.name, c)
    if 'contract' in rec and rec.get('model') is not None and rec['contract'] in CONTRACTS:
        c = CONTRACTS[rec['contract']]
        nat = native_run(c._module, c.name, [rec['model']])
        print(json.dumps(nat[0], indent=1, default=str))
        if nat[0].get('failed'):
            print('VIOLATION property=%s replay=%s' % (prop, path))
            return 1
        return 0
    hook = contracts.REPLAY_HOOKS.get(prop)
    if hook:
        return hook(rec, path)
    print(json.dumps(rec, indent=1)[:3000])
    return 0


def main(argv):
    if len(argv) >= 2 and argv[0] == '--replay':
        return do_replay(argv[1])
    if len(argv) >= 2 and argv[0] == '--update-ledger':
        for p in argv[1:]:
            update_ledger(p)
        return 0
    prop = argv[0]
    tier = os.environ.get('VERIF_TIER', 'quick')
    if '--tier' in argv:
        tier = argv[argv.index('--tier') + 1]
    seed = int(os.environ.get('VERIF_SEED', '0') or 0)
    try:
        return run_check(prop, tier, seed)
    except Exception:
        traceback.print_exc()
        print('CHECKER-ERROR: internal error')
        return 3


if __name__ == '__main__':
    sys.exit(main(sys.argv[1:]))
