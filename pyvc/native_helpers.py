"""Helpers for native builders in sidecar modules (run under /venv/bin/python)."""
from fractions import Fraction


def A(v, dtype=float):
    """decoded array record -> ndarray (None stays None)"""
    import numpy as np
    from pyvc.native import arr
    return arr(v, np, dtype)


def Fl(v):
    if isinstance(v, Fraction):
        return v.numerator / v.denominator
    return float(v)


_vec_cache = {}


def make_vector(data, kind='output', complex_step=False, complex_alloc=False):
    """A real DefaultVector (root, nonlinear) over a copy of `data`, from a minimal Problem."""
    import numpy as np
    import openmdao.api as om
    n = len(data)
    p = om.Problem()
    p.model.add_subsystem('c', om.IndepVarComp('x', np.zeros(max(n, 0))), promotes=['*'])
    p.setup(force_alloc_complex=complex_step or complex_alloc)
    p.final_setup()
    vec = p.model._vectors[kind]['nonlinear']
    vec._data[:] = data
    if complex_step:
        vec.set_complex_step_mode(True)
    vec._keepalive = p
    return vec


def make_ls_solver(cls_name, u, du, has_bounds, lower, upper, method, alpha=None, **opts):
    """A real line-search solver attached to a real (tiny) model; vectors/bounds overwritten."""
    import numpy as np
    import openmdao.api as om
    n = len(u)
    p = om.Problem()
    p.model.add_subsystem('c', om.IndepVarComp('x', np.zeros(n)), promotes=['*'])
    newton = p.model.nonlinear_solver = om.NewtonSolver(solve_subsystems=False)
    p.model.linear_solver = om.DirectSolver()
    ls = getattr(om, cls_name)(bound_enforcement=method)
    for k, v in opts.items():
        ls.options[k] = v
    newton.linesearch = ls
    p.setup()
    p.final_setup()
    m = p.model
    m._outputs._data[:] = u
    m._doutputs._data[:] = du
    m._has_bounds = has_bounds
    ls._lower_bounds = None if lower is None else np.array(lower, dtype=float)
    ls._upper_bounds = None if upper is None else np.array(upper, dtype=float)
    ls._keepalive = p
    return ls


def Cpx(v):
    return complex(v)


def make_scripted_solver(kind, options, script, cs=False, linesearch=None, use_real_init=True):
    """A real NonlinearSolver / LinearSolver whose residual norms come from `script` (the norm
    history) while everything else (_solve, _iter_initialize, report_failure, Recording, options
    validation) is the real code.  Returns (solver, state) where state collects ghost facts."""
    import numpy as np
    import openmdao.api as om
    from openmdao.solvers.solver import NonlinearSolver, BlockLinearSolver
    state = {'reported': False, 'last_norm': None, 'norm0': None, 'iters': 0, 'norms': list(script),
             'single_iteration_norms': []}

    def nxt():
        if state['norms']:
            v = state['norms'].pop(0)
        else:
            v = state['last_norm'] if state['last_norm'] is not None else 1.0
        state['last_norm'] = v
        return np.float64(v)

    if kind == 'nonlinear':
        class Scripted(NonlinearSolver):
            SOLVER = 'NL: X'

            def _iter_get_norm(self):
                return nxt()

            def _run_apply(self):
                pass

            def _single_iteration(self):
                state['iters'] += 1
                state['single_iteration_norms'].append(state['last_norm'])

            def _iter_initialize(self):
                r = NonlinearSolver._iter_initialize(self)
                state['last_norm'] = r[1]
                return r

            def report_failure(self, msg):
                state['reported'] = True
                return NonlinearSolver.report_failure(self, msg)
    else:
        class Scripted(BlockLinearSolver):
            SOLVER = 'LN: X'

            def _iter_get_norm(self):
                return nxt()

            def _run_apply(self, init=False):
                pass

            def _update_rhs_vec(self):
                pass

            def _single_iteration(self):
                state['iters'] += 1
                state['single_iteration_norms'].append(state['last_norm'])

            def _iter_initialize(self):
                r = BlockLinearSolver._iter_initialize(self)
                state['last_norm'] = r[1]
                return r

            def report_failure(self, msg):
                state['reported'] = True
                return BlockLinearSolver.report_failure(self, msg)
    p = om.Problem()
    p.model.add_subsystem('c', om.IndepVarComp('x', 1.0), promotes=['*'])
    s = Scripted()
    if kind == 'nonlinear':
        p.model.nonlinear_solver = s
    else:
        p.model.linear_solver = s
    p.setup()
    p.final_setup()
    for k, v in options.items():
        if k in s.options:
            try:
                s.options[k] = v
            except Exception:
                # the declaration rejects this value (e.g. negative tolerance): bypass validation so the
                # contract's own precondition decides
                s.options._dict[k]['val'] = v
    s.options['iprint'] = -1
    p.model.under_complex_step = bool(cs)
    if kind == 'nonlinear' and linesearch is not None:
        class LS:
            pass
        ls = LS()
        ls.options = dict(linesearch)
        s._linesearch = ls
        Scripted.linesearch = property(lambda self: self._linesearch)
    s._keepalive = p
    return s, state


def light_vector(data, complex_step=False):
    """A real DefaultVector object over `data` WITHOUT a model behind it: only the flat-array methods
    (asarray, _get_data, get_slice, set_val, iadd, ...) are usable.  Cheap enough for sampling tiers."""
    import numpy as np
    from openmdao.vectors.default_vector import DefaultVector
    v = DefaultVector.__new__(DefaultVector)
    v._data = np.array(data, dtype=complex if complex_step else float)
    v._under_complex_step = complex_step
    v._alloc_complex = complex_step
    v._names = frozenset(['x'])
    return v
