"""Helpers for native builders in sidecar modules (run under /venv/bin/python)."""
from fractions import Fraction


def A(v, dtype=float):
    """decoded array record -> ndarray (None stays None)"""
    import numpy as np
    from pyvc.native import arr
    return arr(v, np, dtype)


def Fl(v):
    if isinstance(v, Fraction):
        return v.numerator / v.denominator
    return float(v)


_vec_cache = {}


def make_vector(data, kind='output', complex_step=False, complex_alloc=False):
    """A real DefaultVector (root, nonlinear) over a copy of `data`, from a minimal Problem."""
    import numpy as np
    import openmdao.api as om
    n = len(data)
    p = om.Problem()
    p.model.add_subsystem('c', om.IndepVarComp('x', np.zeros(max(n, 0))), promotes=['*'])
    p.setup(force_alloc_complex=complex_step or complex_alloc)
    p.final_setup()
    vec = p.model._vectors[kind]['nonlinear']
    vec._data[:] = data
    if complex_step:
        vec.set_complex_step_mode(True)
    vec._keepalive = p
    return vec


def make_ls_solver(cls_name, u, du, has_bounds, lower, upper, method, alpha=None, **opts):
    """A real line-search solver attached to a real (tiny) model; vectors/bounds overwritten."""
    import numpy as np
    import openmdao.api as om
    n = len(u)
    p = om.Problem()
    p.model.add_subsystem('c', om.IndepVarComp('x', np.zeros(n)), promotes=['*'])
    newton = p.model.nonlinear_solver = om.NewtonSolver(solve_subsystems=False)
    p.model.linear_solver = om.DirectSolver()
    ls = getattr(om, cls_name)(bound_enforcement=method)
    for k, v in opts.items():
        ls.options[k] = v
    newton.linesearch = ls
    p.setup()
    p.final_setup()
    m = p.model
    m._outputs._data[:] = u
    m._doutputs._data[:] = du
    m._has_bounds = has_bounds
    ls._lower_bounds = None if lower is None else np.array(lower, dtype=float)
    ls._upper_bounds = None if upper is None else np.array(upper, dtype=float)
    ls._keepalive = p
    return ls


def Cpx(v):
    return complex(v)
