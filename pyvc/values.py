"""Value domain of pyvc: symbolic scalars are plain z3 terms; everything else is a small
Python class.  Arithmetic/compare helpers implement the documented semantics (DESIGN 2.2/2.3):
A1 ints are mathematical, A2 floats are reals (or IEEE doubles when ctx.fp), A3 complex values
are pairs (re, im) with exact complex arithmetic.
"""
import math
from fractions import Fraction
import z3

RealS = z3.RealSort()
IntS = z3.IntSort()
BoolS = z3.BoolSort()
FPS = z3.Float64()
RNE = z3.RNE()


class Unsupported(Exception):
    """Construct outside the verified subset: never a verdict, function falls back."""


class PyRaise(Exception):
    """A Python exception raised by the code under symbolic execution."""

    def __init__(self, etype, inst=None):
        Exception.__init__(self, etype)
        self.etype = etype
        self.inst = inst


class Infeasible(Exception):
    """Current path condition became unsatisfiable."""


# ----------------------------------------------------------------------------------------------
# exception classes as values

_EXC_PARENTS = {
    'Exception': None, 'BaseException': None,
    'ValueError': 'Exception', 'TypeError': 'Exception', 'KeyError': 'LookupError',
    'IndexError': 'LookupError', 'LookupError': 'Exception', 'RuntimeError': 'Exception',
    'NameError': 'Exception', 'AttributeError': 'Exception', 'ZeroDivisionError': 'ArithmeticError',
    'OverflowError': 'ArithmeticError', 'ArithmeticError': 'Exception',
    'NotImplementedError': 'RuntimeError', 'AnalysisError': 'Exception',
    'OutOfBoundsError': 'Exception', 'StopIteration': 'Exception', 'AssertionError': 'Exception',
    'UnitsError': 'Exception', 'OMDeprecationWarning': 'Exception', 'BodyError': 'Exception',
}


class ExcClass:
    def __init__(self, name):
        self.name = name

    def __repr__(self):
        return 'ExcClass(%s)' % self.name

    def __eq__(self, o):
        return isinstance(o, ExcClass) and o.name == self.name

    def __hash__(self):
        return hash(self.name)


class ExcInst:
    def __init__(self, etype, args=()):
        self.etype = etype
        self.args = args


def exc_matches(etype, handler_names):
    t = etype
    while t is not None:
        if t in handler_names:
            return True
        t = _EXC_PARENTS.get(t, 'Exception' if t not in ('Exception', 'BaseException') else None)
    return False


# ----------------------------------------------------------------------------------------------
# misc value classes

class Opaque:
    """A value about which only uninterpreted predicates are known."""
    _n = 0

    def __init__(self, name):
        self.name = name

    def __repr__(self):
        return 'Opaque(%s)' % self.name


class PyType:
    """A Python type used as a value (isinstance second arg, `types is not list`)."""

    def __init__(self, name):
        self.name = name

    def __repr__(self):
        return 'PyType(%s)' % self.name

    def __eq__(self, o):
        return isinstance(o, PyType) and o.name == self.name

    def __hash__(self):
        return hash(('PyType', self.name))


class SObj:
    """Object as attribute map.  cls names the class whose methods are resolved for it."""

    def __init__(self, cls, attrs=None, bases=()):
        self.cls = cls
        self.attrs = dict(attrs or {})
        self.bases = tuple(bases)

    def __repr__(self):
        return 'SObj<%s>' % self.cls


class Cx:
    """Complex scalar re + i*im (components: python numbers or z3 reals)."""

    def __init__(self, re, im):
        self.re = re
        self.im = im

    def __repr__(self):
        return 'Cx(%s,%s)' % (self.re, self.im)


class MF:
    """Memoised element function: index-term tuple -> value."""

    def __init__(self, fn):
        self.fn = fn
        self.cache = {}

    def __call__(self, *idx):
        key = tuple(i.get_id() if isinstance(i, z3.ExprRef) else ('c', i) for i in idx)
        hit = self.cache.get(key)
        if hit is None:
            hit = (self.fn(*idx), idx)   # keep idx alive so ids stay unique
            self.cache[key] = hit
        return hit[0]


class Store:
    """Mutable backing store of an array.  Views share it."""

    def __init__(self, f, ndim=1, name='arr'):
        self.f = f if isinstance(f, MF) else MF(f)
        self.ndim = ndim
        self.name = name


class SArr:
    """n-d array view over a Store.  shape: tuple of ints / z3 Int terms.
    imap: None (whole store, identity) or function view-index-tuple -> store-index-tuple.
    inv : None or function store-index-tuple -> (in_view_condition, view-index-tuple).
    part: None | 're' | 'im' (view of the real/imaginary part of a complex store)."""

    def __init__(self, store, shape, dtype='real', imap=None, inv=None, part=None):
        self.store = store
        self.shape = tuple(shape)
        self.dtype = dtype
        self.imap = imap
        self.inv = inv
        self.part = part

    @property
    def ndim(self):
        return len(self.shape)

    @property
    def n(self):
        return self.shape[0]

    def sidx(self, idx):
        return tuple(idx) if self.imap is None else tuple(self.imap(*idx))

    def get(self, *idx):
        if len(idx) != len(self.shape):
            raise Unsupported('array rank mismatch in element read')
        v = self.store.f(*self.sidx(idx))
        if self.part == 're':
            return v.re if isinstance(v, Cx) else v
        if self.part == 'im':
            return v.im if isinstance(v, Cx) else 0
        return v

    def view(self, shape, imap, inv, dtype=None, part=None):
        """Compose a further view on top of this one."""
        if self.imap is None:
            nimap, ninv = imap, inv
        else:
            m0, i0 = self.imap, self.inv

            def nimap(*ix):
                return m0(*imap(*ix))

            def ninv(*sx):
                c0, v0 = i0(*sx)
                c1, v1 = inv(*v0)
                return zand(c0, c1), v1
        return SArr(self.store, shape, dtype or self.dtype, nimap, ninv,
                    part if part is not None else self.part)

    def __repr__(self):
        return 'SArr<%s %s %s>' % (self.store.name, self.shape, self.dtype)


def fz(arr):
    """Getter frozen at the array's *current* contents (new arrays are copies: later in-place
    updates of an operand must not show through)."""
    f = arr.store.f
    part = arr.part
    sidx = arr.sidx

    def get(*ix):
        v = f(*sidx(ix))
        if part == 're':
            return v.re if isinstance(v, Cx) else v
        if part == 'im':
            return v.im if isinstance(v, Cx) else 0
        return v
    return get


class SCompact:
    """a[mask]: boolean-mask compaction that is never materialised (DESIGN 2.3).
    mask: SArr(bool) identity object, val: callable base-index -> value."""

    def __init__(self, mask, val, dtype='real', mget=None):
        self.mask = mask
        self.mget = mget or fz(mask)
        self.val = val if isinstance(val, MF) else MF(val)
        self.dtype = dtype


class FPInt:
    """int(v) of an IEEE double v (finite): kept symbolic so that `int(v) == v` becomes the exact
    integrality test instead of a real/float round trip."""

    def __init__(self, src, term):
        self.src = src
        self.term = term


class SWhere:
    """np.where(mask)[0]: the ascending index set of a 1-d boolean array (never materialised)."""

    def __init__(self, mask):
        self.mask = mask


class SPairs:
    """zip(np.where(mask)[0], values-over-the-same-index-set) (also after list()): the ascending sequence of pairs
    (i, second(i)) for the indices i selected by mask; never materialised."""

    def __init__(self, mask, second):
        self.mask = mask
        self.second = second


class SSeq:
    """Sequence of symbolic length with element function (python-level iteration source)."""

    def __init__(self, n, elem, name='seq'):
        self.n = n
        self.elem = elem
        self.name = name


class NpInf:
    """np.inf in real mode: a positive real constant 'oo' with no other axioms."""


class Module:
    def __init__(self, name):
        self.name = name

    def __repr__(self):
        return 'Module(%s)' % self.name


class BoundMethod:
    def __init__(self, obj, name):
        self.obj = obj
        self.name = name


class SCallable:
    """Callable attribute that returns a fixed object (weakref-style `self._system()`)."""

    def __init__(self, ret):
        self.ret = ret


class Closure:
    """Python-level callable supplied by a contract or created by the interpreter."""

    def __init__(self, fn, name='closure'):
        self.fn = fn
        self.name = name


# ----------------------------------------------------------------------------------------------
# numeric helpers

def is_z3(x):
    return isinstance(x, z3.ExprRef)


def is_pynum(x):
    return isinstance(x, (int, float, Fraction)) and not isinstance(x, bool)


def is_concrete(x):
    return not is_z3(x) and not isinstance(x, (SArr, SCompact, Cx, Opaque, SObj, SSeq))


def pyfloat_to_fraction(x):
    if isinstance(x, float):
        if math.isinf(x) or math.isnan(x):
            raise Unsupported('inf/nan literal in real mode')
        return Fraction(repr(x))
    return x


def is_bool_term(x):
    return is_z3(x) and z3.is_bool(x)


def is_int_term(x):
    return is_z3(x) and z3.is_int(x)


def is_real_term(x):
    return is_z3(x) and z3.is_real(x)


def is_fp_term(x):
    return is_z3(x) and z3.is_fp(x)


def b2z(x):
    """python bool / z3 Bool -> z3 Bool"""
    if isinstance(x, bool):
        return z3.BoolVal(x)
    if is_bool_term(x):
        return x
    raise Unsupported('expected a boolean, got %r' % (x,))


def zand(*xs):
    xs = [x for x in xs if not (isinstance(x, bool) and x)]
    if any(isinstance(x, bool) and not x for x in xs):
        return False
    if not xs:
        return True
    if len(xs) == 1:
        return xs[0]
    return z3.And(*[b2z(x) for x in xs])


def zor(*xs):
    xs = [x for x in xs if not (isinstance(x, bool) and not x)]
    if any(isinstance(x, bool) and x for x in xs):
        return True
    if not xs:
        return False
    if len(xs) == 1:
        return xs[0]
    return z3.Or(*[b2z(x) for x in xs])


def znot(x):
    if isinstance(x, bool):
        return not x
    return z3.Not(b2z(x))


def zimplies(a, b):
    return zor(znot(a), b)


def zite(c, a, b, fp=False):
    if isinstance(c, bool):
        return a if c else b
    if isinstance(a, Cx) or isinstance(b, Cx):
        a, b = to_cx(a), to_cx(b)
        return Cx(zite(c, a.re, b.re, fp), zite(c, a.im, b.im, fp))
    if isinstance(a, bool) or isinstance(b, bool) or is_bool_term(a) or is_bool_term(b):
        if (isinstance(a, bool) or is_bool_term(a)) and (isinstance(b, bool) or is_bool_term(b)):
            return z3.If(c, b2z(a), b2z(b))
    a, b = unify(a, b, fp)
    if not is_z3(a) and not is_z3(b) and a == b:
        return a
    return z3.If(c, tz(a, fp), tz(b, fp))


def to_cx(x):
    return x if isinstance(x, Cx) else Cx(x, 0)


def tz(x, fp=False):
    """python number / z3 term -> z3 term"""
    if is_z3(x):
        return x
    if isinstance(x, bool):
        return z3.BoolVal(x)
    if isinstance(x, int):
        return z3.IntVal(x)
    if isinstance(x, float):
        if fp:
            return z3.FPVal(x, FPS)
        f = pyfloat_to_fraction(x)
        return z3.RealVal(f)
    if isinstance(x, Fraction):
        if fp:
            return z3.FPVal(float(x), FPS)
        return z3.RealVal(x)
    if isinstance(x, NpInf):
        raise Unsupported('np.inf must be resolved by ctx')
    raise Unsupported('cannot convert %r to a solver term' % (x,))


def bool_as_num(x):
    if isinstance(x, bool):
        return int(x)
    if is_bool_term(x):
        return z3.If(x, z3.IntVal(1), z3.IntVal(0))
    return x


def unify(a, b, fp=False):
    """Bring two scalar operands to a common numeric representation."""
    a = bool_as_num(a)
    b = bool_as_num(b)
    if not is_z3(a) and not is_z3(b):
        if fp:
            return a, b
        return pyfloat_to_fraction(a), pyfloat_to_fraction(b)
    if fp and (is_fp_term(a) or is_fp_term(b) or isinstance(a, float) or isinstance(b, float)):
        return to_fp(a), to_fp(b)
    za, zb = tz(a, fp), tz(b, fp)
    if z3.is_int(za) and z3.is_real(zb):
        za = z3.ToReal(za)
    elif z3.is_real(za) and z3.is_int(zb):
        zb = z3.ToReal(zb)
    elif is_fp_term(za) or is_fp_term(zb):
        za, zb = to_fp(za), to_fp(zb)
    return za, zb


def to_fp(x):
    if is_fp_term(x):
        return x
    if isinstance(x, bool):
        x = int(x)
    if isinstance(x, (int, float, Fraction)):
        return z3.FPVal(float(x), FPS)
    if is_int_term(x):
        return z3.fpToFP(RNE, z3.ToReal(x), FPS)
    if is_real_term(x):
        return z3.fpToFP(RNE, x, FPS)
    raise Unsupported('cannot convert %r to FP' % (x,))


def to_real(x):
    if is_int_term(x):
        return z3.ToReal(x)
    if isinstance(x, int) and not isinstance(x, bool):
        return Fraction(x)
    return x


def scalar_arith(op, a, b, fp=False):
    """op in + - * / // % ** on scalars (python numbers, z3 terms, Cx)."""
    if isinstance(a, Cx) or isinstance(b, Cx):
        return cx_arith(op, to_cx(a), to_cx(b), fp)
    if isinstance(a, (Opaque, SObj)) or isinstance(b, (Opaque, SObj)) or a is None or b is None:
        raise Unsupported('arithmetic on opaque/None operand')
    if op == '**' and isinstance(b, int) and not isinstance(b, bool) and is_z3(a) and not is_fp_term(a):
        k = b
        a = bool_as_num(a)
        if k >= 0:
            r = z3.RealVal(1) if z3.is_real(a) else z3.IntVal(1)
            for _ in range(k):
                r = r * a
            return r
        r = z3.RealVal(1)
        a = z3.ToReal(a) if z3.is_int(a) else a
        for _ in range(-k):
            r = r / a
        return r
    a, b = unify(a, b, fp)
    if not is_z3(a) and not is_z3(b):
        try:
            if op == '+':
                return a + b
            if op == '-':
                return a - b
            if op == '*':
                return a * b
            if op == '/':
                if b == 0:
                    raise PyRaise('ZeroDivisionError')
                if fp:
                    return a / b
                return Fraction(a) / Fraction(b)
            if op == '//':
                if b == 0:
                    raise PyRaise('ZeroDivisionError')
                return a // b
            if op == '%':
                if b == 0:
                    raise PyRaise('ZeroDivisionError')
                return a % b
            if op == '**':
                if isinstance(b, Fraction) and b.denominator == 1:
                    b = int(b)
                if isinstance(b, int):
                    if b < 0 and a == 0:
                        raise PyRaise('ZeroDivisionError')
                    return Fraction(a) ** b if not fp else a ** b
                if fp:
                    return a ** b
                raise Unsupported('non-integer concrete power')
        except (OverflowError,) as e:
            raise Unsupported(str(e))
    if is_fp_term(a) or is_fp_term(b):
        if op == '+':
            return z3.fpAdd(RNE, a, b)
        if op == '-':
            return z3.fpSub(RNE, a, b)
        if op == '*':
            return z3.fpMul(RNE, a, b)
        if op == '/':
            return z3.fpDiv(RNE, a, b)
        raise Unsupported('FP op ' + op)
    if op == '+':
        return a + b
    if op == '-':
        return a - b
    if op == '*':
        return a * b
    if op == '/':
        if z3.is_int(a):
            a = z3.ToReal(a)
        if z3.is_int(b):
            b = z3.ToReal(b)
        return a / b
    if op == '//':
        if z3.is_int(a) and z3.is_int(b):
            return _floordiv(a, b)
        raise Unsupported('floor division on reals')
    if op == '%':
        if z3.is_int(a) and z3.is_int(b):
            return a - b * _floordiv(a, b)
        raise Unsupported('modulo on reals')
    if op == '**':
        if isinstance(b, z3.ExprRef) and z3.is_int_value(b):
            k = b.as_long()
        elif isinstance(b, z3.ExprRef) and z3.is_rational_value(b) and b.denominator_as_long() == 1:
            k = b.numerator_as_long()
        else:
            raise Unsupported('symbolic exponent')
        if k >= 0:
            r = z3.RealVal(1) if z3.is_real(a) else z3.IntVal(1)
            for _ in range(k):
                r = r * a
            return r
        r = z3.RealVal(1)
        a = z3.ToReal(a) if z3.is_int(a) else a
        for _ in range(-k):
            r = r / a
        return r
    raise Unsupported('operator ' + op)


def _floordiv(a, b):
    # SMT-LIB `div` is euclidean: a = b*q + r, 0 <= r < |b|.  Python floors.
    q = a / b
    r = a % b
    return z3.If(z3.And(b < 0, r != 0), q - 1, q)


DUAL = [False]     # A3: complex values are dual numbers a + eps*b with eps**2 = 0 (set per contract)


def cx_arith(op, a, b, fp=False):
    if DUAL[0] and op == '*':
        return Cx(scalar_arith('*', a.re, b.re, fp),
                  scalar_arith('+', scalar_arith('*', a.re, b.im, fp), scalar_arith('*', a.im, b.re, fp), fp))
    if DUAL[0] and op == '/':
        den = scalar_arith('*', b.re, b.re, fp)
        im = scalar_arith('-', scalar_arith('*', a.im, b.re, fp), scalar_arith('*', a.re, b.im, fp), fp)
        return Cx(scalar_arith('/', a.re, b.re, fp), scalar_arith('/', im, den, fp))
    if op == '+':
        return Cx(scalar_arith('+', a.re, b.re, fp), scalar_arith('+', a.im, b.im, fp))
    if op == '-':
        return Cx(scalar_arith('-', a.re, b.re, fp), scalar_arith('-', a.im, b.im, fp))
    if op == '*':
        re = scalar_arith('-', scalar_arith('*', a.re, b.re, fp), scalar_arith('*', a.im, b.im, fp), fp)
        im = scalar_arith('+', scalar_arith('*', a.re, b.im, fp), scalar_arith('*', a.im, b.re, fp), fp)
        return Cx(re, im)
    if op == '/':
        den = scalar_arith('+', scalar_arith('*', b.re, b.re, fp), scalar_arith('*', b.im, b.im, fp), fp)
        re = scalar_arith('+', scalar_arith('*', a.re, b.re, fp), scalar_arith('*', a.im, b.im, fp), fp)
        im = scalar_arith('-', scalar_arith('*', a.im, b.re, fp), scalar_arith('*', a.re, b.im, fp), fp)
        return Cx(scalar_arith('/', re, den, fp), scalar_arith('/', im, den, fp))
    if op == '**':
        if isinstance(b.im, (int, Fraction)) and b.im == 0 and isinstance(b.re, (int, Fraction)) \
                and Fraction(b.re).denominator == 1 and int(b.re) >= 0:
            r = Cx(1, 0)
            for _ in range(int(b.re)):
                r = cx_arith('*', r, a, fp)
            return r
    raise Unsupported('complex op ' + op)


def scalar_cmp(op, a, b, fp=False):
    """op in < <= > >= == != ; returns python bool or z3 Bool"""
    if isinstance(a, Cx) or isinstance(b, Cx):
        a, b = to_cx(a), to_cx(b)
        if op == '==':
            return zand(scalar_cmp('==', a.re, b.re, fp), scalar_cmp('==', a.im, b.im, fp))
        if op == '!=':
            return zor(scalar_cmp('!=', a.re, b.re, fp), scalar_cmp('!=', a.im, b.im, fp))
        # NumPy orders complex array elements lexicographically (real part, then imaginary part); for dual numbers
        # the eps-part has the sign of the (positive) step times the direction, so the tie rule carries over
        strict = {'<': '<', '<=': '<', '>': '>', '>=': '>'}[op]
        return zor(scalar_cmp(strict, a.re, b.re, fp),
                   zand(scalar_cmp('==', a.re, b.re, fp), scalar_cmp(op, a.im, b.im, fp)))
    if isinstance(a, str) or isinstance(b, str):
        if isinstance(a, str) and isinstance(b, str):
            return {'==': a == b, '!=': a != b, '<': a < b, '<=': a <= b, '>': a > b, '>=': a >= b}[op]
        if op == '==':
            if is_z3(a) or is_z3(b):
                return False
            return a == b
        if op == '!=':
            if is_z3(a) or is_z3(b):
                return True
            return a != b
        raise Unsupported('ordering str with non-str')
    if a is None or b is None:
        if op == '==':
            return a is None and b is None
        if op == '!=':
            return not (a is None and b is None)
        raise PyRaise('TypeError')
    if (isinstance(a, bool) or is_bool_term(a)) and (isinstance(b, bool) or is_bool_term(b)) \
            and op in ('==', '!='):
        if isinstance(a, bool) and isinstance(b, bool):
            return (a == b) if op == '==' else (a != b)
        e = b2z(a) == b2z(b)
        return e if op == '==' else z3.Not(e)
    if isinstance(a, (tuple, list)) or isinstance(b, (tuple, list)):
        if op in ('==', '!='):
            if type(a) is not type(b) or len(a) != len(b):
                r = False
            else:
                r = zand(*[scalar_cmp('==', x, y, fp) for x, y in zip(a, b)])
            return r if op == '==' else znot(r)
        raise Unsupported('ordering of sequences')
    a, b = unify(a, b, fp)
    if not is_z3(a) and not is_z3(b):
        return {'==': a == b, '!=': a != b, '<': a < b, '<=': a <= b, '>': a > b, '>=': a >= b}[op]
    if is_fp_term(a) or is_fp_term(b):
        return {'==': z3.fpEQ, '!=': z3.fpNEQ, '<': z3.fpLT, '<=': z3.fpLEQ,
                '>': z3.fpGT, '>=': z3.fpGEQ}[op](a, b)
    if op == '==':
        return a == b
    if op == '!=':
        return a != b
    if op == '<':
        return a < b
    if op == '<=':
        return a <= b
    if op == '>':
        return a > b
    if op == '>=':
        return a >= b
    raise Unsupported('compare ' + op)


def zabs(x, fp=False):
    if isinstance(x, Cx):
        raise Unsupported('abs of complex (needs sqrt)')
    if not is_z3(x):
        return abs(pyfloat_to_fraction(x)) if not fp else abs(x)
    if is_fp_term(x):
        return z3.fpAbs(x)
    return z3.If(x >= 0, x, -x)


def zneg(x, fp=False):
    if isinstance(x, Cx):
        return Cx(zneg(x.re, fp), zneg(x.im, fp))
    if not is_z3(x):
        x = bool_as_num(x)
        return -x
    if is_fp_term(x):
        return z3.fpNeg(x)
    if is_bool_term(x):
        return -bool_as_num(x)
    return -x


def zmax(a, b, fp=False):
    a, b = unify(a, b, fp)
    if not is_z3(a) and not is_z3(b):
        return max(a, b)
    if is_fp_term(a):
        raise Unsupported('fp max')
    return z3.If(a >= b, a, b)


def zmin(a, b, fp=False):
    a, b = unify(a, b, fp)
    if not is_z3(a) and not is_z3(b):
        return min(a, b)
    if is_fp_term(a):
        raise Unsupported('fp min')
    return z3.If(a <= b, a, b)
