"""Extraction of the real function source from /repo's working tree (re-read on every run)."""
import ast
import hashlib
import os

REPO = os.environ.get('PYVC_REPO', '/repo')

VERIF = os.path.dirname(os.path.dirname(os.path.abspath(__file__)))
_cache = {}


def resolve_path(relpath):
    """'verif:contracts/x.py' names a harness file under /verif (lemma drivers, never repo code)."""
    if relpath.startswith('verif:'):
        return os.path.join(VERIF, relpath[6:])
    return os.path.join(REPO, relpath)


class ModuleSrc:
    def __init__(self, relpath):
        self.relpath = relpath
        self.path = resolve_path(relpath)
        with open(self.path) as f:
            self.text = f.read()
        self.tree = ast.parse(self.text)
        self.funcs = {}
        self.classes = {}
        self.assigns = {}
        self.imports = {}     # local name -> (module dotted, original name or None)
        for node in self.tree.body:
            self._index(node)

    def _index(self, node):
        if isinstance(node, (ast.FunctionDef,)):
            self.funcs[node.name] = node
        elif isinstance(node, ast.ClassDef):
            self.classes[node.name] = node
        elif isinstance(node, ast.Assign):
            for t in node.targets:
                if isinstance(t, ast.Name):
                    self.assigns[t.id] = node.value
        elif isinstance(node, ast.ImportFrom):
            for a in node.names:
                self.imports[a.asname or a.name] = (node.module, a.name)
        elif isinstance(node, ast.Import):
            for a in node.names:
                self.imports[a.asname or a.name.split('.')[0]] = (a.name, None)
        elif isinstance(node, (ast.Try, ast.If)):
            for sub in node.body:
                self._index(sub)

    def class_methods(self, cname):
        c = self.classes[cname]
        out = {}
        for n in c.body:
            if isinstance(n, ast.FunctionDef):
                if any(isinstance(d, ast.Attribute) and d.attr in ('setter', 'deleter')
                       for d in n.decorator_list):
                    out.setdefault('__set__' + n.name, n)
                    continue
                out[n.name] = n
        return out

    def class_bases(self, cname):
        c = self.classes[cname]
        out = []
        for b in c.bases:
            if isinstance(b, ast.Name):
                out.append(b.id)
            elif isinstance(b, ast.Attribute):
                out.append(b.attr)
        return out

    def class_attr_assigns(self, cname):
        c = self.classes[cname]
        out = {}
        for n in c.body:
            if isinstance(n, ast.Assign):
                for t in n.targets:
                    if isinstance(t, ast.Name):
                        out[t.id] = n.value
        return out

    def segment(self, node):
        return ast.get_source_segment(self.text, node)


def load(relpath, text_override=None):
    if text_override is not None:
        m = ModuleSrc.__new__(ModuleSrc)
        m.relpath = relpath
        m.path = os.path.join(REPO, relpath)
        m.text = text_override
        m.tree = ast.parse(text_override)
        m.funcs, m.classes, m.assigns, m.imports = {}, {}, {}, {}
        for node in m.tree.body:
            m._index(node)
        return m
    key = (REPO, relpath)
    if key not in _cache:
        _cache[key] = ModuleSrc(relpath)
    return _cache[key]


def clear_cache():
    _cache.clear()


def module_relpath(dotted):
    p = dotted.replace('.', '/')
    for cand in (p + '.py', p + '/__init__.py'):
        if os.path.exists(os.path.join(REPO, cand)):
            return cand
    return None


def find_function(target, overrides=None):
    """target = 'rel/path.py::Class.method' or 'rel/path.py::func'.
    Returns (ModuleSrc, FunctionDef, class name or None)."""
    relpath, qual = target.split('::')
    mod = load(relpath, (overrides or {}).get(relpath))
    if '.' in qual:
        cname, fname = qual.split('.')
        meths = mod.class_methods(cname)
        if fname not in meths:
            raise KeyError('%s: no method %s' % (target, fname))
        return mod, meths[fname], cname
    if qual not in mod.funcs:
        raise KeyError('%s: no function %s' % (target, qual))
    return mod, mod.funcs[qual], None


def resolve_method(mod, cname, mname, overrides=None, _depth=0):
    """Follow the class hierarchy (through `from x import Y`) to the class defining mname.
    Returns (ModuleSrc, FunctionDef, defining class name) or None."""
    if _depth > 8:
        return None
    if cname in mod.classes:
        meths = mod.class_methods(cname)
        if mname in meths:
            return mod, meths[mname], cname
        for b in mod.class_bases(cname):
            r = resolve_method(mod, b, mname, overrides, _depth + 1)
            if r:
                return r
        return None
    if cname in mod.imports:
        dotted, orig = mod.imports[cname]
        rel = module_relpath(dotted) if dotted else None
        if rel:
            m2 = load(rel, (overrides or {}).get(rel))
            return resolve_method(m2, orig or cname, mname, overrides, _depth + 1)
    return None


def source_hash(mod, node):
    seg = mod.segment(node) or ''
    return hashlib.sha256(seg.encode()).hexdigest()
