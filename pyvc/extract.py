"""Extraction of the real function source from /repo's working tree (re-read on every run)."""
import ast
import hashlib
import os

REPO = os.environ.get('PYVC_REPO', '/repo')

VERIF = os.path.dirname(os.path.dirname(os.path.abspath(__file__)))
_cache = {}


def resolve_path(relpath):
    """'verif:contracts/x.py' names a harness file under /verif (lemma drivers, never repo code)."""
    if relpath.startswith('verif:'):
        return os.path.join(VERIF, relpath[6:])
    return os.path.join(REPO, relpath)


class ModuleSrc:
    def __init__(self, relpath):
        self.relpath = relpath
        self.path = resolve_path(relpath)
        with open(self.path) as f:
            self.text = f.read()
        self.tree = ast.parse(self.text)
        self.funcs = {}
        self.classes = {}
        self.assigns = {}
        self.imports = {}     # local name -> (module dotted, original name or None)
        for node in self.tree.body:
            self._index(node)

    def _index(self, node):
        if isinstance(node, (ast.FunctionDef,)):
            self.funcs[node.name] = node
        elif isinstance(node, ast.ClassDef):
            self.classes[node.name] = node
        elif isinstance(node, ast.Assign):
            for t in node.targets:
                if isinstance(t, ast.Name):
                    self.assigns[t.id] = node.value
        elif isinstance(node, ast.ImportFrom):
            for a in node.names:
                self.imports[a.asname or a.name] = (node.module, a.name)
        elif isinstance(node, ast.Import):
            for a in node.names:
                self.imports[a.asname or a.name.split('.')[0]] = (a.name, None)
        elif isinstance(node, (ast.Try, ast.If)):
            for sub in node.body:
                self._index(sub)

    def class_methods(self, cname):
        c = self.classes[cname]
        out = {}
        for n in c.body:
            if isinstance(n, ast.FunctionDef):
                if any(isinstance(d, ast.Attribute) and d.attr in ('setter', 'deleter')
                       for d in n.decorator_list):
                    out.setdefault('__set__' + n.name, n)
                    continue
                out[n.name] = n
        return out

    def class_bases(self, cname):
        c = self.classes[cname]
        out = []
        for b in c.bases:
            if isinstance(b, ast.Name):
                out.append(b.id)
            elif isinstance(b, ast.Attribute):
                out.append(b.attr)
        return out

    def class_attr_assigns(self, cname):
        c = self.classes[cname]
        out = {}
        for n in c.body:
            if isinstance(n, ast.Assign):
                for t in n.targets:
                    if isinstance(t, ast.Name):
                        out[t.id] = n.value
        return out

    def segment(self, node):
        return ast.get_source_segment(self.text, node)


def load(relpath, text_override=None):
    if text_override is not None:
        m = ModuleSrc.__new__(ModuleSrc)
        m.relpath = relpath
        m.path = os.path.join(REPO, relpath)
        m.text = text_override
        m.tree = ast.parse(text_override)
        m.funcs, m.classes, m.assigns, m.imports = {}, {}, {}, {}
        for node in m.tree.body:
            m._index(node)
        return m
    key = (REPO, relpath)
    if key not in _cache:
        _cache[key] = ModuleSrc(relpath)
    return _cache[key]


def clear_cache():
    _cache.clear()


def module_relpath(dotted):
    p = dotted.replace('.', '/')
    for cand in (p + '.py', p + '/__init__.py'):
        if os.path.exists(os.path.join(REPO, cand)):
            return cand
    return None


def find_function(target, overrides=None):
    """target = 'rel/path.py::Class.method' or 'rel/path.py::func', optionally followed by
    '@loopbody(name)' (a mechanically extracted fragment, see make_fragment).
    Returns (ModuleSrc, FunctionDef, class name or None)."""
    relpath, qual = target.split('::')
    frag = None
    if '@' in qual:
        qual, frag = qual.split('@', 1)
    mod = load(relpath, (overrides or {}).get(relpath))
    if '.' in qual:
        cname, fname = qual.split('.')
        meths = mod.class_methods(cname)
        if fname not in meths:
            raise KeyError('%s: no method %s' % (target, fname))
        fn = meths[fname]
    else:
        cname = None
        if qual not in mod.funcs:
            raise KeyError('%s: no function %s' % (target, qual))
        fn = mod.funcs[qual]
    if frag:
        fn = make_fragment(mod, fn, frag)
    return mod, fn, cname


import builtins as _builtins


def make_fragment(mod, fn, frag):
    """Mechanical extraction of a loop body out of a long method, done on every run from the current source.

    '@loopbody(v)' selects the unique `for` statement inside `fn` whose direct body assigns the plain name `v`
    (or imports it); '@ifbody(v)' the unique `if` statement with that property (its true branch).  The body is
    wrapped, unchanged, as

        def <fn>__loopbody_v(<every name the body reads that is neither a builtin nor a module-level name>):
            <the body statements, verbatim>
            return locals()

    What the extraction drops: everything of `fn` outside that loop body (so the contract's preconditions
    stand for the state the enclosing code establishes) and the iteration itself (one arbitrary iteration is
    verified; loop-carried names are visible through the returned locals())."""
    kind, _, arg = frag.partition('(')
    arg = arg.rstrip(')')
    if kind not in ('loopbody', 'ifbody'):
        raise KeyError('unknown fragment selector %s' % frag)
    hits = []
    for node in ast.walk(fn):
        if isinstance(node, ast.For if kind == 'loopbody' else ast.If):
            for st in node.body:
                if isinstance(st, ast.Assign) and any(isinstance(t, ast.Name) and t.id == arg for t in st.targets):
                    hits.append(node)
                    break
                if isinstance(st, (ast.ImportFrom, ast.Import)) and any((a.asname or a.name) == arg for a in st.names):
                    hits.append(node)
                    break
    if len(hits) != 1:
        raise KeyError('fragment %s: %d matching statements in %s' % (frag, len(hits), fn.name))
    loop = hits[0]
    loaded = []

    def loads(node, defined):
        for n in ast.walk(node):
            if isinstance(n, ast.Name) and isinstance(n.ctx, ast.Load) and n.id not in defined and n.id not in loaded:
                loaded.append(n.id)

    def scan(stmts, defined):
        # names bound earlier in the same block (plain assignment, import, for target, or in BOTH branches of
        # an if) are locals of the fragment, not inputs
        for st in stmts:
            if isinstance(st, ast.If):
                loads(st.test, defined)
                d1, d2 = set(defined), set(defined)
                scan(st.body, d1)
                scan(st.orelse, d2)
                defined |= (d1 & d2)
            elif isinstance(st, ast.For):
                loads(st.iter, defined)
                d1 = set(defined)
                for n in ast.walk(st.target):
                    if isinstance(n, ast.Name):
                        d1.add(n.id)
                scan(st.body, d1)          # the body may not run: nothing is defined afterwards
                scan(st.orelse, set(defined))
            elif isinstance(st, (ast.Import, ast.ImportFrom)):
                for a in st.names:
                    defined.add(a.asname or a.name.split('.')[0])
            elif isinstance(st, ast.Assign):
                loads(st.value, defined)
                for t in st.targets:
                    if isinstance(t, ast.Name):
                        defined.add(t.id)
                    else:
                        loads(t, defined)
            else:
                loads(st, defined)
    scan(loop.body, set())
    if kind == 'loopbody' and isinstance(loop.target, ast.Name) and loop.target.id not in loaded:
        loaded.append(loop.target.id)
    modnames = set(mod.funcs) | set(mod.classes) | set(mod.assigns) | set(mod.imports)
    params = [n for n in loaded if not hasattr(_builtins, n) and n not in modnames]
    ret = ast.Return(value=ast.Call(func=ast.Name(id='locals', ctx=ast.Load()), args=[], keywords=[]))
    body_stmts = list(loop.body)
    if kind == 'loopbody':
        # `continue` at the level of this loop ends the iteration: in the wrapper that is `return locals()`
        import copy

        class _C(ast.NodeTransformer):
            def visit_For(self, node):
                return node          # a continue inside an inner loop belongs to that loop

            def visit_While(self, node):
                return node

            def visit_FunctionDef(self, node):
                return node

            def visit_Continue(self, node):
                return ast.copy_location(copy.deepcopy(ret), node)
        body_stmts = [_C().visit(copy.deepcopy(st)) for st in body_stmts]
    wrapper = ast.FunctionDef(name='%s__%s_%s' % (fn.name, kind, arg),
                              args=ast.arguments(posonlyargs=[], args=[ast.arg(arg=p) for p in params], kwonlyargs=[],
                                                 kw_defaults=[], defaults=[]),
                              body=body_stmts + [ret], decorator_list=[])
    ast.fix_missing_locations(wrapper)
    wrapper._frag_src = '\n'.join(mod.segment(st) or '' for st in loop.body)
    wrapper._frag_params = params
    return wrapper


def fragment_source(target, overrides=None):
    """Source text of the synthesized wrapper (for native replay: exec'd in the real module's namespace)."""
    mod, fn, cname = find_function(target, overrides)
    import textwrap
    body = '\n'.join(textwrap.dedent(mod.segment(st)) if False else ast.unparse(st) for st in fn.body)
    return 'def %s(%s):\n%s\n' % (fn.name, ', '.join(fn._frag_params), textwrap.indent(body, '    ')), fn.name


def resolve_method(mod, cname, mname, overrides=None, _depth=0):
    """Follow the class hierarchy (through `from x import Y`) to the class defining mname.
    Returns (ModuleSrc, FunctionDef, defining class name) or None."""
    if _depth > 8:
        return None
    if cname in mod.classes:
        meths = mod.class_methods(cname)
        if mname in meths:
            return mod, meths[mname], cname
        for b in mod.class_bases(cname):
            r = resolve_method(mod, b, mname, overrides, _depth + 1)
            if r:
                return r
        return None
    if cname in mod.imports:
        dotted, orig = mod.imports[cname]
        rel = module_relpath(dotted) if dotted else None
        if rel:
            m2 = load(rel, (overrides or {}).get(rel))
            return resolve_method(m2, orig or cname, mname, overrides, _depth + 1)
    return None


def source_hash(mod, node):
    seg = getattr(node, '_frag_src', None) or mod.segment(node) or ''
    return hashlib.sha256(seg.encode()).hexdigest()
