"""Symbolic interpreter over the Python AST of the real source (DESIGN 2.2)."""
import ast
import copy
from fractions import Fraction
import z3

from .values import *          # noqa
from .values import _EXC_PARENTS
from . import npmodel as npm
from .npmodel import is_arr
from . import extract
from .spec import Assumed


class _Return(Exception):
    def __init__(self, value):
        self.value = value


class _Break(Exception):
    pass


class _Continue(Exception):
    pass


class PathEnd(Exception):
    """Path ends here (after an arbitrary loop iteration has re-established the invariant)."""


BINOPS = {ast.Add: '+', ast.Sub: '-', ast.Mult: '*', ast.Div: '/', ast.FloorDiv: '//',
          ast.Mod: '%', ast.Pow: '**'}
CMPOPS = {ast.Lt: '<', ast.LtE: '<=', ast.Gt: '>', ast.GtE: '>=', ast.Eq: '==', ast.NotEq: '!='}

NOOP_CALLS = {'print', 'issue_warning', 'warn_deprecation', 'simple_warning', 'reset_warning_registry'}
EXC_NAMES = set(_EXC_PARENTS)
PYTYPES = {'list', 'tuple', 'dict', 'set', 'str', 'int', 'float', 'bool', 'complex', 'object',
           'Number', 'ndarray', 'Vector', 'Iterable', 'frozenset', 'range', 'slice', 'type',
           'Integral', 'Real'}
TRANSPARENT_CM = {'Recording'}


def snapshot(v, memo):
    """Structure preserving deep copy (aliasing kept) of a value graph: the pre-state."""
    i = id(v)
    if i in memo:
        return memo[i][0]
    if isinstance(v, Store):
        r = Store(v.f, v.ndim, v.name)
    elif isinstance(v, SArr):
        r = SArr(snapshot(v.store, memo), v.shape, v.dtype, v.imap, v.inv, v.part)
    elif isinstance(v, SObj):
        r = SObj(v.cls, {}, v.bases)
        memo[i] = (r, v)
        for k, x in v.attrs.items():
            r.attrs[k] = snapshot(x, memo)
        return r
    elif isinstance(v, dict):
        r = {}
        memo[i] = (r, v)
        for k, x in v.items():
            r[k] = snapshot(x, memo)
        return r
    elif isinstance(v, list):
        r = []
        memo[i] = (r, v)
        r.extend(snapshot(x, memo) for x in v)
        return r
    elif isinstance(v, tuple):
        r = tuple(snapshot(x, memo) for x in v)
    elif isinstance(v, BoundMethod):
        r = BoundMethod(None, v.name)
        memo[i] = (r, v)
        r.obj = snapshot(v.obj, memo)
        return r
    elif isinstance(v, SCallable):
        r = SCallable(None)
        memo[i] = (r, v)
        r.ret = snapshot(v.ret, memo)
        return r
    else:
        r = v
    memo[i] = (r, v)
    return r


def assigned_targets(stmts):
    """Syntactic scan: names and attribute/subscript target expressions assigned in stmts."""
    names, exprs = set(), []

    def tgt(t):
        if isinstance(t, ast.Name):
            names.add(t.id)
        elif isinstance(t, (ast.Tuple, ast.List)):
            for e in t.elts:
                tgt(e)
        elif isinstance(t, ast.Starred):
            tgt(t.value)
        elif isinstance(t, (ast.Attribute, ast.Subscript)):
            exprs.append(t)
    for s in stmts:
        for node in ast.walk(s):
            if isinstance(node, ast.Assign):
                for t in node.targets:
                    tgt(t)
            elif isinstance(node, (ast.AugAssign, ast.AnnAssign)):
                tgt(node.target)
            elif isinstance(node, (ast.For, ast.comprehension)):
                tgt(node.target)
            elif isinstance(node, ast.With):
                for it in node.items:
                    if it.optional_vars is not None:
                        tgt(it.optional_vars)
            elif isinstance(node, ast.ExceptHandler) and node.name:
                names.add(node.name)
            elif isinstance(node, ast.NamedExpr):
                tgt(node.target)
    return names, exprs


class Frame:
    collect = None

    def __init__(self, mod, cls, fn, env):
        self.mod = mod
        self.cls = cls
        self.fn = fn
        self.env = env
        self.loop_no = 0


class Interp:
    def __init__(self, ctx, contract, registry=None, overrides=None):
        self.ctx = ctx
        self.contract = contract
        self.registry = registry or {}
        self.overrides = overrides or {}
        self.frames = []
        self.pure = 0
        self.used_contracts = []      # (target, assumed?) for evidence
        self.inlined = []
        self._auto_depth = 0
        self.assumed_used = []
        self.old_env = None
        self.depth = 0
        self.top_fn = None

    # ------------------------------------------------------------------------------------------
    @property
    def frame(self):
        return self.frames[-1]

    def fp(self):
        return self.ctx.fp

    # ------------------------------------------------------------------------------------------
    # function execution
    def run_function(self, mod, cls, fn, args, kwargs):
        """Execute FunctionDef fn with evaluated args. Returns the return value."""
        env = self.bind_args(mod, cls, fn, args, kwargs)
        return self.run_body(mod, cls, fn, env)

    def run_body(self, mod, cls, fn, env):
        fr = Frame(mod, cls, fn, env)
        is_gen = any(isinstance(n, (ast.Yield, ast.YieldFrom)) for n in ast.walk(fn)) and not any(
            (isinstance(d, ast.Attribute) and d.attr == 'contextmanager') or
            (isinstance(d, ast.Name) and d.id == 'contextmanager') for d in fn.decorator_list)
        if is_gen and fn is not self.top_fn:
            # generator function: evaluated eagerly, yields collected into a list (its body must
            # not depend on the consumer)
            fr.collect = []
        self.frames.append(fr)
        self.depth += 1
        if self.depth > 12:
            raise Unsupported('call depth')
        try:
            try:
                self.exec_block(fn.body, env)
            except _Return as r:
                if getattr(fr, 'collect', None) is not None:
                    return fr.collect
                return r.value
            if getattr(fr, 'collect', None) is not None:
                return fr.collect
            return None
        finally:
            self.frames.pop()
            self.depth -= 1

    def bind_args(self, mod, cls, fn, args, kwargs):
        a = fn.args
        if a.vararg and not (a.vararg and not a.kwonlyargs and False):
            pass
        params = [p.arg for p in a.posonlyargs + a.args]
        env = {}
        args = list(args)
        if len(args) > len(params) and not a.vararg:
            raise PyRaise('TypeError')
        for name, val in zip(params, args):
            env[name] = val
        if a.vararg:
            env[a.vararg.arg] = tuple(args[len(params):])
        kwargs = dict(kwargs)
        for name in params[len(args):]:
            if name in kwargs:
                env[name] = kwargs.pop(name)
        defaults = a.defaults
        dparams = params[len(params) - len(defaults):]
        self.frames.append(Frame(mod, cls, fn, {}))
        try:
            for name, d in zip(dparams, defaults):
                if name not in env:
                    env[name] = self.eval(d, {})
            for p, d in zip(a.kwonlyargs, a.kw_defaults):
                if p.arg in kwargs:
                    env[p.arg] = kwargs.pop(p.arg)
                elif d is not None:
                    env[p.arg] = self.eval(d, {})
        finally:
            self.frames.pop()
        if a.kwarg:
            env[a.kwarg.arg] = kwargs
            kwargs = {}
        if kwargs:
            raise PyRaise('TypeError')
        for name in params:
            if name not in env:
                raise PyRaise('TypeError')
        return env

    # ------------------------------------------------------------------------------------------
    # statements
    def exec_block(self, stmts, env):
        for s in stmts:
            self.exec_stmt(s, env)

    def exec_stmt(self, s, env):
        m = getattr(self, 'st_' + type(s).__name__, None)
        if m is None:
            raise Unsupported('statement %s (line %d)' % (type(s).__name__, s.lineno))
        return m(s, env)

    def st_Expr(self, s, env):
        if isinstance(s.value, ast.Constant):
            return
        if isinstance(s.value, ast.Yield):
            return self.do_yield(s.value, env)
        self.eval(s.value, env)

    def st_Pass(self, s, env):
        pass

    def st_Return(self, s, env):
        raise _Return(self.eval(s.value, env) if s.value is not None else None)

    def st_Break(self, s, env):
        raise _Break()

    def st_Continue(self, s, env):
        raise _Continue()

    def st_Import(self, s, env):
        for a in s.names:
            env[a.asname or a.name.split('.')[0]] = Module(a.name)

    def st_ImportFrom(self, s, env):
        rel = extract.module_relpath(s.module) if s.module else None
        for a in s.names:
            if rel:
                m2 = extract.load(rel, self.overrides.get(rel))
                if a.name in m2.funcs:
                    env[a.asname or a.name] = FuncRef(m2, None, m2.funcs[a.name])
                    continue
                if a.name in m2.classes:
                    env[a.asname or a.name] = ClassRef(m2, a.name)
                    continue
            env[a.asname or a.name] = Opaque('import:%s.%s' % (s.module, a.name))

    def st_Global(self, s, env):
        pass

    def st_Assert(self, s, env):
        c = self.truth(self.eval(s.test, env))
        if not c:
            raise PyRaise('AssertionError')

    def st_Delete(self, s, env):
        for t in s.targets:
            if isinstance(t, ast.Name):
                env.pop(t.id, None)
            elif isinstance(t, ast.Subscript):
                base = self.eval(t.value, env)
                key = self.eval(t.slice, env)
                if isinstance(base, dict) and is_concrete(key):
                    if key not in base:
                        raise PyRaise('KeyError')
                    del base[key]
                else:
                    raise Unsupported('del on non-dict')
            elif isinstance(t, ast.Attribute):
                base = self.eval(t.value, env)
                if isinstance(base, SObj):
                    base.attrs.pop(t.attr, None)
                else:
                    raise Unsupported('del attribute')
            else:
                raise Unsupported('del target')

    def st_Assign(self, s, env):
        v = self.eval(s.value, env)
        for t in s.targets:
            self.assign(t, v, env)

    def st_AnnAssign(self, s, env):
        if s.value is not None:
            self.assign(s.target, self.eval(s.value, env), env)

    def st_AugAssign(self, s, env):
        op = BINOPS.get(type(s.op))
        if op is None and isinstance(s.op, (ast.BitOr, ast.BitAnd)):
            cur = self.eval(s.target, env)
            rhs = self.eval(s.value, env)
            self.assign(s.target, self.bitop(type(s.op), cur, rhs), env)
            return
        if op is None:
            raise Unsupported('augmented operator')
        t = s.target
        cur = self.eval(t, env)
        rhs = self.eval(s.value, env)
        if isinstance(cur, SCompact) and isinstance(t, ast.Subscript):
            idxv = self.eval(t.slice, env)
            if isinstance(idxv, SWhere):
                rhs = self.where_rhs(idxv, rhs)
        if isinstance(t, ast.Subscript):
            idxv0 = self.eval(t.slice, env)
            basev0 = self.eval(t.value, env)
            if isinstance(basev0, SArr) and basev0.ndim == 2 and isinstance(idxv0, tuple) and len(idxv0) == 2 and \
                    all(isinstance(x, SArr) and x.dtype == 'int' for x in idxv0) and not isinstance(rhs, (SArr, SCompact)):
                fp_ = self.ctx.fp
                self.pair_fancy_store(basev0, idxv0[0], idxv0[1], rhs, lambda o, v: scalar_arith(op, o, v, fp_))
                return
        if isinstance(cur, SArr) and isinstance(t, ast.Subscript):
            idxv = self.eval(t.slice, env)
            basev = self.eval(t.value, env)
            if isinstance(idxv, SArr) and idxv.dtype == 'int' and isinstance(basev, SArr) and basev.ndim == 1:
                # a[idx] op= v  ==  a[idx] = a[idx] op v  (idx must be duplicate-free: obligation)
                newv = self.binop(op, cur, rhs)
                self.fancy_store(basev, idxv, newv)
                return
        if isinstance(cur, SArr):
            # in place on the array object
            self.arr_inplace(cur, op, rhs)
            if isinstance(t, ast.Subscript):
                # a[idx] op= v : cur was a view or a copy
                base = self.eval(t.value, env)
                idx = self.eval(t.slice, env)
                if self.is_copy_index(base, idx):
                    raise Unsupported('in-place operator through fancy/mask index')
                if isinstance(base, SObj):
                    # obj[key] op= v  ==  tmp = obj[key]; tmp op= v; obj[key] = tmp
                    self.call_method(base, '__setitem__', [idx, cur], {})
            return
        if isinstance(cur, SCompact):
            # a[mask] op= rhs  (rhs scalar or a compaction over the same mask)
            if not isinstance(t, ast.Subscript):
                raise Unsupported('in-place operator on a compaction')
            base = self.eval(t.value, env)
            mask = cur.mask
            if not isinstance(base, SArr) or base.ndim != 1:
                raise Unsupported('in-place operator through mask on non-1d array')
            if isinstance(rhs, SCompact):
                if rhs.mask is not mask:
                    raise Unsupported('in-place mask operands over different masks')
                rv = rhs.val
            elif isinstance(rhs, SArr):
                raise Unsupported('in-place mask operator with full array rhs')
            else:
                rv = lambda i: rhs
            mget = cur.mget
            fp = self.ctx.fp
            npm.arr_write(self.ctx, base, lambda i: mget(i), lambda i: rv(i),
                          lambda o, v: scalar_arith(op, o, v, fp))
            return
        if isinstance(cur, SObj):
            r = self.call_method(cur, {'+': '__iadd__', '-': '__isub__', '*': '__imul__',
                                       '/': '__itruediv__'}[op], [rhs], {})
            self.assign(t, r, env)
            return
        if isinstance(cur, list) and op == '+':
            cur.extend(list(rhs))
            return
        self.assign(t, self.binop(op, cur, rhs), env)

    def where_rhs(self, w, rhs):
        """a[np.where(m)[0]] (op)= rhs: numpy broadcasts rhs against count(m) elements.  A scalar
        always fits; a full-length array only fits when every element is selected (else numpy
        raises ValueError: shape mismatch) or when it has exactly one element."""
        if not isinstance(rhs, SArr):
            return rhs
        if rhs.ndim != 1:
            raise Unsupported('n-d rhs for index-set assignment')
        if isinstance(rhs.n, int) and rhs.n == 1:
            return rhs.get(0)
        npm.shape_eq(self.ctx, w.mask.shape, rhs.shape, 'index-set operand length')
        allsel = npm.np_any(self.ctx, w.mask, all_=True)
        if self.ctx.branch(allsel):
            g = self.frozen_getter(rhs)
            return SCompact(w.mask, g, rhs.dtype)
        if self.ctx.branch(scalar_cmp('==', rhs.n, 1)):
            return rhs.get(0)
        raise PyRaise('ValueError')

    def is_copy_index(self, base, idx):
        if isinstance(idx, (SArr, list)):
            return True
        if isinstance(idx, tuple):
            return any(isinstance(i, (SArr, list)) for i in idx)
        return False

    def arr_inplace(self, arr, op, rhs):
        fp = self.ctx.fp
        if isinstance(rhs, SCompact):
            raise Unsupported('in-place op with compaction rhs')
        if isinstance(rhs, SArr) and arr.ndim == 2 and rhs.ndim == 1:
            npm.shape_eq(self.ctx, (arr.shape[1],), rhs.shape, 'in-place broadcast shape')
            rget = self.frozen_getter(rhs)
            npm.arr_write(self.ctx, arr, None, lambda i, j: rget(j),
                          lambda o, v: scalar_arith(op, o, v, fp))
            return
        if isinstance(rhs, SArr):
            npm.shape_eq(self.ctx, arr.shape, rhs.shape, 'in-place operand shape')
            # rhs may alias the target: freeze its current element function
            rget = self.frozen_getter(rhs)
            npm.arr_write(self.ctx, arr, None, lambda *ix: rget(*ix),
                          lambda o, v: scalar_arith(op, o, v, fp))
        else:
            if isinstance(rhs, (Opaque, SObj)) or rhs is None:
                raise Unsupported('in-place op with opaque rhs')
            npm.arr_write(self.ctx, arr, None, lambda *ix: rhs,
                          lambda o, v: scalar_arith(op, o, v, fp))

    def frozen_getter(self, arr):
        return npm.fz(arr)

    def assign(self, t, v, env):
        if isinstance(t, ast.Name):
            env[t.id] = v
        elif isinstance(t, (ast.Tuple, ast.List)):
            vals = self.unpack(v, len(t.elts))
            for e, x in zip(t.elts, vals):
                self.assign(e, x, env)
        elif isinstance(t, ast.Attribute):
            base = self.eval(t.value, env)
            if isinstance(base, SObj):
                if t.attr not in base.attrs:
                    r = self.find_method(base, '__set__' + t.attr)
                    if r is not None:
                        mod, fn, cname = r
                        self.invoke_user(mod, cname, fn, [base, v], {}, 'self.%s = ' % t.attr)
                        return
                base.attrs[t.attr] = v
            elif isinstance(base, SArr) and t.attr == 'flat':
                raise Unsupported('.flat assignment')
            else:
                raise Unsupported('attribute store on %r' % (base,))
        elif isinstance(t, ast.Subscript):
            base = self.eval(t.value, env)
            idx = self.eval(t.slice, env)
            self.setitem(base, idx, v)
        else:
            raise Unsupported('assignment target %s' % type(t).__name__)

    def unpack(self, v, n):
        if isinstance(v, (tuple, list)):
            if len(v) != n:
                raise PyRaise('ValueError')
            return list(v)
        if isinstance(v, SArr) and v.ndim == 1 and isinstance(v.n, int):
            if v.n != n:
                raise PyRaise('ValueError')
            return [v.get(i) for i in range(n)]
        raise Unsupported('unpacking of %r' % (v,))

    def st_If(self, s, env):
        c = self.truth(self.eval(s.test, env))
        self.exec_block(s.body if c else s.orelse, env)

    def st_Raise(self, s, env):
        if s.exc is None:
            cur = getattr(self, 'cur_exc', None)
            if cur is None:
                raise Unsupported('bare raise outside handler')
            raise PyRaise(cur.etype, cur)
        e = self.eval(s.exc, env)
        if isinstance(e, ExcClass):
            raise PyRaise(e.name, ExcInst(e.name))
        if isinstance(e, ExcInst):
            raise PyRaise(e.etype, e)
        raise Unsupported('raise of %r' % (e,))

    def st_Try(self, s, env):
        try:
            try:
                self.exec_block(s.body, env)
            except PyRaise as e:
                for h in s.handlers:
                    names = self.handler_names(h, env)
                    if names is None or exc_matches(e.etype, names):
                        if h.name:
                            env[h.name] = e.inst or ExcInst(e.etype)
                        prev = getattr(self, 'cur_exc', None)
                        self.cur_exc = e.inst or ExcInst(e.etype)
                        try:
                            self.exec_block(h.body, env)
                        finally:
                            self.cur_exc = prev
                        break
                else:
                    raise
            else:
                self.exec_block(s.orelse, env)
        finally:
            if s.finalbody:
                # note: finally also runs for _Return/_Break/PathEnd; Infeasible/Unsupported skip
                import sys
                et = sys.exc_info()[0]
                if et is None or not issubclass(et, (Unsupported, Infeasible, PathEnd)):
                    self.exec_block(s.finalbody, env)

    def handler_names(self, h, env):
        if h.type is None:
            return None
        t = h.type
        elts = t.elts if isinstance(t, ast.Tuple) else [t]
        out = []
        for e in elts:
            v = self.eval(e, env)
            if isinstance(v, ExcClass):
                out.append(v.name)
            else:
                raise Unsupported('except handler type %r' % (v,))
        return out

    def st_With(self, s, env):
        if len(s.items) != 1:
            raise Unsupported('multi-item with')
        it = s.items[0]
        ce = it.context_expr
        fname = None
        if isinstance(ce, ast.Call):
            fname = ce.func.id if isinstance(ce.func, ast.Name) else (
                ce.func.attr if isinstance(ce.func, ast.Attribute) else None)
        if fname in TRANSPARENT_CM:
            rec = SObj('Recording', {})
            if it.optional_vars is not None:
                self.assign(it.optional_vars, rec, env)
            self.exec_block(s.body, env)
            return
        txt = ast.unparse(ce)
        cm = self.contract.assumed.get('with ' + txt) if self.contract else None
        if cm is None and isinstance(ce, ast.Call):
            cm = self.contract.assumed.get('with ' + ast.unparse(ce.func)) if self.contract else None
        if cm is None and isinstance(ce, ast.Call) and isinstance(ce.func, ast.Attribute) and self.contract is not None \
                and ce.func.attr in self.contract.inline:
            if self.inline_contextmanager(ce, it.optional_vars, s.body, env):
                return
        if cm is not None:
            # assumed context manager: enter effect / exit effect given as Assumed pair
            enter, exit_ = cm
            if isinstance(ce, ast.Call):
                for a_ in ce.args:
                    self.eval(a_, env)
            r = self.apply_assumed(enter, txt + '.__enter__', env)
            if it.optional_vars is not None:
                self.assign(it.optional_vars, r, env)
            try:
                self.exec_block(s.body, env)
            finally:
                import sys
                et = sys.exc_info()[0]
                if et is None or not issubclass(et, (Unsupported, Infeasible, PathEnd)):
                    self.apply_assumed(exit_, txt + '.__exit__', env)
            return
        raise Unsupported('with %s' % txt)

    def inline_contextmanager(self, ce, optional_vars, body, env):
        """`with obj.cm(args):` where cm is a real @contextmanager generator listed in `inline`, of the
        shape  pre...; try: yield [v] finally: post...   or   pre...; yield [v]; post...
        The real pre-statements, the with-body and the real post-statements are executed in that order
        (post also when the body raises, for the try/finally shape).  Returns False if the shape differs."""
        obj = self.eval(ce.func.value, env)
        if not isinstance(obj, SObj):
            return False
        r = self.find_method(obj, ce.func.attr)
        if r is None:
            return False
        mod, fn, cname = r
        if not any((isinstance(d, ast.Attribute) and d.attr == 'contextmanager') or
                   (isinstance(d, ast.Name) and d.id == 'contextmanager') for d in fn.decorator_list):
            return False
        stmts = [st for st in fn.body if not (isinstance(st, ast.Expr) and isinstance(st.value, ast.Constant))]
        k = None
        for i, st in enumerate(stmts):
            if any(isinstance(n, (ast.Yield, ast.YieldFrom)) for n in ast.walk(st)):
                k = i
                break
        if k is None or any(isinstance(n, (ast.Yield, ast.YieldFrom)) for st in stmts[k + 1:] for n in ast.walk(st)):
            return False
        ys = stmts[k]
        pre, post_always, post_normal = stmts[:k], [], stmts[k + 1:]
        if isinstance(ys, ast.Try) and len(ys.body) == 1 and not ys.handlers and not ys.orelse:
            yexpr = ys.body[0]
            post_always = ys.finalbody
        else:
            yexpr = ys
        if not (isinstance(yexpr, ast.Expr) and isinstance(yexpr.value, ast.Yield)):
            return False
        if any(isinstance(n, ast.Return) for st in pre + list(post_always) + post_normal for n in ast.walk(st)):
            return False
        args = [self.eval(a, env) for a in ce.args]
        kwargs = {kw.arg: self.eval(kw.value, env) for kw in ce.keywords}
        self.inlined.append(('%s::%s.%s' % (mod.relpath, cname, fn.name), extract.source_hash(mod, fn)))
        cenv = self.bind_args(mod, cname, fn, [obj] + args, kwargs)
        fr = Frame(mod, cname, fn, cenv)

        def in_cm(block):
            self.frames.append(fr)
            try:
                self.exec_block(block, cenv)
            finally:
                self.frames.pop()
        in_cm(pre)
        if optional_vars is not None:
            self.frames.append(fr)
            try:
                yv = self.eval(yexpr.value.value, cenv) if yexpr.value.value is not None else None
            finally:
                self.frames.pop()
            self.assign(optional_vars, yv, env)
        try:
            self.exec_block(body, env)
        except (Unsupported, Infeasible, PathEnd):
            raise
        except BaseException:
            in_cm(post_always)          # try/finally shape: exit code also runs when the body raises/returns
            raise
        in_cm(post_always)
        in_cm(post_normal)
        return True

    # -- loops ---------------------------------------------------------------------------------
    def loop_key(self):
        k = 'loop%d' % self.frame.loop_no
        self.frame.loop_no += 1
        fn = self.frame.fn.name
        return k, fn

    def loop_invariants(self, key, fn):
        inv = self.contract.invariants
        if self.frame.fn is self.top_fn:
            return inv.get(key)
        return inv.get('%s.%s' % (fn, key))

    def st_While(self, s, env):
        key, fn = self.loop_key()
        invs = self.loop_invariants(key, fn)
        if invs is None:
            # bounded unrolling only if the guard is concrete each time
            count = 0
            while True:
                g = self.eval(s.test, env)
                if is_z3(g):
                    raise Unsupported('while loop %s without invariant (symbolic guard)' % key)
                if not self.truth(g):
                    break
                count += 1
                if count > 64:
                    raise Unsupported('while loop %s: concrete unrolling exceeded 64' % key)
                try:
                    self.exec_block(s.body, env)
                except _Break:
                    return
                except _Continue:
                    continue
            self.exec_block(s.orelse, env)
            return
        # inductive cut
        ghost_env = self.clause_env(env)
        self.prove_clauses(invs, ghost_env, 'inv-init', key)
        self.havoc_loop(s.body, env, key, fn)
        ghost_env = self.clause_env(env)
        self.assume_clauses(invs, ghost_env)
        g = self.truth(self.eval(s.test, env))
        if g:
            try:
                self.exec_block(s.body, env)
            except _Break:
                return          # continue after the loop from the break state
            except _Continue:
                pass
            self.prove_clauses(invs, self.clause_env(env), 'inv-step', key)
            raise PathEnd()
        self.exec_block(s.orelse, env)

    def st_For(self, s, env):
        key, fn = self.loop_key()
        it = self.eval(s.iter, env)
        if isinstance(it, SObj):
            it = self.call_method(it, '__iter__', [], {})
        conc = self.concrete_iter(it)
        invs = self.loop_invariants(key, fn)
        if conc is not None and invs is None:
            broke = False
            for x in conc:
                self.assign(s.target, x, env)
                try:
                    self.exec_block(s.body, env)
                except _Break:
                    broke = True
                    break
                except _Continue:
                    continue
            if not broke:
                self.exec_block(s.orelse, env)
            return
        if invs is None:
            raise Unsupported('for loop %s over symbolic sequence without invariant' % key)
        n, elem = self.symbolic_iter(it)
        env['_k'] = 0
        self.prove_clauses(invs, self.clause_env(env), 'inv-init', key)
        self.havoc_loop(s.body, env, key, fn, extra_names=assigned_targets([s])[0])
        k = self.ctx.fresh('_k', IntS)
        self.ctx.add_iterm(k)
        self.ctx.assume(k >= 0)
        self.ctx.assume(scalar_cmp('<=', k, n))
        env['_k'] = k
        self.assume_clauses(invs, self.clause_env(env))
        if self.ctx.branch(scalar_cmp('<', k, n)):
            self.assign(s.target, elem(k), env)
            try:
                self.exec_block(s.body, env)
            except _Break:
                env.pop('_k', None)
                return
            except _Continue:
                pass
            env['_k'] = k + 1
            self.prove_clauses(invs, self.clause_env(env), 'inv-step', key)
            raise PathEnd()
        self.ctx.assume(scalar_cmp('==', k, n))
        env['_k'] = n
        self.exec_block(s.orelse, env)

    def concrete_iter(self, it):
        if isinstance(it, (list, tuple)):
            return list(it)
        if isinstance(it, range):
            return list(it)
        if isinstance(it, dict):
            return list(it.keys())
        if isinstance(it, (set, frozenset)):
            return sorted(it, key=repr)
        if isinstance(it, SArr) and it.ndim == 1 and isinstance(it.n, int):
            return [it.get(i) for i in range(it.n)]
        if isinstance(it, SymRange) and it.concrete():
            return list(range(it.lo, it.hi, it.step))
        return None

    def symbolic_iter(self, it):
        if isinstance(it, SSeq):
            return it.n, it.elem
        if isinstance(it, SymRange):
            if it.step != 1:
                raise Unsupported('symbolic range with step')
            lo = it.lo
            n = scalar_arith('-', it.hi, lo)
            n = z3.If(tz(n) < 0, z3.IntVal(0), tz(n)) if is_z3(n) else max(n, 0)
            return n, (lambda k: scalar_arith('+', lo, k))
        if isinstance(it, SArr) and it.ndim == 1:
            return it.n, (lambda k: it.get(k))
        raise Unsupported('iteration over %r' % (it,))

    def havoc_loop(self, body, env, key, fn, extra_names=()):
        names, exprs = assigned_targets(body)
        names |= set(extra_names)
        names.discard('_k')
        for nm in sorted(names):
            if nm in env:
                env[nm] = self.havoc_value(env[nm], nm)
        done = set()
        for e in exprs:
            txt = ast.unparse(e)
            if txt in done:
                continue
            done.add(txt)
            self.havoc_target(e, env)
        # ghost state may be updated inside the loop: havoc it too (invariants re-link it)
        for g in sorted(k for k in self.ctx.ghost if k != 'sums'):
            self.ctx.ghost[g] = self.havoc_value(self.ctx.ghost[g], 'ghost_' + g)
        k2 = key if self.frame.fn is self.top_fn else '%s.%s' % (fn, key)
        for path in self.contract.loop_modifies.get(k2, ()):
            self.havoc_target(ast.parse(path, mode='eval').body, env)

    def havoc_target(self, e, env):
        if isinstance(e, ast.Attribute):
            try:
                base = self.eval(e.value, env)
            except (PyRaise, Unsupported):
                return
            if isinstance(base, SObj) and e.attr in base.attrs:
                base.attrs[e.attr] = self.havoc_value(base.attrs[e.attr], e.attr)
        elif isinstance(e, ast.Subscript):
            try:
                base = self.eval(e.value, env)
            except (PyRaise, Unsupported):
                return
            if isinstance(base, SArr):
                npm.havoc_store(self.ctx, base, 'h_' + base.store.name.split('!')[0])
            elif isinstance(base, dict):
                try:
                    key = self.eval(e.slice, env)
                except (PyRaise, Unsupported):
                    key = None
                if key is not None and is_concrete(key) and key in base:
                    base[key] = self.havoc_value(base[key], str(key))
                else:
                    for k in list(base):
                        base[k] = self.havoc_value(base[k], str(k))
        elif isinstance(e, ast.Name):
            if e.id in env:
                env[e.id] = self.havoc_value(env[e.id], e.id)

    def havoc_value(self, v, name):
        c = self.ctx
        if isinstance(v, bool) or is_bool_term(v):
            return c.fresh(name, BoolS)
        if isinstance(v, int) or is_int_term(v):
            return c.fresh(name, IntS)
        if is_fp_term(v) or (c.fp and isinstance(v, float)):
            return c.fresh(name, FPS)
        if isinstance(v, (float, Fraction)) or is_real_term(v):
            return c.fresh(name, RealS)
        if isinstance(v, SArr):
            npm.havoc_store(c, v, 'h_' + name)
            return v
        if isinstance(v, Cx):
            return Cx(c.fresh(name + '_re', RealS), c.fresh(name + '_im', RealS))
        if isinstance(v, tuple):
            return tuple(self.havoc_value(x, name) for x in v)
        return v

    # -- generators (contextmanager) ----------------------------------------------------------
    def do_yield(self, node, env):
        if getattr(self.frame, 'collect', None) is not None:
            self.frame.collect.append(self.eval(node.value, env) if node.value is not None else None)
            return
        body = self.contract.assumed.get('yield') if self.contract else None
        if body is None:
            raise Unsupported('yield without assumed body contract')
        self.apply_assumed(body, 'yield', env)

    # ------------------------------------------------------------------------------------------
    # expressions
    def eval(self, e, env):
        m = getattr(self, 'ex_' + type(e).__name__, None)
        if m is None:
            raise Unsupported('expression %s' % type(e).__name__)
        return m(e, env)

    def ex_Constant(self, e, env):
        v = e.value
        if isinstance(v, float) and not self.ctx.fp:
            return pyfloat_to_fraction(v)
        if isinstance(v, complex):
            return Cx(pyfloat_to_fraction(v.real), pyfloat_to_fraction(v.imag))
        return v

    def ex_JoinedStr(self, e, env):
        return Opaque('fstring')

    def ex_FormattedValue(self, e, env):
        return Opaque('fstring')

    def ex_Name(self, e, env):
        nm = e.id
        if nm in env:
            return env[nm]
        return self.global_name(nm)

    def global_name(self, nm):
        if nm == 'np' or nm == 'numpy' or nm == 'jnp':
            return Module('numpy')
        if nm in ('True', 'False', 'None'):
            return {'True': True, 'False': False, 'None': None}[nm]
        if nm in EXC_NAMES:
            return ExcClass(nm)
        mod = self.frame.mod
        if nm in mod.assigns:
            # module-level constant: evaluate its defining expression
            self.frames.append(Frame(mod, None, None, {}))
            try:
                return self.eval(mod.assigns[nm], {})
            finally:
                self.frames.pop()
        if nm in mod.funcs:
            return FuncRef(mod, None, mod.funcs[nm])
        if nm in mod.classes:
            return ClassRef(mod, nm)
        if nm in mod.imports:
            dotted, orig = mod.imports[nm]
            if orig is None:
                return Module(dotted)
            if dotted == 'numpy':
                return ModAttr(Module('numpy'), orig)
            rel = extract.module_relpath(dotted) if dotted else None
            if rel:
                m2 = extract.load(rel, self.overrides.get(rel))
                if orig in m2.funcs:
                    return FuncRef(m2, None, m2.funcs[orig])
                if orig in m2.classes:
                    return ClassRef(m2, orig)
                if orig in m2.assigns:
                    self.frames.append(Frame(m2, None, None, {}))
                    try:
                        return self.eval(m2.assigns[orig], {})
                    finally:
                        self.frames.pop()
                if orig in m2.imports:
                    # re-export
                    self.frames.append(Frame(m2, None, None, {}))
                    try:
                        return self.global_name(orig)
                    finally:
                        self.frames.pop()
            if dotted and extract.module_relpath(dotted + '.' + orig):
                # `from package import submodule`
                return Module(dotted + '.' + orig)
            if nm in PYTYPES:
                return PyType(nm)
            if nm in EXC_NAMES:
                return ExcClass(nm)
            if (orig or nm) in BUILTINS and rel is None:
                return Builtin(orig or nm)
            return Opaque('import:%s' % nm)
        if nm in PYTYPES:
            return PyType(nm)
        if nm in BUILTINS:
            return Builtin(nm)
        raise Unsupported('unknown name %s' % nm)

    def ex_Tuple(self, e, env):
        out = []
        for x in e.elts:
            if isinstance(x, ast.Starred):
                out.extend(self.unstar(self.eval(x.value, env)))
            else:
                out.append(self.eval(x, env))
        return tuple(out)

    def ex_List(self, e, env):
        return list(self.ex_Tuple(e, env))

    def ex_Set(self, e, env):
        return set(self.ex_Tuple(e, env))

    def ex_Dict(self, e, env):
        d = {}
        for k, v in zip(e.keys, e.values):
            if k is None:
                d.update(self.eval(v, env))
            else:
                kk = self.eval(k, env)
                if not is_concrete(kk):
                    raise Unsupported('symbolic dict key')
                d[kk] = self.eval(v, env)
        return d

    def unstar(self, v):
        if isinstance(v, (tuple, list)):
            return list(v)
        raise Unsupported('star-expansion of %r' % (v,))

    def ex_Slice(self, e, env):
        f = lambda x: None if x is None else self.eval(x, env)
        return slice(f(e.lower), f(e.upper), f(e.step))

    def ex_Lambda(self, e, env):
        interp = self
        mod, cls = self.frame.mod, self.frame.cls

        pure_at_creation = self.pure
        old_env_at_creation = self.old_env

        def call(args, kwargs):
            fenv = dict(env)
            names = [a.arg for a in e.args.args]
            for nm, v in zip(names, args):
                fenv[nm] = v
            interp.frames.append(Frame(mod, cls, None, fenv))
            # a lambda written inside a clause is a spec function: it is always evaluated in clause
            # (pure) mode, also when a sum body is expanded later
            if pure_at_creation:
                interp.pure += 1
                saved_old = interp.old_env
                interp.old_env = old_env_at_creation
            try:
                return interp.eval(e.body, fenv)
            finally:
                if pure_at_creation:
                    interp.pure -= 1
                    interp.old_env = saved_old
                interp.frames.pop()
        return Closure(call, 'lambda')

    def ex_IfExp(self, e, env):
        c = self.eval(e.test, env)
        if self.pure and is_z3(c):
            a = self.eval(e.body, env)
            b = self.eval(e.orelse, env)
            return zite(b2z(self.as_bool(c)), a, b, self.ctx.fp)
        return self.eval(e.body if self.truth(c) else e.orelse, env)

    def ex_UnaryOp(self, e, env):
        v = self.eval(e.operand, env)
        if isinstance(e.op, ast.Not):
            if self.pure:
                return znot(self.as_bool(v))
            return not self.truth(v) if not is_z3(v) else znot(self.as_bool(v))
        if isinstance(e.op, ast.USub):
            if is_arr(v):
                return npm.map1(self.ctx, v, lambda x: zneg(x, self.ctx.fp))
            return zneg(v, self.ctx.fp)
        if isinstance(e.op, ast.UAdd):
            return v
        if isinstance(e.op, ast.Invert):
            if isinstance(v, SArr) and v.dtype == 'bool':
                return npm.map1(self.ctx, v, znot)
            if isinstance(v, bool) or is_bool_term(v):
                raise Unsupported('~ on python bool')
        raise Unsupported('unary operator')

    def ex_BinOp(self, e, env):
        op = BINOPS.get(type(e.op))
        a = self.eval(e.left, env)
        b = self.eval(e.right, env)
        if op is None:
            if isinstance(e.op, ast.MatMult):
                return self.matmul(a, b)
            if isinstance(e.op, (ast.BitAnd, ast.BitOr)):
                return self.bitop(type(e.op), a, b)
            raise Unsupported('binary operator %s' % type(e.op).__name__)
        return self.binop(op, a, b)

    def bitop(self, opt, a, b):
        f = zand if opt is ast.BitAnd else zor
        if is_arr(a) or is_arr(b):
            if isinstance(a, SArr) and isinstance(b, SArr):
                npm.shape_eq(self.ctx, a.shape, b.shape)
                ga, gb = npm.fz(a), npm.fz(b)
                return npm.new_arr(self.ctx, a.shape, lambda *ix: f(ga(*ix), gb(*ix)), 'bool')
            raise Unsupported('bit op on mixed arrays')
        if (isinstance(a, bool) or is_bool_term(a)) and (isinstance(b, bool) or is_bool_term(b)):
            return f(a, b)
        if isinstance(a, (set, frozenset)) and isinstance(b, (set, frozenset)):
            return (a & b) if opt is ast.BitAnd else (a | b)
        raise Unsupported('bit op on non-bools')

    def binop(self, op, a, b):
        if is_arr(a) or is_arr(b):
            return npm.elementwise(self.ctx, op, a, b)
        if isinstance(a, str) and op == '+' and isinstance(b, str):
            return a + b
        if isinstance(a, str) and op == '%':
            return Opaque('fmtstring')
        if isinstance(a, (str, Opaque)) or isinstance(b, (str, Opaque)):
            if isinstance(a, str) and isinstance(b, str) and op == '+':
                return a + b
            if op == '+' and isinstance(a, (str, Opaque)) and isinstance(b, (str, Opaque)):
                return Opaque('fstring')
            if self.contract is not None and self.contract.defs.get('opaque_arith') and \
                    (isinstance(a, Opaque) or isinstance(b, Opaque)):
                # bookkeeping values (e.g. unit name dictionaries): result is again opaque
                return Opaque('arith')
            if op in ('+', '%') and (isinstance(a, (str, Opaque)) and getattr(a, 'name', 'x') in
                                     ('fstring', 'fmtstring', 'x') or isinstance(a, str)):
                return Opaque('fstring')
            raise Unsupported('arithmetic on opaque value')
        if isinstance(a, (list, tuple)) and isinstance(b, (list, tuple)) and op == '+':
            return a + b
        if isinstance(a, (list, tuple)) and op == '*' and isinstance(b, int):
            return a * b
        if isinstance(a, SObj) or isinstance(b, SObj):
            names = {'+': ('__add__', '__radd__'), '-': ('__sub__', '__rsub__'), '*': ('__mul__', '__rmul__'),
                     '/': ('__truediv__', '__rtruediv__'), '**': ('__pow__', '__rpow__')}.get(op)
            if names:
                if isinstance(a, SObj) and self.find_dunder(a, names[0]):
                    return self.call_dunder(a, names[0], [b])
                if isinstance(b, SObj) and self.find_dunder(b, names[1]):
                    return self.call_dunder(b, names[1], [a])
            raise Unsupported('binary operator on object')
        if op == '/' and self.ctx.fp and self.contract is not None and \
                self.contract.defs.get('fp_div') == 'uf' and (is_fp_term(a) or is_fp_term(b)):
            return self.ctx.fdiv(to_fp(a), to_fp(b))
        return scalar_arith(op, a, b, self.ctx.fp)

    def find_dunder(self, obj, name):
        if self.find_method(obj, name) is not None:
            return name
        # class-level alias:  __truediv__ = __div__
        ca = self.class_alias(obj, name)
        return ca

    def class_alias(self, obj, name):
        mod = self.mod_of_class(obj.cls)
        if mod is None or obj.cls not in mod.classes:
            return None
        ca = mod.class_attr_assigns(obj.cls)
        v = ca.get(name)
        if isinstance(v, ast.Name) and self.find_method(obj, v.id) is not None:
            return v.id
        return None

    def call_dunder(self, obj, name, args):
        real = name if self.find_method(obj, name) is not None else self.class_alias(obj, name)
        return self.call_method(obj, real, args, {})

    def matmul(self, a, b):
        ctx = self.ctx
        if isinstance(a, SArr) and isinstance(b, SArr):
            if a.ndim == 2 and b.ndim == 1:
                npm.shape_eq(ctx, (a.shape[1],), b.shape, 'matmul inner dimension')
                inner = a.shape[1]
                ga, gb = npm.fz(a), npm.fz(b)
                return npm.new_arr(ctx, (a.shape[0],), lambda i: npm.np_sum(
                    ctx, inner, lambda k: scalar_arith('*', ga(i, k), gb(k), ctx.fp), 'mv'))
            if a.ndim == 1 and b.ndim == 1:
                npm.shape_eq(ctx, a.shape, b.shape, 'dot dimension')
                ga, gb = npm.fz(a), npm.fz(b)
                return npm.np_sum(ctx, a.n, lambda k: scalar_arith('*', ga(k), gb(k), ctx.fp),
                                  'dot')
        raise Unsupported('matmul of these operands')

    def ex_BoolOp(self, e, env):
        is_and = isinstance(e.op, ast.And)
        acc = None
        vals = e.values
        for i, x in enumerate(vals):
            v = self.eval(x, env)
            last = i == len(vals) - 1
            if is_bool_term(v) or isinstance(v, bool):
                if acc is None:
                    acc = v
                else:
                    acc = zand(acc, self.as_bool(v)) if is_and else zor(acc, self.as_bool(v))
                if isinstance(acc, bool):
                    if (is_and and not acc) or (not is_and and acc):
                        return acc
                    acc = None if not last else acc
                    if last:
                        return v if acc is None else acc
                    continue
                if last:
                    return acc
                # decide whether the rest may be evaluated without short-circuit
                rest_pure = all(self.syntactically_pure(r) for r in vals[i + 1:])
                if self.pure or rest_pure:
                    continue
                t = self.ctx.branch(self.as_bool(acc))
                if is_and and not t:
                    return False
                if not is_and and t:
                    return True
                acc = None
                continue
            # non-boolean python value: python semantics (truthiness, returns operand)
            if acc is not None:
                t = self.truth(acc)
                if is_and and not t:
                    return False
                if not is_and and t:
                    return True
                acc = None
            t = self.truth(v)
            if last:
                return v
            if is_and and not t:
                return v
            if not is_and and t:
                return v
        return acc

    def syntactically_pure(self, node):
        for n in ast.walk(node):
            if isinstance(n, ast.Call):
                f = n.func
                txt = ast.unparse(f)
                if txt in ('np.isinf', 'np.isnan', 'np.isscalar', 'isinstance', 'len', 'abs',
                           'np.abs', 'np.isfinite'):
                    continue
                return False
            if isinstance(n, (ast.NamedExpr, ast.Yield, ast.Await)):
                return False
        return True

    def as_bool(self, v):
        """Python truthiness as a term, without branching."""
        if isinstance(v, bool) or is_bool_term(v):
            return v
        if is_z3(v):
            if z3.is_fp(v):
                return z3.Not(z3.fpIsZero(v))
            return v != 0
        if v is None:
            return False
        if isinstance(v, (int, float, Fraction, str, tuple, list, dict, set, frozenset)):
            return bool(v)
        if isinstance(v, (SObj, Closure, SCallable, FuncRef, ClassRef, ExcClass, PyType, Module)):
            return True
        if isinstance(v, Opaque):
            return self.ctx.upred('truthy', v.name)
        if isinstance(v, slice):
            return True
        if isinstance(v, SArr):
            if v.ndim == 1 and isinstance(v.n, int) and v.n == 1:
                return self.as_bool(v.get(0))
            if v.ndim == 1 and not isinstance(v.n, int) and not self.pure:
                # numpy: only a one-element array has a truth value
                if self.ctx.branch(scalar_cmp('==', v.n, 1)):
                    return self.as_bool(v.get(0))
            raise PyRaise('ValueError')
        raise Unsupported('truth value of %r' % (v,))

    def truth(self, v):
        b = self.as_bool(v)
        if isinstance(b, bool):
            return b
        return self.ctx.branch(b)

    def ex_Compare(self, e, env):
        left = self.eval(e.left, env)
        acc = True
        for op, rhs_node in zip(e.ops, e.comparators):
            right = self.eval(rhs_node, env)
            r = self.compare(op, left, right)
            if is_arr(r):
                if len(e.ops) != 1:
                    raise Unsupported('chained comparison of arrays')
                return r
            acc = zand(acc, r)
            if isinstance(acc, bool) and not acc:
                return False
            left = right
        return acc

    def compare(self, op, a, b):
        t = type(op)
        if t in CMPOPS:
            o = CMPOPS[t]
            if isinstance(a, FPInt) or isinstance(b, FPInt):
                fi, other = (a, b) if isinstance(a, FPInt) else (b, a)
                if o in ('==', '!=') and is_fp_term(other) and other.get_id() == fi.src.get_id():
                    # int(v) == v  <=>  v is integral (exact: python compares int and float exactly)
                    r = z3.fpRoundToIntegral(z3.RTZ(), fi.src) == fi.src
                    return r if o == '==' else z3.Not(r)
                a = a.term if isinstance(a, FPInt) else a
                b = b.term if isinstance(b, FPInt) else b
            if is_arr(a) or is_arr(b):
                return npm.elementwise(self.ctx, o, a, b)
            if isinstance(a, PyType) or isinstance(b, PyType) or isinstance(a, ExcClass) \
                    or isinstance(b, ExcClass):
                r = (a == b)
                return r if o == '==' else (not r)
            if isinstance(a, Opaque) or isinstance(b, Opaque):
                if o in ('==', '!='):
                    if a is b:
                        return o == '=='
                    p = self.ctx.upred('eq', *sorted([self.okey(a), self.okey(b)]))
                    return p if o == '==' else z3.Not(p)
                # ordering of opaque values: uninterpreted, consistent between < <= > >=
                if o in ('<', '>='):
                    p = self.ctx.upred('lt', self.okey(a), self.okey(b))
                    return p if o == '<' else z3.Not(p)
                p = self.ctx.upred('lt', self.okey(b), self.okey(a))
                return p if o == '>' else z3.Not(p)
            if isinstance(a, SObj) or isinstance(b, SObj):
                if o in ('==', '!='):
                    return (a is b) if o == '==' else (a is not b)
                raise Unsupported('ordering of objects')
            if isinstance(a, (dict, set, frozenset)) or isinstance(b, (dict, set, frozenset)):
                if o in ('==', '!='):
                    try:
                        r = a == b
                    except Exception:
                        raise Unsupported('container equality')
                    return r if o == '==' else not r
            if isinstance(a, slice) and isinstance(b, slice) and o in ('==', '!='):
                r = zand(scalar_cmp('==', a.start, b.start), scalar_cmp('==', a.stop, b.stop),
                         scalar_cmp('==', a.step, b.step))
                return r if o == '==' else znot(r)
            return scalar_cmp(o, a, b, self.ctx.fp)
        if t in (ast.Is, ast.IsNot):
            r = self.identical(a, b)
            return r if t is ast.Is else znot(r)
        if t in (ast.In, ast.NotIn):
            r = self.contains(b, a)
            return r if t is ast.In else znot(r)
        raise Unsupported('comparison operator')

    def okey(self, v):
        if isinstance(v, Opaque):
            return 'O:' + v.name
        if is_z3(v):
            return 'Z:' + str(v)
        return 'C:' + repr(v)

    def identical(self, a, b):
        if a is None or b is None:
            # an Opaque value is never None (specs say OneOf(None, OpaqueT) where None is possible)
            return a is None and b is None
        if isinstance(a, bool) and isinstance(b, bool):
            return a == b
        if isinstance(a, bool) or isinstance(b, bool):
            o = b if isinstance(a, bool) else a
            c = a if isinstance(a, bool) else b
            if is_bool_term(o):
                return o if c else z3.Not(o)
            return False
        if isinstance(a, (PyType, ExcClass)) or isinstance(b, (PyType, ExcClass)):
            return a == b
        if isinstance(a, str) and isinstance(b, str):
            return a == b
        if isinstance(a, SArr) and isinstance(b, SArr):
            return a is b or (a.store is b.store and a.imap is b.imap and a.part == b.part)
        if isinstance(a, slice) and isinstance(b, slice):
            return a is b or (a == b and a == slice(None))
        return a is b

    def contains(self, container, item):
        if isinstance(container, dict):
            if is_concrete(item):
                try:
                    return item in container
                except TypeError:
                    raise Unsupported('unhashable key')
            raise Unsupported('symbolic key membership')
        if isinstance(container, (list, tuple, set, frozenset)):
            if isinstance(item, Opaque):
                return self.ctx.upred('in', item.name, id(container) if not isinstance(
                    container, tuple) else repr(container))
            if isinstance(container, (set, frozenset)) and is_concrete(item):
                return item in container
            return zor(*[scalar_cmp('==', item, x, self.ctx.fp) for x in container])
        if isinstance(container, Opaque):
            return self.ctx.upred('in', self.okey(item), container.name)
        if isinstance(container, str) and isinstance(item, str):
            return item in container
        if isinstance(container, SObj):
            if '_members_' in container.attrs and is_concrete(item):
                # container object whose membership test is inherited from a library base class (e.g. networkx graph):
                # the contract states its member set explicitly
                return item in container.attrs['_members_']
            r = self.call_method(container, '__contains__', [item], {})
            return r
        raise Unsupported('membership in %r' % (container,))

    # -- attribute / subscript -----------------------------------------------------------------
    def ex_Attribute(self, e, env):
        base = self.eval(e.value, env)
        return self.getattr(base, e.attr)

    def getattr(self, base, attr):
        if isinstance(base, SObj):
            if attr in base.attrs:
                return base.attrs[attr]
            r = self.find_method(base, attr)
            if r is not None:
                mod, fn, cname = r
                if any(isinstance(d, ast.Name) and d.id == 'property' for d in fn.decorator_list):
                    return self.invoke_user(mod, cname, fn, [base], {}, 'self.' + attr)
                return BoundMethod(base, attr)
            ca = self.class_attr(base, attr)
            if ca is not None:
                return ca[0]
            if attr == '__class__':
                return ClassRef(None, base.cls)
            raise Unsupported('attribute %s of %s not modelled' % (attr, base.cls))
        if isinstance(base, SArr):
            return self.arr_attr(base, attr)
        if isinstance(base, SWhere) and attr == 'size':
            # number of selected indices: a fresh count that is positive exactly when some index is selected
            cnt = self.ctx.fresh('wsize', IntS)
            anyb = npm.np_any(self.ctx, base.mask)
            self.ctx.assume(cnt >= 0)
            self.ctx.assume(z3.And(z3.Implies(b2z(anyb), cnt > 0), z3.Implies(cnt > 0, b2z(anyb))))
            self.ctx.assume(cnt <= tz(base.mask.n))
            return cnt
        if isinstance(base, SCompact) and attr in ('real', 'imag'):
            v = base.val
            if attr == 'real':
                return SCompact(base.mask, lambda i: (v(i).re if isinstance(v(i), Cx) else v(i)), 'real', base.mget)
            return SCompact(base.mask, lambda i: (v(i).im if isinstance(v(i), Cx) else 0), 'real', base.mget)
        if isinstance(base, Module):
            if base.name == 'numpy':
                if attr == 'inf':
                    return z3.fpPlusInfinity(FPS) if self.ctx.fp else self.ctx.inf()
                if attr == 'nan':
                    if self.ctx.fp:
                        return z3.fpNaN(FPS)
                    raise Unsupported('np.nan in real mode')
                if attr == 'newaxis':
                    return None
                if attr == 'pi':
                    from .trans import pi_const
                    return pi_const(self.ctx)
            rel = extract.module_relpath(base.name) if base.name.startswith('openmdao') else None
            if rel:
                m2 = extract.load(rel, self.overrides.get(rel))
                if attr in m2.funcs:
                    return FuncRef(m2, None, m2.funcs[attr])
                if attr in m2.classes:
                    return ClassRef(m2, attr)
            return ModAttr(base, attr)
        if isinstance(base, ModAttr):
            return ModAttr(base, attr)
        if isinstance(base, slice):
            return getattr(base, attr)
        if isinstance(base, (dict, list, str, tuple, set, frozenset)):
            return PyMethod(base, attr)
        if isinstance(base, Cx):
            if attr == 'real':
                return base.re
            if attr == 'imag':
                return base.im
            if attr == 'dtype':
                return SObj('dtype', {'kind': 'c', 'name': 'complex'})
        if is_z3(base) or isinstance(base, (int, Fraction, float)):
            if attr == 'dtype' and not isinstance(base, int) and not is_int_term(base):
                # NumPy scalar taken out of a real array
                return SObj('dtype', {'kind': 'f', 'name': 'real'})
            if attr == 'real':
                return base
            if attr == 'imag':
                return 0
            if attr == 'size':
                return 1
            if attr == 'ravel' or attr == 'flatten':
                raise Unsupported('ravel of scalar')
            if not is_z3(base):
                raise PyRaise('AttributeError')
        if isinstance(base, ExcInst):
            return Opaque('excattr')
        if isinstance(base, ClassRef):
            if attr == '__name__':
                return Opaque('clsname')
        if isinstance(base, PyType) and attr == '__name__':
            return Opaque('typename')
        if isinstance(base, Opaque):
            return Opaque(base.name + '.' + attr)
        if isinstance(base, BoundMethod):
            raise Unsupported('attribute of bound method')
        raise Unsupported('attribute %s of %r' % (attr, base))

    def class_attr(self, obj, attr):
        mod = self.mod_of_class(obj.cls)
        seen = 0
        cname = obj.cls
        return self._class_attr(mod, cname, attr, 0)

    def _class_attr(self, mod, cname, attr, depth):
        if mod is None or depth > 8:
            return None
        if cname in mod.classes:
            ca = mod.class_attr_assigns(cname)
            if attr in ca:
                self.frames.append(Frame(mod, cname, None, {}))
                try:
                    return (self.eval(ca[attr], {}),)
                finally:
                    self.frames.pop()
            for b in mod.class_bases(cname):
                r = self._class_attr(mod, b, attr, depth + 1)
                if r is not None:
                    return r
            return None
        if cname in mod.imports:
            dotted, orig = mod.imports[cname]
            rel = extract.module_relpath(dotted) if dotted else None
            if rel:
                return self._class_attr(extract.load(rel, self.overrides.get(rel)), orig or cname,
                                        attr, depth + 1)
        return None

    CLASS_HOME = {}

    def mod_of_class(self, cname):
        home = self.CLASS_HOME.get(cname) or (self.contract.defs.get('class_home', {}).get(cname)
                                              if self.contract else None)
        if home:
            return extract.load(home, self.overrides.get(home))
        # search current frames' modules
        for fr in reversed(self.frames):
            if fr.mod is not None and (cname in fr.mod.classes or cname in fr.mod.imports):
                return fr.mod
        return None

    def find_method(self, obj, name):
        mod = self.mod_of_class(obj.cls)
        if mod is None:
            return None
        return extract.resolve_method(mod, obj.cls, name, self.overrides)

    def arr_attr(self, a, attr):
        if attr == 'size':
            r = 1
            for s in a.shape:
                r = scalar_arith('*', r, s)
            return r
        if attr == 'shape':
            return tuple(a.shape)
        if attr == 'ndim':
            return a.ndim
        if attr == 'real':
            if a.dtype == 'complex' and a.part is None:
                return SArr(a.store, a.shape, 'real', a.imap, a.inv, 're')
            return a
        if attr == 'imag':
            if a.dtype == 'complex' and a.part is None:
                return SArr(a.store, a.shape, 'real', a.imap, a.inv, 'im')
            return npm.new_arr(self.ctx, a.shape, lambda *ix: 0, 'real')
        if attr == 'T':
            if a.ndim == 1:
                return a
            if a.ndim == 2:
                return a.view((a.shape[1], a.shape[0]), lambda i, j: (j, i),
                              lambda i, j: (True, (j, i)))
        if attr == 'dtype':
            return SObj('dtype', {'kind': {'int': 'i', 'real': 'f', 'complex': 'c', 'bool': 'b', 'fp': 'f'}[a.dtype],
                                  'name': a.dtype})
        if attr == 'flat':
            return ArrFlat(a)
        return PyMethod(a, attr)

    def ex_Subscript(self, e, env):
        base = self.eval(e.value, env)
        idx = self.eval(e.slice, env)
        return self.getitem(base, idx)

    def getitem(self, base, idx):
        ctx = self.ctx
        if isinstance(base, dict):
            if not is_concrete(idx):
                raise Unsupported('symbolic dict key')
            try:
                if idx not in base:
                    raise PyRaise('KeyError')
            except TypeError:
                raise Unsupported('unhashable key')
            return base[idx]
        if isinstance(base, (list, tuple, str)):
            if isinstance(idx, int):
                if not -len(base) <= idx < len(base):
                    raise PyRaise('IndexError')
                return base[idx]
            if isinstance(idx, slice) and all(x is None or isinstance(x, int)
                                             for x in (idx.start, idx.stop, idx.step)):
                return base[idx]
            if is_int_term(idx) and self.pure:
                # clause evaluation: no path splitting — an if-then-else chain over the elements
                if not base:
                    raise PyRaise('IndexError')
                r = base[-1]
                for j in range(len(base) - 2, -1, -1):
                    r = zite(idx == j, base[j], r, ctx.fp)
                return r
            if is_int_term(idx):
                # select by case split over the (concrete length) sequence
                for j in range(len(base)):
                    if ctx.branch(idx == j):
                        return base[j]
                for j in range(1, len(base) + 1):
                    if ctx.branch(idx == -j):
                        return base[-j]
                raise PyRaise('IndexError')
            raise Unsupported('sequence index %r' % (idx,))
        if isinstance(base, SArr):
            return self.arr_getitem(base, idx)
        if isinstance(base, SSeq):
            if isinstance(idx, int) or is_int_term(idx):
                ctx.add_iterm(idx)
                return base.elem(idx)
        if isinstance(base, SObj):
            return self.call_method(base, '__getitem__', [idx], {})
        if isinstance(base, ArrFlat):
            if base.arr.ndim == 1:
                return self.arr_getitem(base.arr, idx)
            raise Unsupported('.flat read of n-d array')
        if isinstance(base, SCompact):
            raise Unsupported('index into compaction')
        if isinstance(base, Opaque):
            return Opaque(base.name + '[]')
        raise Unsupported('subscript of %r' % (base,))

    def norm_index(self, i, n, what='index'):
        """python/numpy negative index wrap + bounds obligation. returns store-relative term"""
        ctx = self.ctx
        if isinstance(i, bool):
            raise Unsupported('bool index')
        if isinstance(i, int) and isinstance(n, int):
            if not -n <= i < n:
                raise PyRaise('IndexError')
            return i + n if i < 0 else i
        if self.pure:
            if isinstance(i, int):
                return i if i >= 0 else scalar_arith('+', i, n)
            iz = tz(i)
            ctx.add_iterm(iz)
            if self.pure_nonneg:
                return iz
            return z3.If(iz < 0, iz + tz(n), iz)
        if isinstance(i, int) and i >= 0:
            ok = scalar_cmp('<', i, n)
            if not ctx.entails(b2z(ok)):
                if ctx.branch(b2z(ok)):
                    return i
                raise PyRaise('IndexError')
            return i
        iz = tz(i)
        if not z3.is_int(iz):
            raise Unsupported('non-integer index')
        ctx.add_iterm(iz)
        ok = z3.And(iz >= -tz(n), iz < tz(n))
        if not ctx.entails(ok):
            if not ctx.branch(ok):
                raise PyRaise('IndexError')
        if ctx.entails(iz >= 0):
            return iz
        return z3.If(iz < 0, iz + tz(n), iz)

    def arr_getitem(self, a, idx):
        ctx = self.ctx
        if isinstance(idx, ArrFlat) and idx.arr.ndim == 1:
            idx = idx.arr
        if idx is Ellipsis:
            return a
        if isinstance(idx, tuple) and len(idx) == 1 and a.ndim == 1:
            idx = idx[0]
        if isinstance(idx, slice):
            if a.ndim == 1:
                return npm.slice_view(ctx, a, idx)
            if idx == slice(None):
                return a
            if a.ndim == 2:
                # a[lo:hi] = a[lo:hi, :]  (view of whole rows)
                return self.arr_getitem(a, (idx, slice(None)))
            raise Unsupported('slice of n-d array')
        if isinstance(idx, (int,)) or is_int_term(idx):
            if a.ndim == 1:
                return a.get(self.norm_index(idx, a.n))
            if a.ndim == 2:
                r = self.norm_index(idx, a.shape[0])
                return a.view((a.shape[1],), lambda j: (r, j),
                              lambda i, j: (scalar_cmp('==', i, r), (j,)))
            raise Unsupported('int index into %d-d array' % a.ndim)
        if isinstance(idx, SWhere):
            idx = idx.mask
        if isinstance(idx, SCompact) and idx.dtype == 'int' and a.ndim == 1:
            # fancy read through a compacted index array (e.g. column[row[col == icol]]): a compaction over the same mask
            n = a.n
            k = ctx.fresh('ci', IntS)
            ctx.add_iterm(k)
            iv, mg = idx.val, idx.mget
            ok = z3.Implies(z3.And(k >= 0, k < tz(idx.mask.n), b2z(mg(k))), z3.And(tz(iv(k)) >= -tz(n), tz(iv(k)) < tz(n)))
            ctx.oblige('bounds', 'compacted fancy index within bounds', ok)
            g = self.frozen_getter(a)

            def cel(i):
                j = tz(iv(i))
                return g(z3.If(j < 0, j + tz(n), j))
            return SCompact(idx.mask, cel, a.dtype, idx.mget)
        if isinstance(idx, SArr):
            if idx.dtype == 'bool':
                if a.ndim != 1 or idx.ndim != 1:
                    raise Unsupported('n-d mask')
                npm.shape_eq(ctx, a.shape, idx.shape, 'mask shape')
                return SCompact(idx, self.frozen_getter(a), a.dtype)
            if idx.dtype == 'int' and a.ndim == 1 and idx.ndim == 1:
                # fancy read: copy
                n = a.n
                k = ctx.fresh('fi', IntS)
                ctx.add_iterm(k)
                ok = z3.Implies(z3.And(k >= 0, k < tz(idx.n)),
                                z3.And(tz(idx.get(k)) >= -tz(n), tz(idx.get(k)) < tz(n)))
                ctx.oblige('bounds', 'fancy index within bounds', ok)
                g = self.frozen_getter(a)

                ig = npm.fz(idx)

                def elem(i):
                    j = tz(ig(i))
                    return g(z3.If(j < 0, j + tz(n), j))
                return npm.new_arr(ctx, idx.shape, elem, a.dtype)
            raise Unsupported('array index of dtype %s' % idx.dtype)
        if isinstance(idx, tuple) and a.ndim == 2 and len(idx) == 2 and all(
                isinstance(x, SArr) and x.dtype == 'int' and x.ndim == 1 for x in idx):
            rg, cg = self.frozen_getter(idx[0]), self.frozen_getter(idx[1])
            npm.shape_eq(ctx, idx[0].shape, idx[1].shape, 'pair index shapes')
            g = self.frozen_getter(a)
            return npm.new_arr(ctx, idx[0].shape, lambda k: g(tz(rg(k)), tz(cg(k))), a.dtype)
        if isinstance(idx, tuple) and a.ndim == 2 and len(idx) == 2:
            i, j = idx
            full = slice(None)
            if (isinstance(i, int) or is_int_term(i)) and (isinstance(j, int) or is_int_term(j)):
                return a.get(self.norm_index(i, a.shape[0]), self.norm_index(j, a.shape[1]))
            if isinstance(i, slice) and i == full and (isinstance(j, int) or is_int_term(j)):
                c = self.norm_index(j, a.shape[1])
                return a.view((a.shape[0],), lambda r: (r, c),
                              lambda r, cc: (scalar_cmp('==', cc, c), (r,)))
            if isinstance(j, slice) and j == full and (isinstance(i, int) or is_int_term(i)):
                r = self.norm_index(i, a.shape[0])
                return a.view((a.shape[1],), lambda c: (r, c),
                              lambda rr, c: (scalar_cmp('==', rr, r), (c,)))
            if isinstance(i, slice) and isinstance(j, slice) and i == full and j == full:
                return a
            if isinstance(i, slice) and isinstance(j, slice):
                (lo0, m0), (lo1, m1) = self.slice_bounds(i, a.shape[0]), self.slice_bounds(j, a.shape[1])
                return a.view((m0, m1), lambda r, c: (scalar_arith('+', lo0, r), scalar_arith('+', lo1, c)),
                              lambda r, c: (True, (scalar_arith('-', r, lo0), scalar_arith('-', c, lo1))))
        raise Unsupported('array index %r' % (idx,))

    def slice_bounds(self, sl, n):
        """(start, length) of a step-1 slice over an axis of extent n (python clamping)"""
        if sl.step is not None and not (isinstance(sl.step, int) and sl.step == 1):
            raise Unsupported('slice step != 1')
        tmp = npm.new_arr(self.ctx, (n,), lambda i: 0, 'int', 'axis')
        v = npm.slice_view(self.ctx, tmp, sl)
        if v is tmp:
            return 0, n
        lo = v.sidx((0,))[0]
        return lo, v.n

    def setitem(self, base, idx, v):
        ctx = self.ctx
        if isinstance(base, dict):
            if not is_concrete(idx):
                raise Unsupported('symbolic dict key store')
            base[idx] = v
            return
        if isinstance(base, list):
            if isinstance(idx, int):
                if not -len(base) <= idx < len(base):
                    raise PyRaise('IndexError')
                base[idx] = v
                return
            raise Unsupported('list store with symbolic index')
        if isinstance(base, SObj):
            self.call_method(base, '__setitem__', [idx, v], {})
            return
        if isinstance(base, ArrFlat):
            base, idx = base.arr, slice(None) if idx == slice(None) else idx
            if base.ndim != 1:
                raise Unsupported('.flat store on n-d array')
        if isinstance(base, SArr):
            return self.arr_setitem(base, idx, v)
        raise Unsupported('subscript store on %r' % (base,))

    def arr_setitem(self, a, idx, v):
        ctx = self.ctx
        if isinstance(v, ArrFlat):
            if v.arr.ndim != 1:
                raise Unsupported('.flat of n-d array as value')
            v = v.arr
        if isinstance(idx, tuple) and len(idx) == 1 and a.ndim == 1:
            idx = idx[0]
        if isinstance(v, SCompact) and isinstance(idx, SWhere) and a.ndim == 1 and v.mask is idx.mask:
            # a[np.where(m)] = <compaction over the same m>
            return self.arr_setitem(a, idx.mask, v)
        if isinstance(v, SCompact) and not (isinstance(idx, SArr) and v.mask is idx):
            raise Unsupported('store of compaction')
        if isinstance(v, (Opaque, SObj)) or v is None:
            raise Unsupported('store of opaque value into array')
        if isinstance(idx, tuple) and len(idx) == 1 and a.ndim == 1:
            idx = idx[0]
        if idx is Ellipsis or (isinstance(idx, slice) and a.ndim > 1 and idx == slice(None)):
            target = a
        elif isinstance(idx, slice):
            target = npm.slice_view(ctx, a, idx)
        elif isinstance(idx, int) or is_int_term(idx):
            if a.ndim == 1:
                j = self.norm_index(idx, a.n)
                if isinstance(v, SArr):
                    raise Unsupported('array stored into element')
                npm.arr_write(ctx, a, lambda i: scalar_cmp('==', i, j), lambda i: v)
                return
            target = self.arr_getitem(a, idx)
        elif isinstance(idx, SCompact) and idx.dtype == 'int' and a.ndim == 1 and not isinstance(v, (SArr, SCompact)):
            # a[rows[mask]] = constant (duplicates are harmless for a constant): position r is written iff some selected k
            # has rows[k] == r.  The existential is a Skolem witness function w with: selected k => w picks a selected
            # index with the same target (universal fact), and `written(r)` := w(r) is selected and targets r.
            m = idx.mask.n
            iv, mg = idx.val, idx.mget
            w = ctx.fresh_fun('wit', IntS, IntS)
            nn = a.n

            def tgt(k):
                j = tz(iv(k))
                return z3.If(j < 0, j + tz(nn), j)

            def written(r):
                ctx.add_iterm(w(tz(r)))
                return z3.And(w(tz(r)) >= 0, w(tz(r)) < tz(m), b2z(mg(w(tz(r)))), tgt(w(tz(r))) == tz(r))
            ctx.add_universal(lambda t: z3.Implies(z3.And(t >= 0, t < tz(m), b2z(mg(t))), written(tgt(t))))
            kk = ctx.fresh('ck', IntS)
            ctx.add_iterm(kk)
            ctx.oblige('bounds', 'compacted fancy store index within bounds',
                       z3.Implies(z3.And(kk >= 0, kk < tz(m), b2z(mg(kk))), z3.And(tz(iv(kk)) >= -tz(nn), tz(iv(kk)) < tz(nn))))
            npm.arr_write(ctx, a, lambda r: written(r), lambda r: v)
            return
        elif isinstance(idx, SWhere) and a.ndim == 1:
            return self.arr_setitem(a, idx.mask, self.where_rhs(idx, v))
        elif isinstance(idx, SArr) and idx.dtype == 'bool' and a.ndim == 1:
            npm.shape_eq(ctx, a.shape, idx.shape, 'mask shape')
            if isinstance(v, SCompact) and v.mask is idx:
                mget = self.frozen_getter(idx)
                vv = v.val
                npm.arr_write(ctx, a, lambda i: mget(i), lambda i: vv(i))
                return
            if isinstance(v, SArr):
                raise Unsupported('mask store of array value')
            mget = self.frozen_getter(idx)
            npm.arr_write(ctx, a, lambda i: mget(i), lambda i: v)
            return
        elif isinstance(idx, SArr) and idx.dtype == 'int' and a.ndim == 1 and idx.ndim == 1:
            return self.fancy_store(a, idx, v)
        elif isinstance(idx, tuple) and a.ndim == 2 and len(idx) == 2 and isinstance(idx[0], slice) and \
                idx[0] == slice(None) and isinstance(idx[1], SArr) and idx[1].dtype == 'int' and idx[1].ndim == 1:
            return self.col_fancy_store(a, idx[1], v)
        elif isinstance(idx, tuple) and a.ndim == 2 and len(idx) == 2 and isinstance(idx[0], SArr) and \
                isinstance(idx[1], SArr) and idx[0].dtype == 'int' and idx[1].dtype == 'int':
            return self.pair_fancy_store(a, idx[0], idx[1], v)
        elif isinstance(idx, tuple) and a.ndim == 2 and len(idx) == 2 and isinstance(idx[0], SArr) and idx[0].dtype == 'int' and \
                idx[0].ndim == 1 and (isinstance(idx[1], int) or is_int_term(idx[1])):
            # a[rows, j] = v : pairs (rows[k], j)
            j = self.norm_index(idx[1], a.shape[1])
            return self.pair_fancy_store(a, idx[0], npm.new_arr(ctx, idx[0].shape, lambda k: j, 'int', 'constcol'), v)
        elif isinstance(idx, tuple) and a.ndim == 2 and len(idx) == 2 and isinstance(idx[1], SArr) and idx[1].dtype == 'int' and \
                idx[1].ndim == 1 and (isinstance(idx[0], int) or is_int_term(idx[0])):
            # a[i, cols] = v : pairs (i, cols[k])
            i = self.norm_index(idx[0], a.shape[0])
            return self.pair_fancy_store(a, npm.new_arr(ctx, idx[1].shape, lambda k: i, 'int', 'constrow'), idx[1], v)
        elif isinstance(idx, tuple):
            target = self.arr_getitem(a, idx)
            if not isinstance(target, SArr):
                # scalar element of 2-d
                i, j = idx
                ii, jj = self.norm_index(i, a.shape[0]), self.norm_index(j, a.shape[1])
                npm.arr_write(ctx, a, lambda r, c: zand(scalar_cmp('==', r, ii),
                                                        scalar_cmp('==', c, jj)),
                              lambda r, c: v)
                return
        else:
            raise Unsupported('array store index %r' % (idx,))
        if isinstance(v, SArr):
            npm.shape_eq(ctx, target.shape, v.shape, 'store shape')
            g = self.frozen_getter(v)
            npm.arr_write(ctx, target, None, lambda *ix: g(*ix))
        else:
            npm.arr_write(ctx, target, None, lambda *ix: v)

    def col_fancy_store(self, a, idx, v):
        """a[:, idx] = v  (2-d; idx duplicate-free: obligation)"""
        ctx = self.ctx
        nc, m = a.shape[1], idx.n
        iget = self.frozen_getter(idx)
        k1, k2 = ctx.fresh('k1', IntS), ctx.fresh('k2', IntS)
        ctx.add_iterm(k1)
        ctx.add_iterm(k2)
        pos = lambda k: tz(iget(k))
        rng = lambda k: z3.And(k >= 0, k < tz(m))
        ctx.oblige('bounds', 'column index within bounds', z3.Implies(rng(k1), z3.And(pos(k1) >= 0, pos(k1) < tz(nc))))
        ctx.oblige('pre@callee', 'column index duplicate-free',
                   z3.Implies(z3.And(rng(k1), rng(k2), k1 != k2), pos(k1) != pos(k2)))
        inv = ctx.fresh_fun('cinv', IntS, IntS)
        ctx.add_universal(lambda t: z3.Implies(rng(t), inv(pos(t)) == t))
        if isinstance(v, SArr):
            if v.ndim != 2:
                raise Unsupported('column store of non-2d value')
            npm.shape_eq(ctx, (a.shape[0], m), v.shape, 'column store shape')
            vg = self.frozen_getter(v)
        else:
            vg = lambda r, c: v
        def region(r, c):
            # the preimage of a column is an index term: existential clauses over the index array
            # (any(j == idx[k] ...)) are instantiated there
            ctx.add_iterm(inv(tz(c)))
            return z3.And(rng(inv(tz(c))), pos(inv(tz(c))) == tz(c))
        npm.arr_write(ctx, a, region, lambda r, c: vg(r, inv(tz(c))))

    def pair_fancy_store(self, a, rows, cols, v, combine=None):
        """a[rows, cols] = v  (2-d; (row, col) pairs duplicate-free: obligation)"""
        ctx = self.ctx
        m = rows.n
        npm.shape_eq(ctx, rows.shape, cols.shape, 'pair index shapes')
        rg, cg = self.frozen_getter(rows), self.frozen_getter(cols)
        k1, k2 = ctx.fresh('k1', IntS), ctx.fresh('k2', IntS)
        ctx.add_iterm(k1)
        ctx.add_iterm(k2)
        rng = lambda k: z3.And(k >= 0, k < tz(m))
        ctx.oblige('bounds', 'pair index within bounds',
                   z3.Implies(rng(k1), z3.And(tz(rg(k1)) >= 0, tz(rg(k1)) < tz(a.shape[0]), tz(cg(k1)) >= 0, tz(cg(k1)) < tz(a.shape[1]))))
        ctx.oblige('pre@callee', '(row, col) pairs duplicate-free',
                   z3.Implies(z3.And(rng(k1), rng(k2), k1 != k2), z3.Or(tz(rg(k1)) != tz(rg(k2)), tz(cg(k1)) != tz(cg(k2)))))
        inv = ctx.fresh_fun('pinv', IntS, IntS, IntS)
        ctx.add_universal(lambda t: z3.Implies(rng(t), inv(tz(rg(t)), tz(cg(t))) == t))
        if isinstance(v, SArr):
            npm.shape_eq(ctx, rows.shape, v.shape, 'pair store shape')
            vg = self.frozen_getter(v)
        else:
            vg = lambda k: v
        def region(r, c):
            ctx.add_iterm(inv(tz(r), tz(c)))
            return z3.And(rng(inv(tz(r), tz(c))), tz(rg(inv(tz(r), tz(c)))) == tz(r), tz(cg(inv(tz(r), tz(c)))) == tz(c))
        npm.arr_write(ctx, a, region, lambda r, c: vg(inv(tz(r), tz(c))), combine)

    def fancy_store(self, a, idx, v):
        """a[idx] = v for an int index array: requires idx injective (obligation), then uses an
        inverse function (DESIGN 2.3: 'last writer wins' is only modelled for duplicate-free)."""
        ctx = self.ctx
        n, m = a.n, idx.n
        iget = self.frozen_getter(idx)
        k1, k2 = ctx.fresh('k1', IntS), ctx.fresh('k2', IntS)
        ctx.add_iterm(k1)
        ctx.add_iterm(k2)

        def pos(k):
            j = tz(iget(k))
            return z3.If(j < 0, j + tz(n), j)
        rng = lambda k: z3.And(k >= 0, k < tz(m))
        ctx.oblige('bounds', 'fancy store index within bounds',
                   z3.Implies(rng(k1), z3.And(pos(k1) >= 0, pos(k1) < tz(n))))
        if not isinstance(v, SArr):
            # a[idx] = scalar: duplicates in idx are harmless.  The written region {j : exists k. pos(k) == j} is described
            # with a choice function w (w(j) is SOME preimage of j whenever j has one): no injectivity needed.
            w = ctx.fresh_fun('wit', IntS, IntS)
            fact = lambda t: z3.Implies(rng(t), z3.And(rng(w(pos(t))), pos(w(pos(t))) == pos(t)))
            ctx.add_universal(fact)
            if getattr(idx, 'inv', None) is not None and idx.ndim == 1:
                # idx is itself a view (e.g. indices[a:b]): the same fact instantiated at the view index of every
                # STORE index term in play (a clause usually quantifies over positions of the underlying array)
                def fact_at_store(s_, _inv=idx.inv):
                    c_, vi = _inv(s_)
                    h = fact(tz(vi[0]))
                    return h if (isinstance(c_, bool) and c_) else z3.Implies(b2z(c_), h)
                ctx.add_universal(fact_at_store)

            def region_c(j):
                j = tz(j)
                ctx.add_iterm(w(j))
                return z3.And(rng(w(j)), pos(w(j)) == j)
            npm.arr_write(ctx, a, region_c, lambda j: v)
            return
        ctx.oblige('pre@callee', 'fancy store index duplicate-free',
                   z3.Implies(z3.And(rng(k1), rng(k2), k1 != k2), pos(k1) != pos(k2)))
        inv = ctx.fresh_fun('inv', IntS, IntS)
        ctx.add_universal(lambda t: z3.Implies(rng(t), inv(pos(t)) == t))
        if getattr(idx, 'inv', None) is not None and idx.ndim == 1:
            def inv_at_store(s_, _inv=idx.inv):
                c_, vi = _inv(s_)
                t_ = tz(vi[0])
                h = z3.Implies(rng(t_), inv(pos(t_)) == t_)
                return h if (isinstance(c_, bool) and c_) else z3.Implies(b2z(c_), h)
            ctx.add_universal(inv_at_store)
        if isinstance(v, SArr):
            npm.shape_eq(ctx, idx.shape, v.shape, 'fancy store shape')
            vg = self.frozen_getter(v)
        else:
            vg = lambda i: v

        def region(j):
            j = tz(j)
            ctx.add_iterm(inv(j))
            return z3.And(rng(inv(j)), pos(inv(j)) == j)
        npm.arr_write(ctx, a, region, lambda j: vg(inv(tz(j))))

    # -- calls ---------------------------------------------------------------------------------
    def ex_Call(self, e, env):
        f = e.func
        ftxt = ast.unparse(f)
        if isinstance(f, ast.Name) and f.id == 'old' and 'old' not in env:
            if self.old_env is None:
                raise Unsupported('old() outside a two-state clause')
            oe = dict(env)
            oe.update(self.old_env)
            for k, v in env.items():
                if k not in self.old_env or k in self.bound_vars:
                    oe[k] = v
            return self.eval(e.args[0], oe)
        # no-op calls (printing / warnings): arguments are not evaluated
        if isinstance(f, ast.Name) and f.id in NOOP_CALLS:
            return None
        if isinstance(f, ast.Attribute) and f.attr in ('_mpi_print', '_mpi_print_header'):
            return None
        # assumed (external/opaque) contracts matched by call text
        if self.contract is not None and ftxt in self.contract.assumed:
            args = [self.eval(a, env) for a in e.args if not isinstance(a, ast.Starred)]
            kws = {k.arg: self.eval(k.value, env) for k in e.keywords if k.arg is not None}
            return self.apply_assumed(self.contract.assumed[ftxt], ftxt, env, args, kws)
        if isinstance(f, ast.Name) and f.id == 'super':
            raise Unsupported('bare super()')
        if isinstance(f, ast.Attribute) and isinstance(f.value, ast.Call) and \
                isinstance(f.value.func, ast.Name) and f.value.func.id == 'super':
            return self.super_call(f.attr, e, env)
        # python evaluates the callee expression before the arguments
        if isinstance(f, ast.Attribute):
            base = self.eval(f.value, env)
            args, kwargs = self.eval_args(e, env)
            return self.call_attr(base, f.attr, args, kwargs, ftxt)
        fv = self.eval(f, env)
        args, kwargs = self.eval_args(e, env)
        return self.call_value(fv, args, kwargs, ftxt)

    def eval_args(self, e, env):
        args = []
        for a in e.args:
            if isinstance(a, ast.Starred):
                args.extend(self.unstar(self.eval(a.value, env)))
            else:
                args.append(self.eval(a, env))
        kwargs = {}
        for k in e.keywords:
            if k.arg is None:
                d = self.eval(k.value, env)
                if not isinstance(d, dict):
                    raise Unsupported('** of non-dict')
                kwargs.update(d)
            else:
                kwargs[k.arg] = self.eval(k.value, env)
        return args, kwargs

    def super_call(self, name, e, env):
        args, kwargs = self.eval_args(e, env)
        fr = self.frame
        selfv = env.get('self')
        mod, cname = fr.mod, fr.cls
        for b in mod.class_bases(cname):
            r = extract.resolve_method(mod, b, name, self.overrides)
            if r:
                m2, fn, c2 = r
                return self.invoke_user(m2, c2, fn, [selfv] + args, kwargs, 'super().' + name)
        raise Unsupported('super().%s not found' % name)

    def call_attr(self, base, attr, args, kwargs, ftxt):
        if isinstance(base, SObj):
            if attr in base.attrs:
                return self.call_value(base.attrs[attr], args, kwargs, ftxt)
            return self.call_method(base, attr, args, kwargs, ftxt)
        return self.call_value(self.getattr(base, attr), args, kwargs, ftxt)

    def call_method(self, obj, name, args, kwargs, ftxt=None):
        r = self.find_method(obj, name)
        if r is None:
            raise Unsupported('method %s.%s not found' % (obj.cls, name))
        mod, fn, cname = r
        return self.invoke_user(mod, cname, fn, [obj] + list(args), kwargs,
                                ftxt or ('%s.%s' % (obj.cls, name)))

    def call_value(self, fv, args, kwargs, ftxt):
        if isinstance(fv, Closure):
            return fv.fn(args, kwargs)
        if isinstance(fv, SCallable):
            return fv.ret
        if isinstance(fv, BoundMethod):
            return self.call_method(fv.obj, fv.name, args, kwargs, ftxt)
        if isinstance(fv, FuncRef):
            return self.invoke_user(fv.mod, fv.cls, fv.fn, args, kwargs, ftxt)
        if isinstance(fv, Builtin):
            return self.call_builtin(fv.name, args, kwargs)
        if isinstance(fv, PyType):
            return self.call_builtin(fv.name, args, kwargs)
        if isinstance(fv, ExcClass):
            return ExcInst(fv.name, tuple(args))
        if isinstance(fv, ModAttr):
            return self.call_module(fv, args, kwargs)
        if isinstance(fv, PyMethod):
            return self.call_pymethod(fv.obj, fv.name, args, kwargs)
        if isinstance(fv, ClassRef):
            return self.construct(fv, args, kwargs)
        if isinstance(fv, Opaque):
            raise Unsupported('call of opaque %s' % fv.name)
        raise Unsupported('call of %r (%s)' % (fv, ftxt))

    def construct(self, cref, args, kwargs):
        """Instantiate a repo class whose __init__ is listed in `inline` (plain attribute setup)."""
        c = self.contract
        if c is not None and cref.name in c.defs.get('opaque_classes', ()):
            return Opaque(cref.name)
        if cref.mod is None or c is None or not (cref.name in c.inline or (cref.name + '.__init__') in c.inline):
            raise Unsupported('construction of %s (list the class in inline to allow it)' % cref.name)
        obj = SObj(cref.name, {})
        self.CLASS_HOME.setdefault(cref.name, cref.mod.relpath)
        r = extract.resolve_method(cref.mod, cref.name, '__init__', self.overrides)
        if r is not None:
            mod, fn, cname = r
            self.inlined.append(('%s::%s.__init__' % (mod.relpath, cname), extract.source_hash(mod, fn)))
            self.run_function(mod, cname, fn, [obj] + list(args), kwargs)
        elif args or kwargs:
            raise PyRaise('TypeError')
        return obj

    def invoke_user(self, mod, cname, fn, args, kwargs, ftxt):
        r = self._invoke_user(mod, cname, fn, args, kwargs, ftxt)
        c = self.contract
        if c is not None and fn.name in c.ghost_on_result:
            c.ghost_on_result[fn.name](self, None, r)
        return r

    def _invoke_user(self, mod, cname, fn, args, kwargs, ftxt):
        """Call of a function whose source is in /repo: modular (contract) or inlined."""
        qual = ('%s.%s' % (cname, fn.name)) if cname else fn.name
        target = '%s::%s' % (mod.relpath, qual)
        c = self.contract
        if c is not None and fn.name in c.ghost_on_call:
            self.ctx.ghost.update(c.ghost_on_call[fn.name])
        if c is not None and (target in c.inline or qual in c.inline or fn.name in c.inline):
            self.inlined.append((target, extract.source_hash(mod, fn)))
            decos = [d.id for d in fn.decorator_list if isinstance(d, ast.Name)]
            if 'staticmethod' in decos and cname and args and isinstance(args[0], SObj):
                args = args[1:]
            return self.run_function(mod, cname, fn, args, kwargs)
        cands = self.registry.get(target)
        if cands:
            return self.apply_contract(cands, mod, cname, fn, args, kwargs, ftxt)
        # A callee with neither a contract nor an inline directive (a helper introduced after the contracts were
        # written): its REAL body is executed symbolically in place (recorded as auto-inlined in the evidence) instead of
        # leaving the caller undecided.  Only callees of the file of the function under contract, to a small depth.
        if c is not None and c.defs.get('auto_inline', True) and mod.relpath == c.target.split('::')[0] and self._auto_depth < 2:
            self.inlined.append((target + ' [auto-inlined: no contract]', extract.source_hash(mod, fn)))
            decos = [d.id for d in fn.decorator_list if isinstance(d, ast.Name)]
            if 'staticmethod' in decos and cname and args and isinstance(args[0], SObj):
                args = args[1:]
            self._auto_depth += 1
            try:
                return self.run_function(mod, cname, fn, args, kwargs)
            finally:
                self._auto_depth -= 1
        raise Unsupported('call to %s: no contract and not inlined' % target)

    # -- modular application of a callee contract --------------------------------------------
    def apply_contract(self, cands, mod, cname, fn, args, kwargs, ftxt):
        from .verify import apply_callee_contract
        return apply_callee_contract(self, cands, mod, cname, fn, args, kwargs, ftxt)

    def apply_assumed(self, a, ftxt, env, args=(), kwargs=None):
        """Assumed contract: havoc modifies, fresh result, assume ensures; may raise."""
        ctx = self.ctx
        self.assumed_used.append(ftxt)
        self.last_assumed_args = list(args)       # actual arguments, for ghost callbacks
        self.last_assumed_kwargs = dict(kwargs or {})
        cenv = self.clause_env(env)
        for i, v in enumerate(args):
            cenv['arg%d' % i] = v
        for k, v in (kwargs or {}).items():
            cenv['kw_' + k] = v
        for r in a.requires:
            self.prove_clauses([r], cenv, 'pre@callee', ftxt)
        if a.may_raise:
            for et in a.may_raise:
                d = ctx.branch(ctx.fresh('raises_%s' % et, BoolS))
                if d:
                    ctx.ghost['raised_by:' + ftxt] = True
                    if a.ghost:
                        a.ghost(self, env, None)       # the call happened (and raised)
                    raise PyRaise(et, ExcInst(et))
        pre = snapshot(cenv, {})
        for path in a.modifies:
            self.havoc_target(ast.parse(path, mode='eval').body, cenv)
        for path, sp in getattr(a, 'sets', {}).items():
            from .verify import instantiate
            fresh_v = instantiate(self, sp, ctx.fresh_name('set'), {}, self.sizes)
            self.assign(ast.parse(path, mode='eval').body, fresh_v, cenv)
        res = None
        if a.returns_expr is not None:
            res = self.eval(self.parse_clause(a.returns_expr), cenv)
        if a.returns is not None:
            from .verify import instantiate
            res = instantiate(self, a.returns, ctx.fresh_name('ret'), {}, self.sizes)
            ctx.aux.append((ftxt, res))
        cenv2 = self.clause_env(env)
        for i, v in enumerate(args):
            cenv2['arg%d' % i] = v
        for k, v in (kwargs or {}).items():
            cenv2['kw_' + k] = v
        cenv2['result'] = res
        saved = self.old_env
        self.old_env = pre
        try:
            self.assume_clauses(a.ensures, cenv2)
        finally:
            self.old_env = saved
        if a.ghost:
            a.ghost(self, env, res)
        return res

    # -- clause evaluation (contracts are written once, read twice: here symbolically) --------
    def clause_env(self, env):
        ce = dict(self.sizes)
        ce.update(self.ghost_env)
        ce.update(env)
        return ce

    sizes = {}
    ghost_env = {}
    bound_vars = ()
    definitional_ok = False
    defined_results = set()
    pure_nonneg = True     # clause indices are written non-negative (documented convention)

    def parse_clause(self, txt):
        return ast.parse(txt.strip(), mode='eval').body

    def prove_clauses(self, clauses, env, kind, label):
        for cl in clauses:
            node = self.parse_clause(cl)
            for sub in self.conjuncts(node):
                self.pure += 1
                mark = len(self.ctx.pc)
                try:
                    g = self.tr(sub, env, +1)
                    side = self.ctx.pc[mark:]
                    del self.ctx.pc[mark:]
                except PyRaise as e:
                    # the clause cannot even be evaluated on this state (e.g. the result has another rank than the
                    # contract describes): it does not hold
                    side = []
                    del self.ctx.pc[mark:]
                    g = False
                finally:
                    self.pure -= 1
                goal = z3.Implies(z3.And(*side), b2z(g)) if side else b2z(g)
                self.ctx.oblige(kind, '%s: %s' % (label, ast.unparse(sub)), goal,
                                {'clause': ast.unparse(sub)})

    def assume_clauses(self, clauses, env):
        for cl in clauses:
            node = self.parse_clause(cl)
            for sub in self.conjuncts(node):
                self.pure += 1
                try:
                    self.assume_clause(sub, env)
                finally:
                    self.pure -= 1

    def conjuncts(self, node):
        if isinstance(node, ast.BoolOp) and isinstance(node.op, ast.And):
            out = []
            for v in node.values:
                out.extend(self.conjuncts(v))
            return out
        return [node]

    def quant_parts(self, node):
        """all(elt for i in range(..)) / any(...) -> (kind, elt, var, lo, hi, ifs) or None"""
        if isinstance(node, ast.Call) and isinstance(node.func, ast.Name) and \
                node.func.id in ('all', 'any') and len(node.args) == 1 and \
                isinstance(node.args[0], ast.GeneratorExp):
            g = node.args[0]
            if len(g.generators) == 1 and isinstance(g.generators[0].target, ast.Name):
                c = g.generators[0]
                it = c.iter
                if isinstance(it, ast.Call) and isinstance(it.func, ast.Name) and it.func.id == 'range':
                    return node.func.id, g.elt, c.target.id, it.args, c.ifs
        return None

    def range_bounds(self, rargs, env):
        vals = [self.eval(a, env) for a in rargs]
        if len(vals) == 1:
            return 0, vals[0]
        if len(vals) == 2:
            return vals[0], vals[1]
        raise Unsupported('range with step in clause')

    def assume_clause(self, node, env):
        ctx = self.ctx
        q = self.quant_parts(node)
        if q and q[0] == 'all':
            _, elt, var, rargs, ifs = q
            lo, hi = self.range_bounds(rargs, env)
            interp = self
            # definitional fast path: all(result[i] == rhs for i in range(len(result))) on the fresh
            # result array of a callee contract: install rhs as its element function (equivalent to
            # the universal fact, but usable inside quantified reasoning about sums)
            if (self.definitional_ok and not ifs and isinstance(elt, ast.Compare) and len(elt.ops) == 1
                    and isinstance(elt.ops[0], ast.Eq) and isinstance(elt.left, ast.Subscript)
                    and isinstance(elt.left.value, ast.Name) and elt.left.value.id == 'result'
                    and isinstance(elt.left.slice, ast.Name) and elt.left.slice.id == var
                    and isinstance(env.get('result'), SArr) and env['result'].ndim == 1
                    and isinstance(lo, int) and lo == 0):
                res = env['result']
                same_n = (is_z3(hi) and is_z3(res.n) and hi.get_id() == res.n.get_id()) or \
                    (isinstance(hi, int) and isinstance(res.n, int) and hi == res.n)
                uses_result = any(isinstance(nd, ast.Name) and nd.id == 'result' for nd in ast.walk(elt.comparators[0]))
                if same_n and not uses_result and id(res) not in self.defined_results:
                    self.defined_results.add(id(res))
                    env_s = snapshot(dict(env), {})
                    saved_state2 = (interp.old_env, interp.sizes, interp.ghost_env, list(interp.frames))
                    rhs_node = elt.comparators[0]

                    def elemf(i):
                        e2 = dict(env_s)
                        e2[var] = i
                        cur = (interp.old_env, interp.sizes, interp.ghost_env, interp.frames)
                        interp.old_env, interp.sizes, interp.ghost_env = saved_state2[:3]
                        interp.frames = list(saved_state2[3])
                        interp.pure += 1
                        interp.ctx.frozen_iterms += 1
                        try:
                            return interp.eval(rhs_node, e2)
                        finally:
                            interp.pure -= 1
                            interp.ctx.frozen_iterms -= 1
                            interp.old_env, interp.sizes, interp.ghost_env, interp.frames = cur
                    res.store.f = MF(elemf)
                    return

            # a concrete small range is simply expanded (its instances are facts about the state now)
            if isinstance(lo, int) and isinstance(hi, int) and not isinstance(lo, bool) and hi - lo <= 32:
                for t_ in range(lo, hi):
                    e2 = dict(env)
                    e2[var] = t_
                    conds_ = [self.as_bool(self.eval(c, e2)) for c in ifs]
                    body_ = self.tr(elt, e2, -1)
                    ctx.assume(zor(znot(zand(*conds_)), body_) if conds_ else body_)
                return
            # the fact is instantiated lazily (at VC time): freeze the evaluation context now
            saved_state = (interp.old_env, interp.sizes, interp.ghost_env, list(interp.frames))
            # arrays are mutable: the fact talks about the state *now*, so freeze a snapshot
            env = snapshot(dict(env), {})
            cache = {}

            def U(t):
                key = t.get_id() if is_z3(t) else ('c', t)
                if key in cache:
                    return cache[key][0]
                e2 = dict(env)
                e2[var] = t
                cur = (interp.old_env, interp.sizes, interp.ghost_env, interp.frames)
                interp.old_env, interp.sizes, interp.ghost_env = saved_state[:3]
                interp.frames = list(saved_state[3])
                interp.pure += 1
                interp.ctx.frozen_iterms += 1
                try:
                    conds = [scalar_cmp('<=', lo, t), scalar_cmp('<', t, hi)]
                    for c in ifs:
                        conds.append(interp.as_bool(interp.eval(c, e2)))
                    body = interp.tr(elt, e2, -1)
                finally:
                    interp.pure -= 1
                    interp.ctx.frozen_iterms -= 1
                    interp.old_env, interp.sizes, interp.ghost_env, interp.frames = cur
                r = z3.Implies(b2z(zand(*conds)), b2z(body))
                cache[key] = (r, t)
                return r
            # definitional fast path: all(A[i] == rhs for i in range(len(A))) on a fresh array
            ctx.add_universal(U)
            return
        g = self.tr(node, env, -1)
        ctx.assume(g)

    def tr(self, node, env, pol):
        """Top-level entry: translates and then resolves existential-goal placeholders."""
        if not hasattr(self, '_pending_ex'):
            self._pending_ex = []
            self._tr_depth = 0
        self._tr_depth += 1
        try:
            g = self._tr(node, env, pol)
        finally:
            self._tr_depth -= 1
        if self._tr_depth == 0 and self._pending_ex:
            pend, self._pending_ex = self._pending_ex, []
            if isinstance(g, bool):
                return g
            cands0 = list(self.ctx.iterms)
            g = b2z(g)
            mats = [m for (_, _, m, _, _) in pend]
            for n, (ph, qv, _, lo, hi) in enumerate(pend):
                m = mats[n]
                outs = [z3.substitute(m, (qv, t)) for t in cands0 + [lo, hi]]
                d = z3.Or(*outs) if outs else z3.BoolVal(False)
                g = z3.substitute(g, (ph, d))
                for k in range(n + 1, len(mats)):
                    mats[k] = z3.substitute(mats[k], (ph, d))
        return g

    def _tr(self, node, env, pol):
        """Clause -> formula, polarity aware (pol=+1 to be proved, -1 assumed)."""
        ctx = self.ctx
        if isinstance(node, ast.BoolOp):
            is_and = isinstance(node.op, ast.And)
            parts = []
            for v in node.values:
                p_ = self.tr(v, env, pol)
                if isinstance(p_, bool) and p_ != is_and:
                    return p_           # python short-circuit on a concrete operand
                parts.append(p_)
            return zand(*parts) if is_and else zor(*parts)
        if isinstance(node, ast.UnaryOp) and isinstance(node.op, ast.Not):
            return znot(self.tr(node.operand, env, -pol))
        if isinstance(node, ast.IfExp):
            # `A if c else B` with a CONCRETE condition: the chosen branch is translated as a clause (quantifiers allowed)
            t_ = self.eval(node.test, env)
            if isinstance(t_, bool):
                return self.tr(node.body if t_ else node.orelse, env, pol)
        if isinstance(node, ast.Call) and isinstance(node.func, ast.Name):
            fn = node.func.id
            if fn == 'implies' and len(node.args) == 2:
                a = self.tr(node.args[0], env, -pol)
                if isinstance(a, bool) and not a:
                    return True
                return zor(znot(a), self.tr(node.args[1], env, pol))
            if fn == 'iff' and len(node.args) == 2:
                a1 = self.tr(node.args[0], env, -pol)
                b1 = self.tr(node.args[1], env, pol)
                a2 = self.tr(node.args[0], env, pol)
                b2 = self.tr(node.args[1], env, -pol)
                return zand(zor(znot(a1), b1), zor(znot(b2), a2))
            q = self.quant_parts(node)
            if q:
                kind, elt, var, rargs, ifs = q
                lo, hi = self.range_bounds(rargs, env)
                forall = (kind == 'all')
                skolem = (forall and pol > 0) or ((not forall) and pol < 0)
                if skolem:
                    if getattr(self, '_q_open', 0):
                        # a skolem CONSTANT below an instantiated/quantified variable would have to be a
                        # skolem function of it; refusing keeps both polarities sound
                        raise Unsupported('quantifier alternation in clause')
                    k = ctx.fresh(var, IntS)
                    ctx.add_iterm(k)
                    e2 = dict(env)
                    e2[var] = k
                    conds = [scalar_cmp('<=', lo, k), scalar_cmp('<', k, hi)]
                    for c in ifs:
                        conds.append(self.as_bool(self.eval(c, e2)))
                    body = self.tr(elt, e2, pol)
                    if forall:
                        return zor(znot(zand(*conds)), body)
                    return zand(zand(*conds), body)
                # universal in hypothesis / existential in goal: quantifier + instantiation
                qv = z3.Int(ctx.fresh_name('q_' + var))
                e2 = dict(env)
                e2[var] = qv
                conds = [scalar_cmp('<=', lo, qv), scalar_cmp('<', qv, hi)]
                for c in ifs:
                    conds.append(self.as_bool(self.eval(c, e2)))
                self._q_open = getattr(self, '_q_open', 0) + 1
                try:
                    body = self.tr(elt, e2, pol)
                finally:
                    self._q_open -= 1
                if forall:
                    return z3.ForAll([qv], z3.Implies(b2z(zand(*conds)), b2z(body)))
                # existential goal: candidates = known index terms + bounds.  The index terms are those in
                # play when the WHOLE clause has been translated (a later conjunct may introduce the witness,
                # e.g. the preimage of a fancy-store column), hence the placeholder resolved by tr().
                ph = z3.Bool(ctx.fresh_name('ex'))
                self._pending_ex.append((ph, qv, b2z(zand(zand(*conds), body)), tz(lo), tz(scalar_arith('-', hi, 1))))
                return ph
        v = self.eval(node, env)
        return self.as_bool(v)

    # -- builtins / modules ----------------------------------------------------------------------
    def call_builtin(self, name, args, kwargs):
        from .builtins import call_builtin
        return call_builtin(self, name, args, kwargs)

    def call_module(self, fv, args, kwargs):
        from .builtins import call_module
        return call_module(self, fv, args, kwargs)

    def call_pymethod(self, obj, name, args, kwargs):
        from .builtins import call_pymethod
        return call_pymethod(self, obj, name, args, kwargs)

    def ex_ListComp(self, e, env):
        # a comprehension over an opaque container is an opaque list (its elements are never
        # inspected; typical use: building a message)
        if len(e.generators) == 1 and not e.generators[0].ifs:
            itv = self.eval(e.generators[0].iter, env)
            if isinstance(itv, Opaque):
                return Opaque('listcomp')
        return list(self.comp(e, env))

    def ex_GeneratorExp(self, e, env):
        return list(self.comp(e, env))

    def ex_SetComp(self, e, env):
        return set(self.comp(e, env))

    def ex_DictComp(self, e, env):
        out = {}
        for env2 in self.comp_envs(e.generators, env):
            out[self.eval(e.key, env2)] = self.eval(e.value, env2)
        return out

    def comp(self, e, env):
        for env2 in self.comp_envs(e.generators, env):
            yield self.eval(e.elt, env2)

    def comp_envs(self, gens, env):
        if not gens:
            yield env
            return
        g = gens[0]
        it = self.eval(g.iter, env)
        conc = self.concrete_iter(it)
        if conc is None:
            raise Unsupported('comprehension over symbolic sequence')
        for x in conc:
            env2 = dict(env)
            self.assign(g.target, x, env2)
            if all(self.truth(self.eval(c, env2)) for c in g.ifs):
                yield from self.comp_envs(gens[1:], env2)

    def ex_Starred(self, e, env):
        raise Unsupported('starred expression')

    def ex_NamedExpr(self, e, env):
        v = self.eval(e.value, env)
        self.assign(e.target, v, env)
        return v


class FuncRef:
    def __init__(self, mod, cls, fn):
        self.mod, self.cls, self.fn = mod, cls, fn


class ClassRef:
    def __init__(self, mod, name):
        self.mod, self.name = mod, name


class Builtin:
    def __init__(self, name):
        self.name = name


class ModAttr:
    def __init__(self, base, attr):
        self.base, self.attr = base, attr

    def path(self):
        b = self.base
        p = b.path() if isinstance(b, ModAttr) else b.name
        return p + '.' + self.attr


class PyMethod:
    def __init__(self, obj, name):
        self.obj, self.name = obj, name


class ArrFlat:
    def __init__(self, arr):
        self.arr = arr


class SymRange:
    def __init__(self, lo, hi, step=1):
        self.lo, self.hi, self.step = lo, hi, step

    def concrete(self):
        return all(isinstance(x, int) for x in (self.lo, self.hi, self.step))


BUILTINS = {'locals', 'len', 'range', 'isinstance', 'abs', 'min', 'max', 'float', 'int', 'bool', 'str',
            'enumerate', 'zip', 'sorted', 'list', 'tuple', 'dict', 'set', 'sum', 'any', 'all',
            'getattr', 'hasattr', 'type', 'repr', 'id', 'callable', 'reversed', 'slice', 'iter',
            'next', 'frozenset', 'complex', 'round', 'divmod', 'issubclass', 'setattr', 'map',
            'old', 'implies', 'iff', 'ite', 'Sum', 'is_none', 'is_inf', 'is_nan', 'same_object',
            'arr_eq', 'ghost', 'fp_finite', 'is_view', 'is_scalar', 'is_vector', 'approx', 'same_fp', 'same_fp_bool', 'exceeds', 'below', 'pow', 'floor', 'approx_h', 'atan2', 'floor_', 'le', 'log_', 'exp_', 'tanh_', 'namedtuple', 'is_integral', 'shares_memory', 'in_pairs'}
