"""NumPy model (DESIGN 2.3): arrays are (shape, element function); element-wise operations build
new element functions, reductions introduce fresh results with defining facts."""
import z3
from fractions import Fraction
from .values import (SArr, SCompact, Store, MF, Cx, Unsupported, PyRaise, is_z3, scalar_arith,
                     scalar_cmp, zabs, zneg, zmax, zmin, zite, zand, zor, znot, b2z, to_cx,
                     is_bool_term, bool_as_num, tz, IntS, RealS, BoolS, FPS, NpInf, Opaque)


def is_arr(x):
    return isinstance(x, (SArr, SCompact))


from .values import fz   # noqa


def shape_eq(ctx, s1, s2, what='shape'):
    """Obligation/assumption-free check that two shapes agree; generates a `shape` obligation
    when it is not syntactically evident."""
    if len(s1) != len(s2):
        raise Unsupported('broadcast between different ranks')
    for a, b in zip(s1, s2):
        if isinstance(a, int) and isinstance(b, int):
            if a != b:
                if a == 1 or b == 1:
                    raise Unsupported('length-1 broadcasting')
                raise PyRaise('ValueError')
            continue
        if is_z3(a) and is_z3(b) and a.get_id() == b.get_id():
            continue
        ctx.oblige('shape', what, tz(a) == tz(b))
        ctx.assume(tz(a) == tz(b))


def new_arr(ctx, shape, fn, dtype='real', name='tmp'):
    return SArr(Store(MF(fn), len(shape), ctx.fresh_name(name)), shape, dtype)


def fresh_arr(ctx, shape, dtype='real', name='arr'):
    """Array of unconstrained elements (uninterpreted function)."""
    nd = len(shape)
    if dtype == 'complex':
        fr = ctx.fresh_fun(name + '_re', *([IntS] * nd + [RealS]))
        fi = ctx.fresh_fun(name + '_im', *([IntS] * nd + [RealS]))
        return SArr(Store(MF(lambda *ix: Cx(fr(*[tz(i) for i in ix]), fi(*[tz(i) for i in ix]))),
                          nd, ctx.fresh_name(name)), shape, 'complex')
    sort = {'real': RealS, 'int': IntS, 'bool': BoolS, 'fp': FPS}[dtype]
    f = ctx.fresh_fun(name, *([IntS] * nd + [sort]))
    return SArr(Store(MF(lambda *ix: f(*[tz(i) for i in ix])), nd, ctx.fresh_name(name)),
                shape, dtype)


def havoc_store(ctx, arr, name='havoc'):
    """Replace the whole backing store of arr by unconstrained elements."""
    nd = arr.store.ndim
    if arr.dtype == 'complex' or arr.part is not None:
        fr = ctx.fresh_fun(name + '_re', *([IntS] * nd + [RealS]))
        fi = ctx.fresh_fun(name + '_im', *([IntS] * nd + [RealS]))
        arr.store.f = MF(lambda *ix: Cx(fr(*[tz(i) for i in ix]), fi(*[tz(i) for i in ix])))
        return
    sort = {'real': RealS, 'int': IntS, 'bool': BoolS, 'fp': FPS}[arr.dtype]
    f = ctx.fresh_fun(name, *([IntS] * nd + [sort]))
    arr.store.f = MF(lambda *ix: f(*[tz(i) for i in ix]))


def result_dtype(op, da, db):
    if op in ('<', '<=', '>', '>=', '==', '!='):
        return 'bool'
    if 'complex' in (da, db):
        return 'complex'
    if op == '/':
        return 'real' if 'fp' not in (da, db) else 'fp'
    if 'fp' in (da, db):
        return 'fp'
    if 'real' in (da, db):
        return 'real'
    if da == 'bool' and db == 'bool':
        return 'int' if op in ('+', '-', '*') else 'bool'
    return 'int'


def scalar_dtype(x):
    if isinstance(x, bool) or is_bool_term(x):
        return 'bool'
    if isinstance(x, int) or (is_z3(x) and z3.is_int(x)):
        return 'int'
    if isinstance(x, Cx):
        return 'complex'
    if is_z3(x) and z3.is_fp(x):
        return 'fp'
    return 'real'


def elementwise(ctx, op, a, b):
    """Binary op with at least one array operand. op arithmetic or comparison."""
    cmp_ = op in ('<', '<=', '>', '>=', '==', '!=')
    f2 = (lambda x, y: scalar_cmp(op, x, y, ctx.fp)) if cmp_ else \
        (lambda x, y: scalar_arith(op, x, y, ctx.fp))
    if isinstance(a, SCompact) or isinstance(b, SCompact):
        ca = a if isinstance(a, SCompact) else None
        cb = b if isinstance(b, SCompact) else None
        if ca is not None and cb is not None:
            if ca.mask is not cb.mask:
                raise Unsupported('element-wise op between compactions over different masks')
            va, vb = ca.val, cb.val
            return SCompact(ca.mask, lambda i: f2(va(i), vb(i)),
                            result_dtype(op, ca.dtype, cb.dtype), ca.mget)
        c = ca or cb
        other = b if ca is not None else a
        if isinstance(other, SArr):
            raise Unsupported('compaction combined with a full array')
        v = c.val
        if ca is not None:
            return SCompact(c.mask, lambda i: f2(v(i), other), result_dtype(op, c.dtype, scalar_dtype(other)), c.mget)
        return SCompact(c.mask, lambda i: f2(other, v(i)), result_dtype(op, scalar_dtype(other), c.dtype), c.mget)
    ga = fz(a) if isinstance(a, SArr) else None
    gb = fz(b) if isinstance(b, SArr) else None
    if isinstance(a, SArr) and isinstance(b, SArr):
        if a.ndim != b.ndim:
            # numpy broadcasting (r,c) op (c,) : row vector broadcast
            if a.ndim == 2 and b.ndim == 1:
                shape_eq(ctx, (a.shape[1],), b.shape)
                return new_arr(ctx, a.shape, lambda i, j: f2(ga(i, j), gb(j)),
                               result_dtype(op, a.dtype, b.dtype))
            if a.ndim == 1 and b.ndim == 2:
                shape_eq(ctx, a.shape, (b.shape[1],))
                return new_arr(ctx, b.shape, lambda i, j: f2(ga(j), gb(i, j)),
                               result_dtype(op, a.dtype, b.dtype))
            raise Unsupported('broadcast between ranks %d and %d' % (a.ndim, b.ndim))
        shape_eq(ctx, a.shape, b.shape)
        return new_arr(ctx, a.shape, lambda *ix: f2(ga(*ix), gb(*ix)),
                       result_dtype(op, a.dtype, b.dtype))
    if isinstance(a, SArr):
        return new_arr(ctx, a.shape, lambda *ix: f2(ga(*ix), b),
                       result_dtype(op, a.dtype, scalar_dtype(b)))
    return new_arr(ctx, b.shape, lambda *ix: f2(a, gb(*ix)),
                   result_dtype(op, scalar_dtype(a), b.dtype))


def map1(ctx, a, fn, dtype=None):
    if isinstance(a, SCompact):
        v = a.val
        return SCompact(a.mask, lambda i: fn(v(i)), dtype or a.dtype, a.mget)
    g = fz(a)
    return new_arr(ctx, a.shape, lambda *ix: fn(g(*ix)), dtype or a.dtype)


def in_range(idx, shape):
    return zand(*[zand(scalar_cmp('<=', 0, i), scalar_cmp('<', i, n)) for i, n in zip(idx, shape)])


def arr_write(ctx, arr, region, valfn, combine=None):
    """In-place update through a view: for every view index ix with region(ix):
    store[imap(ix)] = combine(old, valfn(ix)) (or valfn(ix))."""
    old = arr.store.f
    part = arr.part
    shape = arr.shape
    fp = ctx.fp

    def merged(oldv, newv):
        if part == 're':
            o = to_cx(oldv)
            return Cx(newv, o.im)
        if part == 'im':
            o = to_cx(oldv)
            return Cx(o.re, newv)
        if arr.dtype == 'complex':
            return to_cx(newv)
        return newv

    def cur(oldv):
        if part == 're':
            return to_cx(oldv).re
        if part == 'im':
            return to_cx(oldv).im
        return oldv

    def newf(*sx):
        oldv = old(*sx)
        if arr.inv is None:
            cond, vix = in_range(sx, shape), sx
        else:
            c0, vix = arr.inv(*sx)
            cond = zand(c0, in_range(vix, shape))
        if region is not None:
            cond = zand(cond, region(*vix))
        if isinstance(cond, bool) and not cond:
            return oldv
        nv = valfn(*vix)
        if combine is not None:
            nv = combine(cur(oldv), nv)
        nv = merged(oldv, nv)
        return zite(cond, nv, oldv, fp)

    arr.store.f = MF(newf)


def slice_view(ctx, arr, sl):
    """arr[sl] for a 1-d array and python slice with step None/1 (numpy/python clamping)."""
    if arr.ndim != 1:
        raise Unsupported('slice of n-d array')
    start, stop, step = sl.start, sl.stop, sl.step
    if step is not None and not (isinstance(step, int) and step == 1):
        raise Unsupported('slice step != 1')
    n = arr.n
    fp = False

    def norm(v, default):
        if v is None:
            return default
        if isinstance(v, int) and isinstance(n, int):
            if v < 0:
                v += n
            return min(max(v, 0), n)
        if isinstance(v, int) and v >= 0 and not isinstance(n, int):
            return zmin(v, n)
        vz = tz(v)
        w = z3.If(vz < 0, vz + tz(n), vz)
        return z3.If(w < 0, 0, z3.If(w > tz(n), tz(n), w))
    lo = norm(start, 0)
    hi = norm(stop, n)
    if isinstance(lo, int) and isinstance(hi, int):
        m = max(hi - lo, 0)
    else:
        d = scalar_arith('-', hi, lo)
        m = z3.simplify(z3.If(tz(d) < 0, z3.IntVal(0), tz(d)))
        if z3.is_int_value(m):
            m = m.as_long()
    if isinstance(lo, int) and lo == 0 and not isinstance(m, int) and is_z3(n) and m.get_id() == n.get_id():
        return arr
    if isinstance(lo, int) and lo == 0 and isinstance(m, int) and isinstance(n, int) and m == n:
        return arr
    return arr.view((m,), lambda i: (scalar_arith('+', lo, i),),
                    lambda j: (True, (scalar_arith('-', j, lo),)))


def np_amax(ctx, a, what='amax', sign=1):
    """max (sign=1) / min (sign=-1) reduction: fresh result + defining facts."""
    fp = ctx.fp
    le = '<=' if sign == 1 else '>='
    if isinstance(a, SCompact):
        mask, v = a.mask, a.val
        n = mask.n
        dtype = a.dtype

        def active(i):
            return zand(scalar_cmp('<=', 0, i), scalar_cmp('<', i, n), a.mget(i))
    elif isinstance(a, SArr) and a.ndim == 1:
        n = a.n
        v = fz(a)
        dtype = a.dtype

        def active(i):
            return zand(scalar_cmp('<=', 0, i), scalar_cmp('<', i, n))
    else:
        raise Unsupported('amax of n-d array')
    sort = IntS if dtype == 'int' else RealS
    m = ctx.fresh(what, sort)
    w = ctx.fresh(what + '_w', IntS)
    # numpy raises ValueError on an empty reduction
    cands = list(ctx.iterms)
    nonempty = zor(*[active(t) for t in cands]) if cands else False
    if isinstance(a, SArr):
        nonempty = zor(nonempty, scalar_cmp('>', n, 0))
    ctx.oblige('pre@callee', 'np.%s nonempty' % what, b2z(nonempty))
    ctx.add_iterm(w)
    ctx.assume(active(w))
    ctx.assume(scalar_cmp('==', v(w), m, fp))
    ctx.add_universal(lambda t: z3.Implies(b2z(active(t)), b2z(scalar_cmp(le, v(t), m, fp))))
    return m


def np_any(ctx, a, all_=False):
    """any()/all() of a boolean array as a fresh Bool with witness + universal facts."""
    if isinstance(a, SCompact):
        raise Unsupported('any() of compaction')
    if a.ndim != 1:
        raise Unsupported('any() of n-d array')
    n = a.n
    ag = fz(a)

    def val(i):
        e = ag(i)
        if a.dtype != 'bool':
            e = scalar_cmp('!=', e, 0, ctx.fp)
        return znot(e) if all_ else e

    def rng(i):
        return zand(scalar_cmp('<=', 0, i), scalar_cmp('<', i, n))
    b = ctx.fresh('all' if all_ else 'any', BoolS)
    w = ctx.fresh('w', IntS)
    ctx.add_iterm(w)
    # b (exists) -> witness ; not b -> nobody
    ex = z3.Not(b) if all_ else b
    ctx.assume(z3.Implies(ex, b2z(zand(rng(w), val(w)))))
    ctx.add_universal(lambda t: z3.Implies(z3.Not(ex), z3.Implies(b2z(rng(t)), b2z(znot(val(t))))))
    return b


class SumTerm:
    """Registry entry for an uninterpreted finite sum Sum_{k<n} body(k)."""

    def __init__(self, n, body, const):
        self.n = n
        self.body = body
        self.const = const


def np_sum(ctx, n, body, name='sum'):
    """Uninterpreted sum over range(n) of body(k): fresh real + registry.  Facts about it are the
    Lean lemmas of lean/OmLemmas.lean (extensionality, homogeneity, bounds), applied when their
    side conditions are proved by a small solver query here."""
    s = ctx.fresh(name, RealS)
    mbody = MF(body)
    ctx.ghost.setdefault('sums', []).append(SumTerm(n, mbody, s))
    nz = tz(n)
    ctx.assume(z3.Implies(nz == 0, s == 0))
    b0 = mbody(z3.IntVal(0))
    if not isinstance(b0, Cx):
        ctx.assume(z3.Implies(nz == 1, s == tz(b0)))
    if ctx.frozen_iterms or isinstance(b0, Cx):
        return s
    # OmLemmas.sum_unit_interval: terms in [0,1] with one term equal to 1  =>  1 <= sum <= n
    q = ctx.fresh('sq', IntS)
    ctx.add_iterm(q)
    try:
        bq = tz(mbody(q))
    except Unsupported:
        return s
    rng = z3.And(q >= 0, q < nz)
    if ctx.entails(z3.Implies(rng, bq >= 0), 2000):
        ctx.assume(s >= 0)                                        # sum of non-negative terms
        if ctx.entails(z3.Implies(rng, bq <= 1), 2000):
            ctx.assume(s <= (z3.ToReal(nz) if z3.is_int(nz) else nz))
            for w in list(ctx.iterms):
                if w is q:
                    continue
                try:
                    bw = tz(mbody(w))
                except Unsupported:
                    continue
                if ctx.entails(z3.And(w >= 0, w < nz, bw == 1), 2000):
                    ctx.assume(s >= 1)
                    break
    return s


def sum_bounds(ctx):
    """Lean lemma OmLemmas.sum_unit_interval as a fact about every registered sum: terms in [0,1]
    with one term equal to 1 (witness among the index terms in play) give 1 <= Sum <= n."""
    facts = []
    for sidx, sm in enumerate(ctx.ghost.get('sums', [])):
        q = z3.Int('q!b%d' % sidx)
        try:
            bq = sm.body(q)
        except Unsupported:
            continue
        if isinstance(bq, Cx):
            continue
        n = tz(sm.n)
        unit = z3.ForAll([q], z3.Implies(z3.And(q >= 0, q < n), z3.And(tz(bq) >= 0, tz(bq) <= 1)))
        wits = []
        for t in list(ctx.iterms):
            try:
                bt = sm.body(t)
            except Unsupported:
                continue
            wits.append(z3.And(t >= 0, t < n, tz(bt) == 1))
        if not wits:
            continue
        facts.append(z3.Implies(z3.And(unit, z3.Or(*wits)), z3.And(sm.const >= 1, sm.const <= z3.ToReal(n) if z3.is_int(n) else sm.const <= n)))
    return facts


def sum_extensionality(ctx):
    """For every pair of registered sums: (n1 == n2 and bodies agree at a fresh index) implies
    equal values.  Sound: the fresh index is universally quantified in the hypothesis — so it is
    emitted as a quantified implication, with instantiation at the known index terms."""
    sums = ctx.ghost.get('sums', [])
    facts = []
    for i in range(len(sums)):
        for j in range(i + 1, len(sums)):
            a, b = sums[i], sums[j]
            q = z3.Int('q!s%d_%d' % (i, j))
            try:
                ba, bb = a.body(q), b.body(q)
            except Unsupported:
                continue
            if isinstance(ba, Cx) or isinstance(bb, Cx):
                continue
            same = z3.ForAll([q], z3.Implies(z3.And(q >= 0, q < tz(a.n)), tz(ba) == tz(bb)))
            facts.append(z3.Implies(z3.And(tz(a.n) == tz(b.n), same), a.const == b.const))
            # homogeneity: bodies proportional by a fixed constant => sums proportional
            for cst in (2, -1):
                for (x_, bx, y_, by) in ((a, ba, b, bb), (b, bb, a, ba)):
                    prop = z3.ForAll([q], z3.Implies(z3.And(q >= 0, q < tz(x_.n)), tz(bx) == cst * tz(by)))
                    facts.append(z3.Implies(z3.And(tz(a.n) == tz(b.n), prop), x_.const == cst * y_.const))
    return facts
