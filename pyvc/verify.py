"""Verification of one sidecar contract against the real function body (DESIGN 2.2)."""
import ast
import itertools
import time
import traceback
from fractions import Fraction
import z3

from .values import *       # noqa
from . import spec as S
from . import extract
from . import npmodel as npm
from .ctx import Ctx
from .interp import Interp, snapshot, PathEnd, _Return, Frame


# ---------------------------------------------------------------------------------------------
# configurations (OneOf choice points)

def choice_points(sp, path, out):
    if isinstance(sp, S.OneOf):
        out.append((path, sp.alts))
        # nested choice points inside alternatives are enumerated per alternative
    elif isinstance(sp, S.Obj):
        for k, v in sp.attrs.items():
            choice_points(v, path + '.' + k, out)
    elif isinstance(sp, S.DictT):
        for k, v in sp.items.items():
            choice_points(v, '%s[%r]' % (path, k), out)
    elif isinstance(sp, (S.TupleT, S.ListT)):
        for i, v in enumerate(sp.items):
            choice_points(v, '%s[%d]' % (path, i), out)
    elif isinstance(sp, S.Callable):
        choice_points(sp.ret, path + '()', out)
    elif isinstance(sp, S.Seq):
        choice_points(sp.elem, path + '[*]', out)


def resolve_cfg(sp, path, cfg):
    """Replace OneOf nodes by the alternative chosen in cfg (recursively)."""
    if isinstance(sp, S.OneOf):
        alt = sp.alts[cfg[path]]
        return resolve_cfg(alt, path, cfg) if isinstance(alt, S.T) and not isinstance(alt, S.OneOf) \
            else alt
    if isinstance(sp, S.Obj):
        return S.Obj(sp.cls, **{k: resolve_cfg(v, path + '.' + k, cfg) for k, v in sp.attrs.items()})
    if isinstance(sp, S.DictT):
        return S.DictT({k: resolve_cfg(v, '%s[%r]' % (path, k), cfg) for k, v in sp.items.items()})
    if isinstance(sp, S.TupleT):
        return S.TupleT(*[resolve_cfg(v, '%s[%d]' % (path, i), cfg) for i, v in enumerate(sp.items)])
    if isinstance(sp, S.ListT):
        return S.ListT(*[resolve_cfg(v, '%s[%d]' % (path, i), cfg) for i, v in enumerate(sp.items)])
    if isinstance(sp, S.Callable):
        return S.Callable(resolve_cfg(sp.ret, path + '()', cfg))
    if isinstance(sp, S.Seq):
        return S.Seq(sp.size, resolve_cfg(sp.elem, path + '[*]', cfg))
    return sp


def enumerate_configs(params):
    """Iteratively expand choice points (alternatives may contain further choice points)."""
    todo = [({}, params)]
    done = []
    while todo:
        cfg, ps = todo.pop()
        pts = []
        for name, sp in ps.items():
            choice_points(sp, name, pts)
        pts = [(p, alts) for p, alts in pts]
        if not pts:
            done.append((cfg, ps))
            continue
        path, alts = pts[0]
        for i in range(len(alts)):
            c2 = dict(cfg)
            # config label: path may repeat for nested OneOf -> suffix
            label = path
            while label in c2:
                label += "'"
            c2[label] = i
            ps2 = {}
            for name, sp in ps.items():
                ps2[name] = _replace_first(sp, name, path, alts[i])
            todo.append((c2, ps2))
    done.sort(key=lambda x: sorted(x[0].items()))
    return done


def _replace_first(sp, cur, path, alt):
    if isinstance(sp, S.OneOf):
        if cur == path:
            return alt if isinstance(alt, S.T) else S.Const(alt)
        return sp
    if isinstance(sp, S.Obj):
        return S.Obj(sp.cls, **{k: _replace_first(v, cur + '.' + k, path, alt) for k, v in sp.attrs.items()})
    if isinstance(sp, S.DictT):
        return S.DictT({k: _replace_first(v, '%s[%r]' % (cur, k), path, alt) for k, v in sp.items.items()})
    if isinstance(sp, S.TupleT):
        return S.TupleT(*[_replace_first(v, '%s[%d]' % (cur, i), path, alt) for i, v in enumerate(sp.items)])
    if isinstance(sp, S.ListT):
        return S.ListT(*[_replace_first(v, '%s[%d]' % (cur, i), path, alt) for i, v in enumerate(sp.items)])
    if isinstance(sp, S.Callable):
        return S.Callable(_replace_first(sp.ret, cur + '()', path, alt))
    if isinstance(sp, S.Seq):
        return S.Seq(sp.size, _replace_first(sp.elem, cur + '[*]', path, alt))
    return sp


def size_names(sp, out):
    if isinstance(sp, S.Arr):
        out.update(x for x in sp.shape if isinstance(x, str))
    elif isinstance(sp, S.Size):
        out.add(sp.name)
    elif isinstance(sp, (S.SliceT, S.ViewOf)):
        out.update(x for x in (sp.lo, sp.hi) if isinstance(x, str))
    elif isinstance(sp, S.Seq):
        if isinstance(sp.size, str):
            out.add(sp.size)
        size_names(sp.elem, out)
    elif isinstance(sp, S.OneOf):
        for a in sp.alts:
            size_names(a, out)
    elif isinstance(sp, S.Obj):
        for v in sp.attrs.values():
            size_names(v, out)
    elif isinstance(sp, S.DictT):
        for v in sp.items.values():
            size_names(v, out)
    elif isinstance(sp, (S.TupleT, S.ListT)):
        for v in sp.items:
            size_names(v, out)
    elif isinstance(sp, S.Callable):
        size_names(sp.ret, out)


def cfg_label(cfg, params):
    parts = []
    for k, i in sorted(cfg.items()):
        parts.append('%s=#%d' % (k, i))
    return ','.join(parts) or 'default'


# ---------------------------------------------------------------------------------------------
# instantiation of parameter specs

def get_size(interp, name):
    if isinstance(name, int):
        return name
    if name not in interp.sizes:
        v = z3.Int('size_' + name)
        interp.sizes[name] = v
        interp.ctx.assume(v >= 0)
    return interp.sizes[name]


def instantiate(interp, sp, name, shared, sizes=None):
    ctx = interp.ctx
    if not isinstance(sp, S.T):
        return _const(interp, sp)
    if isinstance(sp, S.Const):
        return _const(interp, sp.v)
    if isinstance(sp, S.Real):
        v = z3.Real(ctx.fresh_name(name))
        if sp.kw.get('finite'):
            ctx.assume(z3.And(v >= -z3.RealVal('1.8e308'), v <= z3.RealVal('1.8e308')))
        return v
    if isinstance(sp, S.FP):
        return z3.FP(ctx.fresh_name(name), FPS)
    if isinstance(sp, S.Int):
        v = z3.Int(ctx.fresh_name(name))
        if sp.lo is not None:
            ctx.assume(v >= sp.lo)
        if sp.hi is not None:
            ctx.assume(v <= sp.hi)
        return v
    if isinstance(sp, S.Bool):
        return z3.Bool(ctx.fresh_name(name))
    if isinstance(sp, S.Complex):
        return Cx(z3.Real(ctx.fresh_name(name + '_re')), z3.Real(ctx.fresh_name(name + '_im')))
    if isinstance(sp, S.Size):
        return get_size(interp, sp.name)
    if isinstance(sp, S.Arr):
        shape = tuple(get_size(interp, s) for s in sp.shape)
        a = npm.fresh_arr(ctx, shape, sp.dtype, name)
        shared[name] = a
        return a
    if isinstance(sp, S.Obj):
        o = SObj(sp.cls, {})
        shared[name] = o
        for k, v in sp.attrs.items():
            if isinstance(v, S.BoundTo):
                o.attrs[k] = BoundMethod(o, v.method)
            else:
                o.attrs[k] = instantiate(interp, v, name + '.' + k, shared)
        return o
    if isinstance(sp, S.DictT):
        d = {}
        shared[name] = d
        for k, v in sp.items.items():
            d[k] = instantiate(interp, v, '%s[%r]' % (name, k), shared)
        return d
    if isinstance(sp, S.TupleT):
        return tuple(instantiate(interp, v, '%s[%d]' % (name, i), shared) for i, v in enumerate(sp.items))
    if isinstance(sp, S.ListT):
        return [instantiate(interp, v, '%s[%d]' % (name, i), shared) for i, v in enumerate(sp.items)]
    if isinstance(sp, S.OpaqueT):
        return Opaque(sp.name or name)
    if isinstance(sp, S.Callable):
        r = instantiate(interp, sp.ret, name + '()', shared)
        return SCallable(r)
    if isinstance(sp, S.SliceT):
        return slice(get_size(interp, sp.lo), get_size(interp, sp.hi), None)
    if isinstance(sp, S.ViewOf):
        base = shared.get(sp.path)
        if not isinstance(base, SArr):
            raise Unsupported('ViewOf(%s): base array not found' % sp.path)
        lo, hi = get_size(interp, sp.lo), get_size(interp, sp.hi)
        ctx.assume(scalar_cmp('<=', lo, hi))
        ctx.assume(scalar_cmp('<=', hi, base.n))
        v = npm.slice_view(ctx, base, slice(lo, hi, None))
        shared[name] = v
        return v
    if isinstance(sp, S.Shared):
        if sp.path not in shared:
            raise Unsupported('Shared(%s) refers to a later/unknown parameter' % sp.path)
        return shared[sp.path]
    if isinstance(sp, S.Seq):
        n = get_size(interp, sp.size)
        cache = {}

        def elem(k, sp=sp, name=name):
            key = k.get_id() if is_z3(k) else ('c', k)
            if key not in cache:
                cache[key] = (instantiate(interp, sp.elem, '%s[%s]' % (name, k), shared), k)
            return cache[key][0]
        return SSeq(n, elem, name)
    if isinstance(sp, S.OneOf):
        raise Unsupported('unresolved OneOf at %s' % name)
    raise Unsupported('spec %r' % (sp,))


def _const(interp, v):
    if isinstance(v, float) and not interp.ctx.fp:
        return pyfloat_to_fraction(v)
    if isinstance(v, list):
        return [_const(interp, x) for x in v]
    if isinstance(v, dict):
        return {k: _const(interp, x) for k, x in v.items()}
    if isinstance(v, tuple):
        return tuple(_const(interp, x) for x in v)
    if isinstance(v, type) and issubclass(v, BaseException):
        return ExcClass(v.__name__)
    if isinstance(v, type):
        return PyType(v.__name__)
    return v


# ---------------------------------------------------------------------------------------------
# modular application of a callee's contract at a call site

def bind_sizes(interp, sp, val, sizes, what):
    ctx = interp.ctx
    if isinstance(sp, S.OneOf):
        for alt in sp.alts:
            if isinstance(alt, S.Arr) and isinstance(val, SArr):
                return bind_sizes(interp, alt, val, sizes, what)
            if isinstance(alt, S.Obj) and isinstance(val, SObj):
                return bind_sizes(interp, alt, val, sizes, what)
        return
    if isinstance(sp, S.Arr) and isinstance(val, SArr):
        if len(sp.shape) != len(val.shape):
            raise Unsupported('callee %s: array rank differs from its contract' % what)
        for s, actual in zip(sp.shape, val.shape):
            if isinstance(s, int):
                ctx.oblige('pre@callee', '%s: literal extent %d' % (what, s), scalar_cmp('==', actual, s))
            elif s in sizes:
                prev = sizes[s]
                same = (is_z3(prev) and is_z3(actual) and prev.get_id() == actual.get_id()) or \
                    (isinstance(prev, int) and isinstance(actual, int) and prev == actual)
                if not same:
                    ctx.oblige('pre@callee', '%s: size %s consistent' % (what, s),
                               b2z(scalar_cmp('==', prev, actual)))
            else:
                sizes[s] = actual
    elif isinstance(sp, S.Obj) and isinstance(val, SObj):
        for k, v in sp.attrs.items():
            if k in val.attrs:
                bind_sizes(interp, v, val.attrs[k], sizes, what)
    elif isinstance(sp, S.Callable) and isinstance(val, SCallable):
        bind_sizes(interp, sp.ret, val.ret, sizes, what)
    elif isinstance(sp, S.Size):
        if sp.name not in sizes:
            sizes[sp.name] = val
    elif isinstance(sp, S.SliceT) and isinstance(val, slice):
        for nm, x in ((sp.lo, val.start), (sp.hi, val.stop)):
            if isinstance(nm, str) and nm not in sizes and x is not None:
                sizes[nm] = x
    elif isinstance(sp, (S.TupleT, S.ListT)) and isinstance(val, (tuple, list)):
        for v, x in zip(sp.items, val):
            bind_sizes(interp, v, x, sizes, what)
    elif isinstance(sp, S.DictT) and isinstance(val, dict):
        for k, v in sp.items.items():
            if k in val:
                bind_sizes(interp, v, val[k], sizes, what)


def spec_matches(sp, val):
    """Does an actual value fit a parameter spec (used to pick the contract variant)?"""
    if not isinstance(sp, S.T):
        sp = S.Const(sp)
    if isinstance(sp, S.Const):
        v = sp.v
        if isinstance(v, bool) and is_bool_term(val):
            return True
        if v is None or isinstance(v, (bool, str)):
            return val is v or (isinstance(v, str) and val == v)
        if isinstance(v, (int, float)):
            return not is_z3(val) and isinstance(val, (int, float, Fraction)) and val == v
        return True
    if isinstance(sp, S.OneOf):
        return any(spec_matches(a, val) for a in sp.alts)
    if isinstance(sp, S.Arr):
        return isinstance(val, SArr) and len(sp.shape) == val.ndim and \
            (sp.dtype == val.dtype or (sp.dtype == 'real' and val.dtype == 'int'))
    if isinstance(sp, S.ViewOf):
        return isinstance(val, SArr)
    if isinstance(sp, S.BoundTo):
        return isinstance(val, BoundMethod)
    if isinstance(sp, S.Obj):
        if not isinstance(val, SObj):
            return False
        return all(spec_matches(v, val.attrs[k]) for k, v in sp.attrs.items() if k in val.attrs)
    if isinstance(sp, (S.Real, S.FP)):
        return (is_z3(val) and not z3.is_bool(val)) or isinstance(val, (int, float, Fraction)) and not isinstance(val, bool)
    if isinstance(sp, S.Int) or isinstance(sp, S.Size):
        return is_int_term(val) or (isinstance(val, int) and not isinstance(val, bool))
    if isinstance(sp, S.Bool):
        return isinstance(val, bool) or is_bool_term(val)
    if isinstance(sp, S.SliceT):
        return isinstance(val, slice)
    if isinstance(sp, S.TupleT):
        return isinstance(val, tuple) and len(val) == len(sp.items) and all(
            spec_matches(a, b) for a, b in zip(sp.items, val))
    if isinstance(sp, S.DictT):
        return isinstance(val, dict) and all(k in val and spec_matches(v, val[k]) for k, v in sp.items.items())
    return True


def apply_callee_contract(interp, cands, mod, cname, fn, args, kwargs, ftxt):
    ctx = interp.ctx
    env = interp.bind_args(mod, cname, fn, args, kwargs)
    c = None
    for cand in cands:
        if all(spec_matches(sp, env[p]) for p, sp in cand.params.items() if p in env):
            c = cand
            break
    if c is None:
        raise Unsupported('call to %s: no contract variant matches the actual arguments' % cands[0].target)
    sizes = {}
    for pname, sp in c.params.items():
        if pname in env:
            bind_sizes(interp, sp, env[pname], sizes, c.target)
    allsz = set()
    for sp in c.params.values():
        size_names(sp, allsz)
    for nm in sorted(allsz):
        if nm not in sizes:
            v = ctx.fresh('size_' + nm, IntS)
            ctx.assume(v >= 0)
            sizes[nm] = v
    saved = (interp.sizes, interp.old_env, interp.ghost_env)
    interp.sizes = sizes
    interp.ghost_env = {}
    interp.used_contracts.append(c.target)
    try:
        # frames: clause evaluation may resolve names in the callee's module
        interp.frames.append(Frame(mod, cname, fn, env))
        try:
            cenv = interp.clause_env(env)
            interp.old_env = None
            interp.prove_clauses(c.requires, cenv, 'pre@callee', ftxt)
            # exceptional behaviour
            for et, cond in c.raises_iff.items():
                node = interp.parse_clause(cond)
                interp.pure += 1
                try:
                    g = interp.tr(node, cenv, -1)
                    g_not = interp.tr(ast.UnaryOp(op=ast.Not(), operand=node), cenv, -1)
                finally:
                    interp.pure -= 1
                if interp.ctx.branch_pair(g, g_not):
                    if et == '*':
                        et = c.may_raise[0]
                    raise PyRaise(et, ExcInst(et))
            for et in ([] if '*' in c.raises_iff else c.may_raise):
                if ctx.branch(ctx.fresh('raises_%s' % et, BoolS)):
                    raise PyRaise(et, ExcInst(et))
            pre = snapshot(cenv, {})
            for path in c.modifies:
                interp.havoc_target(ast.parse(path, mode='eval').body, cenv)
            res = None
            if c.returns is not None:
                rsp = c.returns
                res = instantiate(interp, rsp, ctx.fresh_name('ret'), {})
            cenv2 = interp.clause_env(env)
            if res is None:
                # `same_object(result, <expr>)` names the returned object (in-place operators return self)
                for cl in c.ensures:
                    for sub in interp.conjuncts(interp.parse_clause(cl)):
                        if isinstance(sub, ast.Call) and isinstance(sub.func, ast.Name) and sub.func.id == 'same_object' \
                                and len(sub.args) == 2 and isinstance(sub.args[0], ast.Name) and sub.args[0].id == 'result':
                            interp.pure += 1
                            try:
                                res = interp.eval(sub.args[1], cenv2)
                            finally:
                                interp.pure -= 1
            cenv2['result'] = res
            interp.old_env = pre
            interp.definitional_ok = True
            interp.defined_results = set()
            try:
                interp.assume_clauses(c.ensures, cenv2)
            except Infeasible:
                # a postcondition that is concretely False at this call site would silently kill the path
                raise Unsupported('postcondition of callee contract %s is False at this call (contract cannot be applied here)' % c.name)
            finally:
                interp.definitional_ok = False
            return res
        finally:
            interp.frames.pop()
    finally:
        interp.sizes, interp.old_env, interp.ghost_env = saved


# ---------------------------------------------------------------------------------------------
# discharge

def solver_for(timeout_ms, fp=False):
    s = z3.Solver()
    s.set('timeout', int(timeout_ms))
    return s


def discharge(ob, timeout_ms=10000, extra=(), nice=None, sizes=None):
    """1. quantifier-free hypotheses (pc + universals instantiated at the index terms in play);
    2. if that is not unsat: add the universals as real quantifiers (z3 E-matching/MBQI);
    unsat in either step = discharged (step 1 uses a subset of step 2's hypotheses).
    A model is only ever taken from the quantifier-free query and is replayed natively."""
    t0 = time.time()
    ob.backend = 'z3-' + z3.get_version_string()
    qf = ob.hyps(quantified=False) + list(extra)
    # a NONLINEAR real equation is tried as a rational-function identity first (z3 would burn its budget on it)
    if _nonlinear_real_equation(ob.goal) and poly_identity(ob, qf):
        ob.status = 'discharged'
        ob.backend = 'sympy-%s polynomial identity + %s (divisors non-zero)' % (__import__('sympy').__version__, ob.backend)
        ob.seconds = time.time() - t0
        return ob.status
    # small portfolio: z3 verdict times vary a lot with the random seed on nonlinear queries
    r1 = z3.unknown
    s1 = None
    for seed, share in ((0, 0.5), (7, 0.25), (42, 0.25)):
        s1 = solver_for(max(1000, int(timeout_ms * share)))
        if seed:
            s1.set('random_seed', seed)
            try:
                s1.set('smt.random_seed', seed)
            except Exception:
                pass
        s1.add(*qf)
        s1.add(z3.Not(ob.goal))
        r1 = s1.check()
        if r1 != z3.unknown:
            break
        if seed == 0 and poly_identity(ob, qf):
            ob.status = 'discharged'
            ob.backend = 'sympy-%s polynomial identity + %s (divisors non-zero)' % (__import__('sympy').__version__, ob.backend)
            ob.seconds = time.time() - t0
            return ob.status
    if r1 == z3.unsat:
        ob.status = 'discharged'
    else:
        has_q = bool(ob.universals) or any(_has_quant(h) for h in extra)
        r2 = None
        if has_q:
            s2 = solver_for(min(timeout_ms, 20000) if timeout_ms <= 30000 else min(timeout_ms, 60000))
            s2.add(*(ob.hyps(quantified=True) + list(extra)))
            s2.add(z3.Not(ob.goal))
            r2 = s2.check()
        if r2 == z3.unsat:
            ob.status = 'discharged'
            ob.backend += ' (quantified)'
        if r1 == z3.unknown and r2 != z3.unsat and sizes:
            # counter-model search with every symbolic size bounded (a model of the stronger query is a model of the
            # original one): small arrays make the instantiated universals finite and the search fast
            for bound in (1, 2, 3):
                s3 = solver_for(max(2000, int(timeout_ms * 0.2)))
                s3.add(*qf)
                s3.add(z3.Not(ob.goal))
                for sz in sizes.values():
                    if is_z3(sz):
                        s3.add(sz <= bound)
                if s3.check() == z3.sat:
                    r1, s1 = z3.sat, s3
                    ob.info['counter_model_search'] = 'sizes <= %d' % bound
                    break
        if r2 == z3.unsat:
            pass
        elif r1 == z3.sat:
            ob.status = 'refuted'
            ob.model = s1.model()
            if nice is not None:
                try:
                    # counter-models must respect the universal hypotheses on all small indices
                    for U in ob.universals:
                        for j in range(0, 5):
                            try:
                                h = U(z3.IntVal(j))
                            except Exception:
                                continue
                            if not isinstance(h, bool):
                                s1.add(h)
                    if s1.check() == z3.sat:
                        ob.model = s1.model()
                    m2 = nice(s1, ob.model)
                    if m2 is not None:
                        ob.model = m2
                except Exception:
                    pass
        elif poly_identity(ob, qf):
            ob.status = 'discharged'
            ob.backend = 'sympy-%s polynomial identity + %s (divisors non-zero)' % (__import__('sympy').__version__, ob.backend)
        else:
            ob.status = 'unknown'
            ob.info['reason'] = s1.reason_unknown()
    ob.seconds = time.time() - t0
    return ob.status


def _nonlinear_real_equation(goal, budget=400):
    """the goal's consequent is an equation between reals containing a division or a product of two non-numeral terms"""
    g = goal
    for _ in range(6):
        if z3.is_implies(g):
            g = g.arg(1)
        elif z3.is_or(g):
            eqs = [l for l in g.children() if z3.is_eq(l) and z3.is_real(l.arg(0))]
            if len(eqs) != 1:
                return False
            g = eqs[0]
        else:
            break
    if not (z3.is_eq(g) and z3.is_real(g.arg(0))):
        return False
    n = [0]

    def walk(e):
        n[0] += 1
        if n[0] > budget or not z3.is_app(e):
            return False
        k = e.decl().kind()
        if k == z3.Z3_OP_DIV:
            return True
        if k == z3.Z3_OP_MUL and sum(1 for c in e.children() if not (z3.is_rational_value(c) or z3.is_int_value(c))) >= 2:
            return True
        if k in (z3.Z3_OP_ADD, z3.Z3_OP_SUB, z3.Z3_OP_MUL, z3.Z3_OP_UMINUS, z3.Z3_OP_TO_REAL):
            return any(walk(c) for c in e.children())
        return False
    return walk(g.arg(0)) or walk(g.arg(1))


def poly_identity(ob, qf, timeout_ms=4000):
    """Second back end for goals that are an equation between rational functions of real terms (interpolation /
    Lagrange algebra): z3's nlsat often times out on such identities with many variables.  Sound decision:
      * the goal's consequent  A == B  is converted to SymPy (every uninterpreted application / constant is an
        indeterminate; only + - * / and rational numerals are accepted, anything else aborts);
      * every divisor (each factor of a product divisor separately) is shown non-zero under the hypotheses by z3;
      * numerator(A - B), expanded over the rationals, is the zero polynomial.
    Then A == B holds for all values satisfying the hypotheses.  Returns True only in that case."""
    try:
        import sympy
    except Exception:
        return False
    # SymPy normalisation can blow up on large expressions: hard wall-clock budget (worker processes run this in their
    # main thread, so an interval timer is available)
    import signal
    import threading

    class _Budget(Exception):
        pass

    def _raise_budget(signum, frame):
        raise _Budget()
    use_timer = threading.current_thread() is threading.main_thread()
    if use_timer:
        old_handler = signal.signal(signal.SIGALRM, _raise_budget)
        signal.setitimer(signal.ITIMER_REAL, 20.0)
    try:
        return _poly_identity(ob, qf, timeout_ms, sympy)
    except _Budget:
        ob.info['identity'] = 'budget exhausted'
        return False
    finally:
        if use_timer:
            signal.setitimer(signal.ITIMER_REAL, 0)
            signal.signal(signal.SIGALRM, old_handler)


def _poly_identity(ob, qf, timeout_ms, sympy):
    # first with every division by a non-trivial divisor abstracted to an indeterminate (sound: a generalisation; it
    # keeps e.g. 1/(g[k+1]-g[k]) but hides the Akima weight quotients the identity does not depend on), then in full
    for abstract_div in (True, False):
        if _poly_identity_core(ob, qf, timeout_ms, sympy, abstract_div):
            return True
    return False


_IDENTITY_CACHE = {}


def _term_size(e, cap=12):
    n = 1
    for c in e.children():
        n += _term_size(c, cap)
        if n > cap:
            break
    return n


def _poly_identity_core(ob, qf, timeout_ms, sympy, abstract_div):
    goal = ob.goal
    ants = []
    while True:
        if z3.is_implies(goal):
            a_ = goal.arg(0)
            ants.extend(a_.children() if z3.is_and(a_) else [a_])
            goal = goal.arg(1)
            continue
        if z3.is_or(goal):
            # (not a1) or (not a2) or (A == B): a clause `implies(a, A == B)` is translated to this form
            lits = goal.children()
            eqs = [l for l in lits if z3.is_eq(l) and z3.is_real(l.arg(0))]
            negs = [l for l in lits if z3.is_not(l)]
            if len(eqs) == 1 and len(negs) == len(lits) - 1:
                for l in negs:
                    a_ = l.arg(0)
                    ants.extend(a_.children() if z3.is_and(a_) else [a_])
                goal = eqs[0]
                continue
        break
    if not (z3.is_eq(goal) and z3.is_real(goal.arg(0)) and z3.is_real(goal.arg(1))):
        return False
    syms = {}
    divisors = []

    class Abort(Exception):
        pass

    def conv(e):
        if z3.is_rational_value(e):
            return sympy.Rational(e.numerator_as_long(), e.denominator_as_long())
        if z3.is_int_value(e):
            return sympy.Integer(e.as_long())
        if not z3.is_app(e):
            raise Abort()
        k = e.decl().kind()
        ch = e.children()
        if k == z3.Z3_OP_ADD:
            return sympy.Add(*[conv(c) for c in ch])
        if k == z3.Z3_OP_MUL:
            return sympy.Mul(*[conv(c) for c in ch])
        if k == z3.Z3_OP_SUB:
            r = conv(ch[0])
            for c in ch[1:]:
                r = r - conv(c)
            return r
        if k == z3.Z3_OP_UMINUS:
            return -conv(ch[0])
        if k == z3.Z3_OP_DIV and not (abstract_div and _term_size(ch[1]) > 6):
            divisors.append(ch[1])
            return conv(ch[0]) / conv(ch[1])
        if k == z3.Z3_OP_TO_REAL:
            return conv(ch[0])
        if z3.is_real(e) or z3.is_int(e):
            # any other real-valued term (uninterpreted application, if-then-else, ...) is an indeterminate: proving the
            # identity for ALL values of the indeterminate proves it for this term
            key = e.sexpr()
            if key not in syms:
                syms[key] = sympy.Symbol('v%d' % len(syms))
            return syms[key]
        raise Abort()
    try:
        A, B = conv(goal.arg(0)), conv(goal.arg(1))
    except Abort:
        return False
    except Exception:
        return False
    # divisors non-zero under the hypotheses (factor by factor)
    factors = []
    for d in divisors:
        if z3.is_app(d) and d.decl().kind() == z3.Z3_OP_MUL:
            factors.extend(d.children())
        else:
            factors.append(d)
    seen = set()
    for f in factors:
        if f.get_id() in seen:
            continue
        seen.add(f.get_id())
        if z3.is_rational_value(f) or z3.is_int_value(f):
            if f.numerator_as_long() == 0 if z3.is_rational_value(f) else f.as_long() == 0:
                return False
            continue
        sv = solver_for(timeout_ms)
        sv.add(*qf)
        sv.add(*ants)
        sv.add(f == 0)
        if sv.check() != z3.unsat:
            ob.info['identity'] = 'gave up: a divisor factor could not be shown non-zero'
            return False
    try:
        expr = A - B
        # (paths of one function often produce the very same identity: memoised on the expression text)
        ck = ('plain', sympy.srepr(expr))
        if _IDENTITY_CACHE.get(ck):
            ob.info['identity'] = 'rational-function identity (same expression as an earlier obligation), %d divisor factors shown non-zero by z3' % len(seen)
            return True
        num, _den = sympy.fraction(sympy.together(expr))
        if sympy.expand(num) == 0:
            _IDENTITY_CACHE[ck] = True
        else:
            # equalities  indeterminate == term  among the hypotheses may be substituted (equals for equals)
            subs = []
            for h in ants + list(qf):
                if z3.is_eq(h) and z3.is_real(h.arg(0)) and len(subs) < 24:
                    try:
                        n0 = len(divisors)
                        l, r = conv(h.arg(0)), conv(h.arg(1))
                        had_div = len(divisors) > n0
                        del divisors[n0:]
                        if had_div:
                            continue        # (a division inside a hypothesis is not checked for a non-zero divisor: not used)
                    except Abort:
                        continue
                    if isinstance(l, sympy.Symbol) and not r.has(l):
                        subs.append((l, r))
                    elif isinstance(r, sympy.Symbol) and not l.has(r):
                        subs.append((r, l))
            if not subs:
                return False
            for a_, b_ in subs:
                expr = expr.subs(a_, b_)
            ck = ('subs', sympy.srepr(expr))
            if not _IDENTITY_CACHE.get(ck):
                num, _den = sympy.fraction(sympy.together(expr))
                if sympy.expand(num) != 0:
                    return False
                _IDENTITY_CACHE[ck] = True
            ob.info['identity_substitutions'] = len(subs)
    except Exception:
        return False
    ob.info['identity'] = 'rational-function identity over %d indeterminates, %d divisor factors shown non-zero by z3' % (len(syms), len(seen))
    return True


def _has_quant(e):
    try:
        return z3.is_quantifier(e) or any(_has_quant(c) for c in e.children())
    except Exception:
        return False


def nice_model_factory(penv, sizes):
    """Second query asking for a float-friendly counter-model: same sizes, every real input a
    multiple of 1/8 in [-100, 100].  Falls back to the original model."""
    def nice(solver, m):
        reals = []
        mm = [m]

        def walk(v, seen):
            if id(v) in seen:
                return
            seen.add(id(v))
            if is_z3(v):
                if z3.is_real(v) and z3.is_const(v) and v.decl().kind() == z3.Z3_OP_UNINTERPRETED:
                    reals.append(v)
            elif isinstance(v, SArr):
                shape = [s if isinstance(s, int) else model_num(mm[0], s) for s in v.shape]
                if all(isinstance(x, int) and x <= 8 for x in shape) and v.dtype in ('real', 'complex'):
                    for ix in itertools.product(*[range(x) for x in shape]):
                        e = v.get(*[z3.IntVal(i) for i in ix])
                        for part in ((e.re, e.im) if isinstance(e, Cx) else (e,)):
                            if is_z3(part) and z3.is_real(part):
                                reals.append(part)
            elif isinstance(v, SObj):
                for x in v.attrs.values():
                    walk(x, seen)
            elif isinstance(v, dict):
                for x in v.values():
                    walk(x, seen)
            elif isinstance(v, (list, tuple)):
                for x in v:
                    walk(x, seen)
            elif isinstance(v, Cx):
                walk(v.re, seen)
                walk(v.im, seen)
        for attempt in ('small', 'same'):
            reals[:] = []
            solver.push()
            try:
                if attempt == 'small':
                    szs = {}
                    for nm, sz in sizes.items():
                        if is_z3(sz):
                            solver.add(sz <= 4)
                    solver.set('timeout', 3000)
                    if solver.check() != z3.sat:
                        continue
                    m_sz = solver.model()
                else:
                    m_sz = m
                for nm, sz in sizes.items():
                    if is_z3(sz):
                        solver.add(sz == m_sz.eval(sz, model_completion=True))
                mm[0] = m_sz
                seen = set()
                for v in penv.values():
                    walk(v, seen)
                for i, r in enumerate(reals):
                    k = z3.Int('nice!%d' % i)
                    solver.add(r * 8 == z3.ToReal(k), k >= -800, k <= 800)
                solver.set('timeout', 5000)
                if solver.check() == z3.sat:
                    return solver.model()
                if attempt == 'small':
                    return m_sz
            finally:
                solver.pop()
        return None
    return nice


def model_num(m, t):
    v = m.eval(t, model_completion=True)
    if z3.is_int_value(v):
        return v.as_long()
    if z3.is_rational_value(v):
        return Fraction(v.numerator_as_long(), v.denominator_as_long())
    if z3.is_algebraic_value(v):
        a = v.approx(20)
        return Fraction(a.numerator_as_long(), a.denominator_as_long())
    if z3.is_true(v):
        return True
    if z3.is_false(v):
        return False
    if z3.is_fp(v):
        if z3.is_fprm_value(v):
            return str(v)
        try:
            if v.isNaN():
                return float('nan')
            if v.isInf():
                return float('-inf') if v.isNegative() else float('inf')
            # exact decode
            sig = v.significand_as_long()
            exp = v.exponent_as_long(biased=True)
            sign = -1.0 if v.sign() else 1.0
            sb = v.sbits() - 1
            eb = v.ebits()
            bias = (1 << (eb - 1)) - 1
            if exp == 0:
                return sign * sig * 2.0 ** (1 - bias - sb)
            return sign * (1 + sig * 2.0 ** (-sb)) * 2.0 ** (exp - bias)
        except Exception:
            return float(eval(str(v))) if False else str(v)
    return str(v)


def concretize(v, m, memo=None, maxn=6):
    """Value graph -> plain python data under model m (for native replay)."""
    memo = {} if memo is None else memo
    if id(v) in memo:
        return {'__ref__': memo[id(v)]}
    if is_z3(v):
        x = model_num(m, v)
        if isinstance(x, Fraction):
            return {'__frac__': [x.numerator, x.denominator]}
        if isinstance(x, float):
            return {'__float__': repr(x)}
        return x
    if isinstance(v, Fraction):
        return {'__frac__': [v.numerator, v.denominator]}
    if isinstance(v, (bool, int, str)) or v is None:
        return v
    if isinstance(v, float):
        return {'__float__': repr(v)}
    if isinstance(v, Cx):
        return {'__cx__': [concretize(v.re, m, memo), concretize(v.im, m, memo)]}
    if isinstance(v, SArr):
        shape = []
        for s in v.shape:
            sv = s if isinstance(s, int) else model_num(m, s)
            shape.append(int(sv))
        if any(s > 64 for s in shape):
            return {'__arr__': None, 'shape': shape, 'too_big': True}
        idxs = list(itertools.product(*[range(s) for s in shape]))
        data = [concretize(v.get(*ix), m, memo) for ix in idxs]
        return {'__arr__': data, 'shape': shape, 'dtype': v.dtype, 'store': v.store.name}
    if isinstance(v, SObj):
        memo[id(v)] = len(memo)
        return {'__obj__': v.cls, 'id': memo[id(v)],
                'attrs': {k: concretize(x, m, memo) for k, x in v.attrs.items()}}
    if isinstance(v, dict):
        return {'__dict__': [[k if isinstance(k, (str, int)) else (list(k) if isinstance(k, tuple) else repr(k)), concretize(x, m, memo)] for k, x in v.items()]}
    if isinstance(v, (list, tuple)):
        return {'__seq__': [concretize(x, m, memo) for x in v], 'tuple': isinstance(v, tuple)}
    if isinstance(v, Opaque):
        return {'__opaque__': v.name}
    if isinstance(v, slice):
        return {'__slice__': [concretize(v.start, m, memo), concretize(v.stop, m, memo), concretize(v.step, m, memo)]}
    if isinstance(v, SCallable):
        return {'__callable__': concretize(v.ret, m, memo)}
    if isinstance(v, Closure):
        return {'__opaque__': 'callable'}
    if isinstance(v, SSeq):
        n = v.n if isinstance(v.n, int) else int(model_num(m, v.n))
        return {'__seq__': [concretize(v.elem(z3.IntVal(i)), m, memo) for i in range(min(n, maxn))], 'tuple': False}
    if isinstance(v, (PyType, ExcClass)):
        return {'__type__': v.name}
    return {'__opaque__': repr(v)}


# ---------------------------------------------------------------------------------------------
class FnResult:
    def __init__(self, contract):
        self.contract = contract
        self.target = contract.target
        self.name = contract.name
        self.obligations = []       # dict records
        self.fallback = None
        self.configs = 0
        self.paths = 0
        self.source_hash = None
        self.callees = set()
        self.inlined = set()
        self.assumed = set()
        self.seconds = 0.0
        self.symex_seconds = 0.0
        self.vacuity = []
        self.error = None

    @property
    def proved(self):
        return self.fallback is None and self.error is None and self.obligations and \
            all(o['status'] == 'discharged' for o in self.obligations)


def frame_obligations(interp, params_env, old_env, modifies, label):
    """Everything reachable from the parameters and not listed in `modifies` is unchanged."""
    ctx = interp.ctx
    mods = set(modifies)

    def allowed(path):
        return any(path == m or path.startswith(m + '.') or path.startswith(m + '[') for m in mods)

    seen = set()
    mod_stores = set()
    for mpath in mods:
        try:
            it_v = interp.eval(ast.parse(mpath, mode='eval').body, dict(params_env))
        except Exception:
            continue
        if isinstance(it_v, SArr):
            mod_stores.add(id(it_v.store))

    def walk(path, now, old):
        if allowed(path):
            return
        if isinstance(now, SArr) and id(now.store) in mod_stores and isinstance(old, SArr):
            return      # a view of an array listed in `modifies` (aliasing)
        if id(now) in seen:
            return
        if isinstance(now, SObj):
            seen.add(id(now))
            if not isinstance(old, SObj):
                ctx.oblige('frame', '%s: %s replaced' % (label, path), False)
                return
            for k in sorted(set(now.attrs) | set(old.attrs)):
                p = path + '.' + k
                if allowed(p):
                    continue
                if k not in old.attrs or k not in now.attrs:
                    ctx.oblige('frame', '%s: attribute %s added/removed' % (label, p), False)
                    continue
                walk(p, now.attrs[k], old.attrs[k])
        elif isinstance(now, SCallable):
            if not isinstance(old, SCallable):
                ctx.oblige('frame', '%s: %s replaced' % (label, path), False)
                return
            walk(path + '()', now.ret, old.ret)
        elif isinstance(now, SArr):
            if not isinstance(old, SArr):
                ctx.oblige('frame', '%s: %s replaced' % (label, path), False)
                return
            if now.store.f is old.store.f:
                return
            ks = [ctx.fresh('fr', IntS) for _ in now.shape]
            for k in ks:
                ctx.add_iterm(k)
            rng = npm.in_range(ks, now.shape)
            a, b = now.get(*ks), old.get(*ks)
            ctx.oblige('frame', '%s: %s unchanged' % (label, path),
                       z3.Implies(b2z(rng), b2z(scalar_cmp('==', a, b, ctx.fp))))
        elif isinstance(now, dict):
            seen.add(id(now))
            if not isinstance(old, dict):
                ctx.oblige('frame', '%s: %s replaced' % (label, path), False)
                return
            for k in list(now.keys()) + [k for k in old if k not in now]:
                p = '%s[%r]' % (path, k)
                if allowed(p):
                    continue
                if k not in old or k not in now:
                    ctx.oblige('frame', '%s: key %s added/removed' % (label, p), False)
                    continue
                walk(p, now[k], old[k])
        elif isinstance(now, (list, tuple)):
            if not isinstance(old, (list, tuple)) or len(old) != len(now):
                ctx.oblige('frame', '%s: %s length changed' % (label, path), False)
                return
            for i, (x, y) in enumerate(zip(now, old)):
                walk('%s[%d]' % (path, i), x, y)
        elif is_z3(now) or is_z3(old) or isinstance(now, (int, Fraction, float, bool)):
            if now is old:
                return
            try:
                eq = scalar_cmp('==', now, old, ctx.fp)
            except (Unsupported, PyRaise):
                eq = False
            if isinstance(eq, bool) and eq:
                return
            if ctx.fp and (is_fp_term(now) or is_fp_term(old)):
                eq = (to_fp(now) == to_fp(old))     # structural equality incl. NaN
            ctx.oblige('frame', '%s: %s unchanged' % (label, path), eq)
        else:
            if now is not old and now != old:
                if isinstance(now, Closure) and isinstance(old, Closure):
                    return
                if isinstance(now, BoundMethod) and isinstance(old, BoundMethod) and now.name == old.name:
                    return
                if isinstance(now, Opaque) and isinstance(old, Opaque) and now.name == old.name:
                    return
                ctx.oblige('frame', '%s: %s unchanged' % (label, path), False)

    for name, now in params_env.items():
        walk(name, now, old_env.get(name))


def verify_contract(c, registry, overrides=None, timeout_ms=10000, log=None, want_models=True,
                    max_refuted=3, cfg_slice=None):
    """Symbolically execute the real function for every configuration and path, discharge all
    obligations.  Returns FnResult."""
    res = FnResult(c)
    t_start = time.time()
    try:
        mod, fn, cname = extract.find_function(c.target, overrides)
    except Exception as e:
        res.error = 'extraction failed: %s' % e
        return res
    res.source_hash = extract.source_hash(mod, fn)
    try:
        cfgs = enumerate_configs(c.params)
    except Exception as e:
        res.error = 'config enumeration failed: %s' % e
        return res
    if c.config_filter:
        cfgs = [(cfg, ps) for cfg, ps in cfgs if c.config_filter(cfg, ps)]
    res.configs = len(cfgs)
    if cfg_slice is not None:
        cfgs = cfgs[cfg_slice[0]::cfg_slice[1]]
    ob_id = 0
    nref = 0
    for cfg, ps in cfgs:
        if nref >= max_refuted:
            break
        label = cfg_label(cfg, ps)
        work = [[]]
        npaths = 0
        first = True
        dead_in_cfg = 0
        while work:
            decisions = work.pop()
            npaths += 1
            if npaths > c.max_paths:
                res.fallback = 'path budget exceeded (%d) in config %s' % (c.max_paths, label)
                break
            ctx = Ctx(decisions, fp=c.fp)
            ctx.dual = bool(c.defs.get('dual'))
            import pyvc.values as _V
            _V.DUAL[0] = ctx.dual
            it = Interp(ctx, c, registry, overrides)
            it.sizes = {}
            it.ghost_env = {}
            it.top_fn = fn
            ctx.ghost.update(c.ghost_init)
            outcome = None
            t0 = time.time()
            try:
                shared = {}
                penv = {}
                for pname, sp in ps.items():
                    penv[pname] = instantiate(it, sp, pname, shared)
                allsizes = set()
                for sp in c.params.values():
                    size_names(sp, allsizes)
                for nm in sorted(allsizes):
                    get_size(it, nm)
                it.frames.append(Frame(mod, cname, fn, penv))
                try:
                    for gname, gexpr in c.ghosts.items():
                        it.pure += 1
                        try:
                            it.ghost_env[gname] = it.eval(it.parse_clause(gexpr), it.clause_env(penv))
                        finally:
                            it.pure -= 1
                    it.assume_clauses(c.requires, it.clause_env(penv))
                finally:
                    it.frames.pop()
                if first:
                    first = False
                    s = z3.Solver()
                    s.set('timeout', 5000)
                    s.add(*ctx.hyps())
                    r = s.check()
                    res.vacuity.append({'config': label, 'requires_satisfiable': str(r)})
                    if r == z3.unsat:
                        raise Infeasible()
                old = snapshot(it.clause_env(penv), {})
                it.old_env = old
                # argument binding: parameters by name
                a = fn.args
                names = [p.arg for p in a.posonlyargs + a.args + a.kwonlyargs]
                call_env = {}
                for nm in names:
                    if nm in penv:
                        call_env[nm] = penv[nm]
                missing = [nm for nm in names if nm not in call_env]
                if a.vararg and a.vararg.arg in penv:
                    call_env[a.vararg.arg] = penv[a.vararg.arg]
                if a.kwarg and a.kwarg.arg in penv:
                    call_env[a.kwarg.arg] = penv[a.kwarg.arg]
                if missing:
                    # defaults
                    it.frames.append(Frame(mod, cname, fn, {}))
                    try:
                        pos = a.posonlyargs + a.args
                        for p, d in zip(pos[len(pos) - len(a.defaults):], a.defaults):
                            if p.arg in missing:
                                call_env[p.arg] = it.eval(d, {})
                        for p, d in zip(a.kwonlyargs, a.kw_defaults):
                            if p.arg in missing and d is not None:
                                call_env[p.arg] = it.eval(d, {})
                    finally:
                        it.frames.pop()
                try:
                    rv = it.run_body(mod, cname, fn, call_env)
                    outcome = ('return', rv)
                except PyRaise as e:
                    outcome = ('raise', e.etype)
                except PathEnd:
                    outcome = ('pathend', None)
                # post-state obligations
                it.frames.append(Frame(mod, cname, fn, penv))
                try:
                    post_obligations(it, c, penv, old, outcome)
                finally:
                    it.frames.pop()
            except Infeasible:
                outcome = ('infeasible', None)
                res.infeasible_paths = getattr(res, 'infeasible_paths', 0) + 1
                if first:
                    # requires unsatisfiable in this configuration
                    if outcome_is_first(res, label, npaths):
                        res.vacuity.append({'config': label, 'requires_satisfiable': 'unsat'})
                else:
                    dead_in_cfg += 1
            except Unsupported as e:
                res.fallback = 'unsupported: %s (config %s)' % (e, label)
                work = []
                break
            except RecursionError:
                res.fallback = 'recursion limit'
                break
            res.symex_seconds += time.time() - t0
            work.extend(ctx.alts)
            res.callees |= set(it.used_contracts)
            res.inlined |= set(it.inlined)
            res.assumed |= set(it.assumed_used)
            ctx.frozen_iterms += 1
            try:
                sum_facts = npm.sum_extensionality(ctx)
            finally:
                ctx.frozen_iterms -= 1
            for ob in ctx.obligs:
                ob_id += 1
                st = discharge(ob, timeout_ms, extra=sum_facts,
                               nice=nice_model_factory(old, it.sizes) if want_models else None, sizes=it.sizes)
                rec = {'id': '%s/%s/%s#%d' % (c.name, ob.kind, label, ob_id), 'kind': ob.kind,
                       'name': ob.name, 'config': label, 'path': ''.join(str(int(d)) for d in ob.path),
                       'status': st, 'seconds': round(ob.seconds, 4), 'backend': ob.backend,
                       'outcome': outcome[0] if outcome else None}
                if st == 'refuted' and want_models:
                    try:
                        memo = {}
                        rec['model'] = {k: concretize(old[k], ob.model, memo) for k in penv}
                        rec['model_sizes'] = {k: concretize(v, ob.model) for k, v in it.sizes.items()}
                        rec['model']['__sizes__'] = rec['model_sizes']
                        rec['model']['__aux__'] = [[nm, concretize(t, ob.model)] for nm, t in ctx.aux]
                        gh = {}
                        for gk, gv in ctx.ghost.items():
                            if gk != 'sums':
                                try:
                                    gh[gk] = concretize(gv, ob.model)
                                except Exception:
                                    pass
                        rec['model']['__ghost__'] = gh
                        consts = []
                        for d in ob.model.decls():
                            if d.arity() == 0 and len(consts) < 60:
                                v = ob.model[d]
                                if z3.is_fp(v) or z3.is_real(v):
                                    consts.append([d.name(), concretize(v, ob.model)])
                        rec['model']['__consts__'] = consts
                    except Exception as e:
                        rec['model_error'] = repr(e)
                if st == 'unknown':
                    rec['reason'] = ob.info.get('reason')
                if ob.info.get('identity'):
                    rec['identity'] = ob.info.get('identity')
                rec['clause'] = ob.info.get('clause')
                res.obligations.append(rec)
                if st == 'refuted':
                    nref += 1
                    if nref >= max_refuted:
                        break
            if nref >= max_refuted:
                res.truncated = True
                work = []
                break
        res.paths += npaths
        if res.error or res.fallback:
            break
        if npaths and dead_in_cfg == npaths and not work:
            # requires satisfiable but every path died: the hypotheses collected on the way (callee
            # postconditions, assumed contracts, axioms) are inconsistent -> nothing was checked
            res.error = 'every path infeasible in configuration %s (inconsistent hypotheses; nothing checked)' % label
            break
    if res.vacuity and all(v['requires_satisfiable'] == 'unsat' for v in res.vacuity):
        res.error = 'requires unsatisfiable in every configuration (vacuous contract)'
    res.seconds = time.time() - t_start
    return res


def outcome_is_first(res, label, npaths):
    return npaths == 1 and not any(v['config'] == label for v in res.vacuity)


def post_obligations(it, c, penv, old, outcome):
    ctx = it.ctx
    kind, val = outcome
    cenv = it.clause_env(penv)
    it.old_env = old
    if kind == 'pathend':
        return
    if kind == 'return':
        cenv['result'] = val
        it.prove_clauses(c.ensures + c.ensures_check_only, cenv, 'post', c.name)
        for et, cond in c.raises_iff.items():
            it.prove_clauses(['not (%s)' % cond], _old_view(it, cenv, old), 'exc',
                             '%s: no %s unless' % (c.name, et))
        frame_obligations(it, penv, old, c.modifies, c.name)
    elif kind == 'raise':
        et = val
        if et in c.raises_iff:
            it.prove_clauses([c.raises_iff[et]], _old_view(it, cenv, old), 'exc',
                             '%s: %s only if' % (c.name, et))
        elif '*' in c.raises_iff and et in c.may_raise:
            it.prove_clauses([c.raises_iff['*']], _old_view(it, cenv, old), 'exc',
                             '%s: raises (%s) only if' % (c.name, et))
        elif et in c.may_raise:
            ctx.oblige('exc', '%s: %s allowed' % (c.name, et), True)
        else:
            ctx.oblige('exc', '%s: unexpected %s' % (c.name, et), False)
        cenv['raised'] = et
        it.prove_clauses(c.exc_ensures, cenv, 'exc-post', c.name)
        if c.exc_modifies is not None:
            frame_obligations(it, penv, old, c.exc_modifies, c.name + ' (exceptional exit)')
        elif c.exc_ensures:
            frame_obligations(it, penv, old, c.modifies, c.name + ' (exceptional exit)')


def _old_view(it, cenv, old):
    e = dict(cenv)
    e.update(old)
    return e
