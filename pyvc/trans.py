"""Transcendental functions as uninterpreted functions constrained by true facts (listed in the
evidence as trusted mathematics): instantiated at every application term and pairwise."""
import z3
from fractions import Fraction
from .values import *    # noqa
from . import npmodel as npm


def pi_const(ctx):
    if 'pi' not in ctx.ghost:
        p = z3.Real('pi')
        ctx.axioms.append(z3.And(p > z3.RealVal('3.14159265'), p < z3.RealVal('3.14159266')))
        ctx.ghost['pi'] = p
    return ctx.ghost['pi']


def _registry(ctx, name):
    reg = ctx.ghost.setdefault('trans', {})
    return reg.setdefault(name, {'f': z3.Function('fn_' + name, RealS, RealS), 'apps': []})


def _real(x):
    if is_z3(x):
        return z3.ToReal(x) if z3.is_int(x) else x
    return z3.RealVal(pyfloat_to_fraction(x) if isinstance(x, float) else Fraction(x))


def apply1(ctx, name, t):
    """real -> real application with its axioms"""
    t = _real(t)
    r = _registry(ctx, name)
    f = r['f']
    v = f(t)
    key = t.get_id()
    if any(k == key for k, _, _ in r['apps']):
        return v
    A = ctx.axioms.append
    if name == 'tanh':
        A(z3.And(v > -1, v < 1))
        A(z3.And(z3.Implies(t == 0, v == 0), z3.Implies(t > 0, v > 0), z3.Implies(t < 0, v < 0)))
        for _, t2, v2 in r['apps']:
            A(z3.Implies(t == -t2, v == -v2))                 # odd
            A(z3.Implies(t <= t2, v <= v2))                   # monotone
            A(z3.Implies(t2 <= t, v2 <= v))
            A(z3.Implies(t == t2, v == v2))
    elif name == 'exp':
        A(v > 0)
        A(v >= 1 + t)
        A(z3.Implies(t == 0, v == 1))
        A(z3.Implies(t <= 0, v <= 1))
        A(z3.Implies(t >= 0, v >= 1))
        for _, t2, v2 in r['apps']:
            A(z3.Implies(t == t2, v == v2))
            A(z3.Implies(t <= t2, v <= v2))
            A(z3.Implies(t2 <= t, v2 <= v))
            A(z3.Implies(t < t2, v < v2))
            A(z3.Implies(t2 < t, v2 < v))
    elif name == 'log':
        A(z3.Implies(t > 0, v <= t - 1))
        A(z3.Implies(t == 1, v == 0))
        A(z3.Implies(t >= 1, v >= 0))
        for _, t2, v2 in r['apps']:
            A(z3.Implies(z3.And(t > 0, t2 > 0, t <= t2), v <= v2))
            A(z3.Implies(z3.And(t > 0, t2 > 0, t2 <= t), v2 <= v))
    elif name in ('sin', 'cos'):
        A(z3.And(v >= -1, v <= 1))
    r['apps'].append((key, t, v))
    return v


def apply_trans(it, name, args):
    ctx = it.ctx
    a0 = args[0]
    if name == 'arctan2':
        f = ctx.ghost.setdefault('atan2', z3.Function('fn_atan2', RealS, RealS, RealS))
        y, x = args
        if npm.is_arr(y) or npm.is_arr(x) or isinstance(y, Cx) or isinstance(x, Cx):
            raise Unsupported('arctan2 on arrays/complex')
        return f(_real(y), _real(x))
    if npm.is_arr(a0):
        return npm.map1(ctx, a0, lambda x: apply1(ctx, name, x), 'real')
    if isinstance(a0, Cx):
        if getattr(ctx, 'dual', False):
            # first-order (dual number) rules: f(a + eps b) = f(a) + eps f'(a) b
            re = apply1(ctx, name, a0.re)
            if name == 'tanh':
                d = scalar_arith('-', 1, scalar_arith('*', re, re))
            elif name == 'exp':
                d = re
            elif name == 'log':
                d = scalar_arith('/', 1, a0.re)
            else:
                raise Unsupported('dual rule for ' + name)
            return Cx(re, scalar_arith('*', d, a0.im))
        raise Unsupported('%s of complex value' % name)
    if not is_z3(a0):
        if name in ('tanh',) and a0 == 0:
            return 0
        if name == 'exp' and a0 == 0:
            return 1
        if name == 'log' and a0 == 1:
            return 0
    return apply1(ctx, name, a0)
