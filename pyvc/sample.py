"""Concrete input sampler (guard 2.7): draws small float-exact inputs from a contract's parameter
specs, in the same JSON format as counter-models, so the native runner can execute the real
function and evaluate the contract on them.  Passing samples prove nothing (bounded, labelled as
such); a failing sample on the unchanged tree means the contract (or the engine that 'proved' it)
is wrong."""
import random
from . import spec as S


def frac(rng):
    k = rng.choice([-24, -16, -8, -4, -2, -1, 0, 0, 1, 2, 3, 4, 8, 12, 16, 24, 40])
    return {'__frac__': [k, 8]}


def sample_value(sp, rng, sizes, shared, path):
    if not isinstance(sp, S.T):
        return _plain(sp)
    if isinstance(sp, S.Const):
        return _plain(sp.v)
    if isinstance(sp, S.OneOf):
        return sample_value(rng.choice(sp.alts), rng, sizes, shared, path)
    if isinstance(sp, (S.Real, S.FP)):
        return frac(rng)
    if isinstance(sp, S.Int):
        lo = sp.lo if sp.lo is not None else -3
        hi = sp.hi if sp.hi is not None else 4
        return rng.randint(lo, max(lo, hi))
    if isinstance(sp, S.Bool):
        return rng.random() < 0.5
    if isinstance(sp, S.Complex):
        return {'__cx__': [frac(rng), frac(rng)]}
    if isinstance(sp, S.Size):
        return size_of(sp.name, rng, sizes)
    if isinstance(sp, S.Arr):
        shape = [size_of(s, rng, sizes) for s in sp.shape]
        n = 1
        for s in shape:
            n *= s
        if sp.dtype == 'int':
            data = [rng.randint(-3, 3) for _ in range(n)]
        elif sp.dtype == 'bool':
            data = [rng.random() < 0.5 for _ in range(n)]
        elif sp.dtype == 'complex':
            data = [{'__cx__': [frac(rng), frac(rng)]} for _ in range(n)]
        else:
            data = [frac(rng) for _ in range(n)]
        v = {'__arr__': data, 'shape': shape, 'dtype': sp.dtype}
        shared[path] = v
        return v
    if isinstance(sp, S.Obj):
        o = {'__obj__': sp.cls, 'id': len(shared), 'attrs': {}}
        shared[path] = o
        for k, v in sp.attrs.items():
            o['attrs'][k] = sample_value(v, rng, sizes, shared, path + '.' + k)
        return o
    if isinstance(sp, S.DictT):
        return {'__dict__': [[k, sample_value(v, rng, sizes, shared, '%s[%r]' % (path, k))]
                             for k, v in sp.items.items()]}
    if isinstance(sp, (S.TupleT, S.ListT)):
        return {'__seq__': [sample_value(v, rng, sizes, shared, '%s[%d]' % (path, i))
                            for i, v in enumerate(sp.items)], 'tuple': isinstance(sp, S.TupleT)}
    if isinstance(sp, S.Callable):
        return {'__callable__': sample_value(sp.ret, rng, sizes, shared, path + '()')}
    if isinstance(sp, S.Shared):
        o = shared.get(sp.path)
        if isinstance(o, dict) and '__obj__' in o:
            return {'__ref__': o['id']}
        return o
    if isinstance(sp, S.SliceT):
        return {'__slice__': [size_of(sp.lo, rng, sizes), size_of(sp.hi, rng, sizes), None]}
    if isinstance(sp, S.ViewOf):
        return {'__viewof__': sp.path, 'lo': size_of(sp.lo, rng, sizes), 'hi': size_of(sp.hi, rng, sizes)}
    if isinstance(sp, S.Seq):
        n = size_of(sp.size, rng, sizes)
        return {'__seq__': [sample_value(sp.elem, rng, sizes, shared, '%s[%d]' % (path, i))
                            for i in range(n)], 'tuple': False}
    if isinstance(sp, S.OpaqueT):
        return {'__opaque__': sp.name or path}
    return None


def size_of(name, rng, sizes):
    if isinstance(name, int):
        return name
    if name not in sizes:
        sizes[name] = rng.choice([0, 1, 2, 2, 3, 3, 4])
    return sizes[name]


def _plain(v):
    if isinstance(v, float):
        from fractions import Fraction
        f = Fraction(repr(v))
        return {'__frac__': [f.numerator, f.denominator]}
    if isinstance(v, (list, tuple)):
        return {'__seq__': [_plain(x) for x in v], 'tuple': isinstance(v, tuple)}
    if isinstance(v, dict):
        return {'__dict__': [[k, _plain(x)] for k, x in v.items()]}
    if isinstance(v, type):
        return {'__type__': v.__name__}
    return v


def samples(contract, count, seed):
    rng = random.Random('%s|%s' % (contract.name, seed))
    out = []
    for _ in range(count):
        sizes, shared = {}, {}
        if getattr(contract, 'sampler', None):
            vals = contract.sampler(rng)
            if vals is not None:
                out.append(vals)
                continue
        out.append({k: sample_value(sp, rng, sizes, shared, k) for k, sp in contract.params.items()})
    return out
