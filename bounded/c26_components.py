"""Bounded tier (C26, labelled bounded): every stock math component named in the statement, built through the public
API on an enumerated grid of option sets (shapes, vec_size, scaling factors, units, axis, flags), compared with
 (1) an independent NumPy formula written from the documentation, and
 (2) complex-step total derivatives of the real component (Problem.check_totals(method='cs'), fwd and rev),
on deterministic pseudo-random inputs (seeded), incl. sign changes and values on both sides of the normalisation
switch |rhs| = 2 of EQConstraintComp / BalanceComp.
"""
import sys
import json
import itertools
import numpy as np


def rnd(rng, *shape):
    return rng.choice([-3.0, -2.5, -1.25, -0.5, 0.25, 0.75, 1.5, 2.0, 2.75, 4.0], size=shape) + rng.uniform(-0.1, 0.1, size=shape)


def build(comp, ivals, units=None):
    import openmdao.api as om
    p = om.Problem(reports=False)
    ivc = p.model.add_subsystem('ivc', om.IndepVarComp(), promotes=['*'])
    for k, v in ivals.items():
        ivc.add_output(k, val=v, units=(units or {}).get(k))
    p.model.add_subsystem('c', comp, promotes=['*'])
    return p


def totals_ok(p, of, wrt, tol=1e-7):
    """analytic totals (current mode) vs complex step"""
    data = p.check_totals(of=of, wrt=wrt, method='cs', out_stream=None)
    worst = 0.0
    for key, d in data.items():
        jf = d.get('J_fwd', d.get('J_rev'))
        if jf is None:
            jf = d['J_rev']
        jfd = d['J_fd']
        err = np.max(np.abs(np.asarray(jf) - np.asarray(jfd))) if np.size(jfd) else 0.0
        worst = max(worst, err / max(1.0, np.max(np.abs(jfd)) if np.size(jfd) else 1.0))
    return worst <= tol, worst


class Tier:
    def __init__(self):
        self.ev = 0
        self.nontrivial = 0
        self.fails = []
        self.samples = []

    def fail(self, **kw):
        if len(self.fails) < 30:
            self.fails.append(kw)
        else:
            self.fails.append(None)

    def run(self, comp_name, desc, make, inputs, oracle, of, units=None, implicit=False, setvals=None):
        """make() -> component; inputs: dict name->array; oracle(inputs)->dict out->array"""
        for mode in ('fwd', 'rev'):
            self.ev += 1
            try:
                p = build(make(), inputs, units)
                p.setup(force_alloc_complex=True, mode=mode)
                if setvals:
                    for k, v in setvals.items():
                        p.set_val(k, v)
                p.run_model()
                exp = oracle(inputs)
                bad = None
                for k, v in exp.items():
                    got = p.get_val(k)
                    v = np.asarray(v)
                    if got.shape != v.shape and got.size == v.size and 1 in v.shape:
                        v = v.reshape(got.shape)        # vec_size = 1: the components document a squeezed shape
                    if got.shape != v.shape or not np.allclose(got, v, rtol=1e-9, atol=1e-11):
                        bad = (k, np.asarray(got).tolist(), np.asarray(v).tolist())
                        break
                if bad:
                    self.fail(kind='value differs from the documented formula', component=comp_name, options=desc, output=bad[0], got=bad[1], expected=bad[2])
                    continue
                ok, worst = totals_ok(p, of, list(inputs))
                if not ok:
                    self.fail(kind='partials differ from complex step', component=comp_name, options=desc, mode=mode, rel_err=worst)
                    continue
                self.nontrivial += 1
                if len(self.samples) < 3 and mode == 'fwd':
                    self.samples.append({'component': comp_name, 'options': desc, 'max_rel_deriv_err': worst})
            except Exception as e:      # noqa
                self.fail(kind='exception', component=comp_name, options=desc, mode=mode, error='%s: %s' % (type(e).__name__, str(e)[:200]))


def main(tier):
    import openmdao.api as om
    rng = np.random.default_rng(20260922)
    T = Tier()
    big = tier != 'quick'
    vec_sizes = [1, 2, 3] if big else [1, 3]
    lengths = [1, 2, 3, 4] if big else [1, 3]

    # ---- AddSubtractComp ----
    for vs, ln, nin in itertools.product(vec_sizes, lengths, [2, 3] if big else [2, 3]):
        for sf in ([None, [1.0, -1.0, 0.5][:nin], [2.5, 0.0, -3.0][:nin]]):
            for units in (None, 'm'):
                shape = (vs,) if ln == 1 else (vs, ln)
                names = ['a', 'b', 'cc'][:nin]
                ins = {k: rnd(rng, *shape) for k in names}
                sfs = [1.0] * nin if sf is None else sf
                T.run('AddSubtractComp', dict(vec_size=vs, length=ln, scaling_factors=sf, units=units),
                      lambda: om.AddSubtractComp('out', names, vec_size=vs, length=ln, scaling_factors=sf, units=units), ins,
                      lambda i: {'out': sum(s * i[k] for s, k in zip(sfs, names))}, ['out'], units={k: units for k in names})
    # two equations sharing an input
    def two_eq():
        c = om.AddSubtractComp()
        c.add_equation('o1', ['a', 'b'], vec_size=3, scaling_factors=[1, -2])
        c.add_equation('o2', ['b', 'cc', 'a'], vec_size=3, scaling_factors=[3, 1, 0.5])
        return c
    ins = {k: rnd(rng, 3) for k in ('a', 'b', 'cc')}
    T.run('AddSubtractComp', 'two equations sharing inputs', two_eq, ins, lambda i: {'o1': i['a'] - 2 * i['b'], 'o2': 3 * i['b'] + i['cc'] + 0.5 * i['a']}, ['o1', 'o2'])

    # ---- MuxComp ----
    for vs in ([2, 3, 4] if big else [2, 3]):
        for shape, axis in [((3,), 0), ((3,), 1), ((2, 3), 0), ((2, 3), 1), ((2, 3), 2), ((1,), 0)]:
            def mk(vs=vs, shape=shape, axis=axis):
                c = om.MuxComp(vec_size=vs)
                c.add_var('v', shape=shape, axis=axis)
                return c
            ins = {'v_%d' % k: rnd(rng, *shape) for k in range(vs)}
            T.run('MuxComp', dict(vec_size=vs, shape=shape, axis=axis), mk, ins,
                  lambda i, vs=vs, axis=axis: {'v': np.stack([i['v_%d' % k] for k in range(vs)], axis=axis)}, ['v'])

    # ---- DotProductComp / VectorMagnitudeComp / CrossProductComp ----
    for vs, ln in itertools.product(vec_sizes, lengths):
        ins = {'a': rnd(rng, vs, ln), 'b': rnd(rng, vs, ln)}
        T.run('DotProductComp', dict(vec_size=vs, length=ln), lambda: om.DotProductComp(vec_size=vs, length=ln), ins,
              lambda i: {'c': np.sum(i['a'] * i['b'], axis=1)}, ['c'])
        T.run('DotProductComp', dict(vec_size=vs, length=ln, units='a ft, b m -> c m**2'),
              lambda: om.DotProductComp(vec_size=vs, length=ln, a_units='m', b_units='m', c_units='m**2'), ins,
              lambda i: {'c': np.sum(0.3048 * i['a'] * i['b'], axis=1)}, ['c'], units={'a': 'ft', 'b': 'm'})
        ins1 = {'a': rnd(rng, vs, ln)}
        T.run('VectorMagnitudeComp', dict(vec_size=vs, length=ln), lambda: om.VectorMagnitudeComp(vec_size=vs, length=ln, in_name='a', mag_name='m'), ins1,
              lambda i: {'m': np.sqrt(np.sum(i['a'] ** 2, axis=1))}, ['m'])
    def two_prod():
        c = om.DotProductComp(vec_size=2, length=3)
        c.add_product('d', a_name='a', b_name='e', vec_size=2, length=3)
        return c
    ins = {'a': rnd(rng, 2, 3), 'b': rnd(rng, 2, 3), 'e': rnd(rng, 2, 3)}
    T.run('DotProductComp', 'two products sharing input a', two_prod, ins, lambda i: {'c': np.sum(i['a'] * i['b'], axis=1), 'd': np.sum(i['a'] * i['e'], axis=1)}, ['c', 'd'])
    for vs in vec_sizes:
        ins = {'a': rnd(rng, vs, 3), 'b': rnd(rng, vs, 3)}
        T.run('CrossProductComp', dict(vec_size=vs), lambda: om.CrossProductComp(vec_size=vs), ins, lambda i: {'c': np.cross(i['a'], i['b'])}, ['c'])
        T.run('CrossProductComp', dict(vec_size=vs, units='a ft -> c m*N'), lambda: om.CrossProductComp(vec_size=vs, a_units='m', b_units='N', c_units='N*m'), ins,
              lambda i: {'c': np.cross(0.3048 * i['a'], i['b'])}, ['c'], units={'a': 'ft', 'b': 'N'})

    # ---- MatrixVectorProductComp ----
    for vs, (m, n) in itertools.product(vec_sizes, [(3, 3), (2, 4), (4, 1), (1, 3)] if big else [(3, 3), (2, 4)]):
        ins = {'A': rnd(rng, vs, m, n), 'x': rnd(rng, vs, n)}
        T.run('MatrixVectorProductComp', dict(vec_size=vs, A_shape=(m, n)), lambda: om.MatrixVectorProductComp(vec_size=vs, A_shape=(m, n)), ins,
              lambda i: {'b': np.einsum('nij,nj->ni', i['A'], i['x'])}, ['b'])

    # ---- EQConstraintComp / BalanceComp (residual) ----
    for n, normalize, use_mult in itertools.product([1, 4], (True, False), (True, False)):
        rhs = np.array([2.0, -2.0, 0.5, -3.5][:n]) + (0 if n == 1 else rng.uniform(-0.01, 0.01, size=n))
        for rhsv in (rhs, np.array([1.9999, -2.0001, 0.0, 7.0][:n])):
            ins = {'lhs:y': rnd(rng, n), 'rhs:y': rhsv.copy()}
            if use_mult:
                ins['mult:y'] = rnd(rng, n)

            def oracle(i):
                r = i['rhs:y']
                f = np.where(np.abs(r) >= 2, np.abs(r), 0.25 * r ** 2 + 1) if normalize else np.ones_like(r)
                return {'y': (i.get('mult:y', 1.0) * i['lhs:y'] - r) / f}
            T.run('EQConstraintComp', dict(shape=(n,), normalize=normalize, use_mult=use_mult, rhs=rhsv.tolist()),
                  lambda: om.EQConstraintComp('y', normalize=normalize, use_mult=use_mult, shape=(n,)), ins, oracle, ['y'])
    # scalar-shaped variables (shape=() is not offered by the API; shape (1,) is the scalar case)

    # BalanceComp: residual formula and its derivatives, through a Newton-solved model x**2 * mult = rhs
    for n, normalize, use_mult in itertools.product([1, 3], (True, False), (True, False)):
        T.ev += 1
        try:
            p = om.Problem(reports=False)
            ivc = p.model.add_subsystem('ivc', om.IndepVarComp(), promotes=['*'])
            rhs = np.array([4.0, 1.0, 9.0][:n])
            mult = np.array([1.0, 0.5, 2.0][:n])
            ivc.add_output('rhs:x', rhs)
            ivc.add_output('mult:x', mult)
            class Sq(om.ExplicitComponent):
                def setup(self):
                    self.add_input('x', np.ones(n))
                    self.add_output('lhs', np.ones(n))
                    self.declare_partials('lhs', 'x', rows=np.arange(n), cols=np.arange(n))

                def compute(self, inputs, outputs):
                    outputs['lhs'] = inputs['x'] ** 2

                def compute_partials(self, inputs, partials):
                    partials['lhs', 'x'] = 2 * inputs['x']
            p.model.add_subsystem('e', Sq(), promotes_inputs=['x'], promotes_outputs=[('lhs', 'lhs:x')])
            p.model.add_subsystem('b', om.BalanceComp('x', val=np.ones(n), normalize=normalize, use_mult=use_mult), promotes=['*'])
            p.model.nonlinear_solver = om.NewtonSolver(solve_subsystems=False, maxiter=50, atol=1e-13, rtol=1e-13, iprint=-1)
            p.model.linear_solver = om.DirectSolver()
            p.setup(force_alloc_complex=True)
            p.run_model()
            x = p.get_val('x')
            exp = np.sqrt(rhs / (mult if use_mult else 1.0))
            if not np.allclose(x, exp, rtol=1e-8):
                T.fail(kind='value differs from the documented formula', component='BalanceComp', options=dict(n=n, normalize=normalize, use_mult=use_mult), got=x.tolist(), expected=exp.tolist())
                continue
            # residual formula at a non-converged state
            p.set_val('x', x + 0.3)
            p.model.run_apply_nonlinear()
            r = p.model._residuals['b.x'] if 'b.x' in p.model._residuals else p.model._residuals['x']
            lhs = p.get_val('lhs:x')      # apply_nonlinear does not re-run the explicit source
            f = np.where(np.abs(rhs) >= 2, np.abs(rhs), 0.25 * rhs ** 2 + 1) if normalize else np.ones_like(rhs)
            expr = ((mult if use_mult else 1.0) * lhs - rhs) / f
            if not np.allclose(r, expr, rtol=1e-9):
                T.fail(kind='value differs from the documented formula', component='BalanceComp', options=dict(n=n, normalize=normalize, use_mult=use_mult, what='residual'), got=np.asarray(r).tolist(), expected=expr.tolist())
                continue
            p.run_model()
            ok, worst = totals_ok(p, ['x'], ['rhs:x', 'mult:x'] if use_mult else ['rhs:x'])
            if not ok:
                T.fail(kind='partials differ from complex step', component='BalanceComp', options=dict(n=n, normalize=normalize, use_mult=use_mult), rel_err=worst)
                continue
            T.nontrivial += 1
        except Exception as e:      # noqa
            T.fail(kind='exception', component='BalanceComp', options=dict(n=n, normalize=normalize, use_mult=use_mult), error='%s: %s' % (type(e).__name__, str(e)[:200]))

    # ---- LinearSystemComp ----
    for size, vs, vecA in [(1, 1, False), (3, 1, False), (3, 2, False), (3, 2, True), (2, 3, True)]:
        T.ev += 1
        try:
            p = om.Problem(reports=False)
            ivc = p.model.add_subsystem('ivc', om.IndepVarComp(), promotes=['*'])
            base = np.eye(size) * 4 + rnd(rng, size, size) * 0.3
            Aval = np.stack([base + 0.1 * k for k in range(vs)]) if vecA else base
            bval = rnd(rng, vs, size) if vs > 1 else rnd(rng, size)
            ivc.add_output('A', Aval)
            ivc.add_output('b', bval)
            p.model.add_subsystem('ls', om.LinearSystemComp(size=size, vec_size=vs, vectorize_A=vecA), promotes=['*'])
            p.setup(force_alloc_complex=True)
            p.run_model()
            x = p.get_val('x')
            if vs > 1:
                exp = np.stack([np.linalg.solve(Aval[k] if vecA else Aval, bval[k]) for k in range(vs)])
            else:
                exp = np.linalg.solve(Aval, bval)
            desc = dict(size=size, vec_size=vs, vectorize_A=vecA)
            if x.shape != exp.shape or not np.allclose(x, exp, rtol=1e-9):
                T.fail(kind='value differs from the documented formula', component='LinearSystemComp', options=desc, got=x.tolist(), expected=exp.tolist())
                continue
            ok, worst = totals_ok(p, ['x'], ['A', 'b'], tol=1e-6)
            if not ok:
                T.fail(kind='partials differ from complex step', component='LinearSystemComp', options=desc, rel_err=worst)
                continue
            T.nontrivial += 1
        except Exception as e:      # noqa
            T.fail(kind='exception', component='LinearSystemComp', options=dict(size=size, vec_size=vs, vectorize_A=vecA), error='%s: %s' % (type(e).__name__, str(e)[:200]))

    # ---- SplineComp ----
    xcp = np.array([-2.0, -0.5, 0.0, 1.0, 2.5, 4.0])
    xin_sets = {'interior+nodes': np.array([-2.0, -1.1, -0.5, 0.3, 1.0, 3.2, 4.0]),
                'beyond both ends': np.array([-3.0, -2.0, 0.7, 4.0, 5.5])}
    methods = ['akima', 'slinear', 'lagrange2', 'lagrange3', 'cubic', 'scipy_slinear', 'scipy_cubic'] if big else ['akima', 'slinear', 'lagrange3', 'cubic']
    for method, (xname, xin), vs in itertools.product(methods, xin_sets.items(), [1, 2]):
        T.ev += 1
        desc = dict(method=method, x_interp=xname, vec_size=vs)
        try:
            ycp = np.stack([2.0 * xcp - 1.0, 0.5 * xcp ** 2 - xcp][:vs])        # row 0 linear (every method is exact on it inside the grid)
            p = om.Problem(reports=False)
            ivc = p.model.add_subsystem('ivc', om.IndepVarComp(), promotes=['*'])
            ivc.add_output('ycp', ycp)
            c = om.SplineComp(method=method, x_cp_val=xcp, x_interp_val=xin, vec_size=vs)
            c.add_spline(y_cp_name='ycp', y_interp_name='y')
            p.model.add_subsystem('s', c, promotes=['*'])
            p.setup(force_alloc_complex=True)
            p.run_model()
            y = p.get_val('y')
            inside = (xin >= xcp[0]) & (xin <= xcp[-1])
            if not np.allclose(y[0][inside], (2.0 * xin - 1.0)[inside], atol=1e-9):
                T.fail(kind='value differs from the documented formula', component='SplineComp', options=desc, what='linear data not reproduced inside the grid',
                       got=y[0].tolist(), expected=(2.0 * xin - 1.0).tolist())
                continue
            nodes = np.isin(xin, xcp)
            if vs > 1 and not np.allclose(y[1][nodes], (0.5 * xin ** 2 - xin)[nodes], atol=1e-9):
                T.fail(kind='value differs from the documented formula', component='SplineComp', options=desc, what='not exact at control points')
                continue
            # linear in the table values with the jacobian as coefficients (y = J ycp) + jacobian vs complex step
            J = p.compute_totals(of=['y'], wrt=['ycp'], return_format='array')
            if not np.allclose(J @ ycp.ravel(), y.ravel(), atol=1e-8):
                T.fail(kind='partials differ from complex step', component='SplineComp', options=desc, what='y != (dy/dycp) ycp: interpolant not linear in the control values with the declared partials')
                continue
            if method.startswith('scipy'):
                data = p.check_totals(of=['y'], wrt=['ycp'], method='fd', form='central', step=1e-4, out_stream=None)
                d0 = list(data.values())[0]
                jf, jfd = (d0['J_fwd'] if 'J_fwd' in d0 else d0['J_rev']), d0['J_fd']     # (mode 'auto' picks rev when y is smaller than ycp)
                ok, worst = bool(np.max(np.abs(jf - jfd)) < 1e-5), float(np.max(np.abs(jf - jfd)))
            else:
                ok, worst = totals_ok(p, ['y'], ['ycp'])
            if not ok:
                T.fail(kind='partials differ from complex step', component='SplineComp', options=desc, rel_err=worst)
                continue
            T.nontrivial += 1
        except Exception as e:      # noqa
            T.fail(kind='exception', component='SplineComp', options=desc, error='%s: %s' % (type(e).__name__, str(e)[:200]))

    print(json.dumps({'evaluations': T.ev, 'distinct_nontrivial': T.nontrivial, 'n_failures': len(T.fails),
                      'failures': [f for f in T.fails if f], 'samples': T.samples}, default=str))


if __name__ == '__main__':
    main(sys.argv[1] if len(sys.argv) > 1 else 'quick')
