"""Bounded tier (C06, labelled bounded): the string-level unit API over the WHOLE shipped library.

Exhaustive domain: every unit name in the library (and, in the thorough tier, every SI prefix x
base-prefixable unit the parser accepts), all ordered pairs, all triples inside each dimension
class (capped per class), depth<=2 composite expressions (product, quotient, integer power).
Contracts checked natively (same statements as the proved PhysicalUnit contracts):
  R  round trip A->B->A is the identity          T  A->B->C equals A->C
  E  compatibility is reflexive/symmetric/transitive and decides whether unit_conversion raises
  S  simplify_unit(s) denotes the same dimension, factor and offset as s
  C  composite expressions get the factor implied by their parts
Usage: c06_units_library.py quick|thorough
"""
import sys
import json
import itertools
import math


def rclose(a, b, tol=1e-12):
    return abs(a - b) <= tol * max(abs(a), abs(b))


def close(a, b, tol=1e-9):
    return abs(a - b) <= tol * (1 + abs(a) + abs(b))


def main(tier):
    from openmdao.utils import units as U
    lib = U._UNIT_LIB
    names = sorted(lib.unit_table.keys()) if hasattr(lib, 'unit_table') else sorted(lib.units)
    ev = 0
    nontrivial = set()
    fails = []
    samples = []

    def fail(kind, **kw):
        if len(fails) < 20:
            fails.append(dict(kind=kind, **kw))
        else:
            fails.append(None)
    units = {}
    for n in names:
        try:
            u = U._find_unit(n)
        except Exception as e:
            fail('parse', unit=n, error=repr(e))
            continue
        if u is not None:
            units[n] = u
    xs = [0.0, 1.0, -3.5, 273.15]
    classes = {}
    for n, u in units.items():
        classes.setdefault(tuple(u._powers), []).append(n)
    # E + R over all ordered pairs
    for a, b in itertools.product(sorted(units), repeat=2):
        ev += 1
        compat = U.is_compatible(a, b)
        if compat != U.is_compatible(b, a):
            fail('symmetry', a=a, b=b)
        if compat != (tuple(units[a]._powers) == tuple(units[b]._powers)):
            fail('compat-vs-dimension', a=a, b=b)
        try:
            f, o = U.unit_conversion(a, b)
            converts = True
        except TypeError:
            converts = False
        if converts != compat:
            fail('compat-decides-conversion', a=a, b=b, compatible=compat, converts=converts)
        if converts and a != b:
            nontrivial.add(('pair', a, b))
            for x in xs:
                y = U.convert_units(x, a, b)
                back = U.convert_units(y, b, a)
                if not close(back, x, 1e-8):
                    fail('round-trip', a=a, b=b, x=x, back=back)
            if len(samples) < 2:
                samples.append({'pair': [a, b], 'factor_offset': [f, o]})
    # T over triples within each class (capped)
    cap = 6 if tier == 'quick' else 14
    for dims, members in classes.items():
        ms = sorted(members)[:cap]
        for a, b, c in itertools.permutations(ms, 3):
            ev += 1
            nontrivial.add(('triple', a, b, c))
            for x in xs[:2]:
                via = U.convert_units(U.convert_units(x, a, b), b, c)
                direct = U.convert_units(x, a, c)
                if not close(via, direct, 1e-8):
                    fail('transitivity', a=a, b=b, c=c, x=x, via=via, direct=direct)
        if len(members) > 1:
            if not all(U.is_compatible(members[0], m) for m in members):
                fail('class-not-compatible', members=members[:5])
    # reflexivity
    for a in units:
        if not U.is_compatible(a, a):
            fail('reflexive', a=a)
    # S simplify_unit
    for a, u in units.items():
        ev += 1
        try:
            s = U.simplify_unit(a)
        except Exception as e:
            fail('simplify-raises', a=a, error=repr(e))
            continue
        if s is None:
            if not (all(p == 0 for p in u._powers) and close(u._factor, 1.0) and u._offset == 0):
                fail('simplify-none', a=a)
            continue
        v = U._find_unit(s)
        if v is None or tuple(v._powers) != tuple(u._powers) or not close(v._factor, u._factor) or not close(v._offset, u._offset):
            fail('simplify-changes-unit', a=a, simplified=s)
    # C composites (offset-free units only)
    plain = [n for n in sorted(units) if units[n]._offset == 0 and n.isidentifier()]
    plain = plain[:25] if tier == 'quick' else plain[:60]
    for a, b in itertools.product(plain, repeat=2):
        for expr, fac, pw in (('%s*%s' % (a, b), units[a]._factor * units[b]._factor, [p + q for p, q in zip(units[a]._powers, units[b]._powers)]),
                              ('%s/%s' % (a, b), units[a]._factor / units[b]._factor, [p - q for p, q in zip(units[a]._powers, units[b]._powers)]),
                              ('%s**2*%s' % (a, b), units[a]._factor ** 2 * units[b]._factor, [2 * p + q for p, q in zip(units[a]._powers, units[b]._powers)]),
                              ('%s/%s**3' % (a, b), units[a]._factor / units[b]._factor ** 3, [p - 3 * q for p, q in zip(units[a]._powers, units[b]._powers)])):
            ev += 1
            try:
                u = U._find_unit(expr)
            except Exception as e:
                fail('composite-parse', expr=expr, error=repr(e))
                continue
            if u is None:
                fail('composite-unknown', expr=expr)
                continue
            nontrivial.add(('comp', expr))
            if list(u._powers) != pw or not close(u._factor, fac, 1e-10) or u._offset != 0:
                fail('composite-factor', expr=expr, factor=u._factor, expected=fac)
            s = U.simplify_unit(expr)
            v = U._find_unit(s) if s is not None else None
            if s is not None and (v is None or list(v._powers) != pw or not close(v._factor, fac, 1e-10)):
                fail('composite-simplify', expr=expr, simplified=s)
    # N numeric coefficients inside unit expressions (many significant digits, exponents, powers of a scaled unit)
    coeffs = ['0.45359237', '1.0000001', '3.14159265358979', '1e-7', '2.5e+6', '0.3048', '1852', '101325.0', '6.02214076e+23', '1.602176634e-19', '0.000123456789012']
    for cf, a in itertools.product(coeffs, plain[:8]):
        cv = float(cf)
        for expr, fac, pw in (('%s*%s' % (cf, a), cv * units[a]._factor, list(units[a]._powers)),
                              ('%s/%s' % (a, cf), units[a]._factor / cv, list(units[a]._powers)),
                              ('(%s*%s)**2' % (cf, a), (cv * units[a]._factor) ** 2, [2 * q for q in units[a]._powers]),
                              ('%s*%s/s' % (cf, a), cv * units[a]._factor / units['s']._factor, [q - r for q, r in zip(units[a]._powers, units['s']._powers)]),
                              # a scalar DIVIDED BY a unit (PhysicalUnit.__rdiv__), alone, nested and raised to a power
                              ('%s/%s' % (cf, a), cv / units[a]._factor, [-q for q in units[a]._powers]),
                              ('2/(%s/%s)' % (cf, a), 2.0 * units[a]._factor / cv, list(units[a]._powers)),
                              ('(%s/%s)**2' % (cf, a), (cv / units[a]._factor) ** 2, [-2 * q for q in units[a]._powers]),
                              ('m*%s/%s' % (cf, a), units['m']._factor * cv / units[a]._factor, [r - q for q, r in zip(units[a]._powers, units['m']._powers)])):
            ev += 1
            try:
                u = U._find_unit(expr)
            except Exception as e:
                fail('coefficient-parse', expr=expr, error=repr(e))
                continue
            if u is None:
                fail('coefficient-unknown', expr=expr)
                continue
            nontrivial.add(('coef', expr))
            if list(u._powers) != pw or not rclose(u._factor, fac):
                fail('coefficient-factor', expr=expr, factor=u._factor, expected=fac)
                continue
            try:
                sname = U.simplify_unit(expr)
                v = U._find_unit(sname) if sname is not None else None
            except Exception as e:
                fail('coefficient-simplify-raises', expr=expr, error=repr(e))
                continue
            if sname is not None and (v is None or list(v._powers) != pw or not rclose(v._factor, fac)):
                fail('coefficient-simplify', expr=expr, simplified=sname, factor=None if v is None else v._factor, expected=fac)
    # prefixes (thorough)
    if tier != 'quick':
        prefixes = ['k', 'm', 'c', 'M', 'G', 'u', 'n', 'p', 'd', 'h', 'da', 'T', 'f', 'a']
        scale = {'k': 1e3, 'm': 1e-3, 'c': 1e-2, 'M': 1e6, 'G': 1e9, 'u': 1e-6, 'n': 1e-9, 'p': 1e-12, 'd': 1e-1, 'h': 1e2,
                 'da': 1e1, 'T': 1e12, 'f': 1e-15, 'a': 1e-18}
        for base in ('m', 's', 'g', 'A', 'K', 'mol', 'cd', 'N', 'J', 'W', 'Pa', 'Hz', 'V', 'ohm', 'F', 'T', 'Wb', 'H', 'S', 'C', 'l', 'bar', 'eV'):
            if base not in units:
                continue
            for pf in prefixes:
                name = pf + base
                try:
                    u = U._find_unit(name)
                except Exception:
                    u = None
                if u is None or name in names:
                    continue
                ev += 1
                nontrivial.add(('prefix', name))
                if tuple(u._powers) != tuple(units[base]._powers) or not close(u._factor, scale[pf] * units[base]._factor, 1e-10):
                    fail('prefix-factor', unit=name, factor=u._factor, expected=scale[pf] * units[base]._factor)
    print(json.dumps({'evaluations': ev, 'distinct_nontrivial': len(nontrivial), 'units': len(units),
                      'classes': len(classes), 'n_failures': len(fails), 'failures': [f for f in fails if f],
                      'samples': samples}))


if __name__ == '__main__':
    main(sys.argv[1] if len(sys.argv) > 1 else 'quick')
