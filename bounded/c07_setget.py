"""Bounded tier (C07, labelled bounded): set_val / get_val round trip through promotion, indices and units.

Model: an auto-IVC-backed promoted input 'x' (two components with different units share it, set_input_defaults gives the
promoted units), an IndepVarComp output 'src.y' connected with src_indices to 'g.c.z', and an unconnected absolute
input 'g.c.w'; variable shapes (6,), (2,3), (2,2,3).
For every addressable name (absolute output, absolute input, promoted input, connected input) x units argument
(None / the variable's / a compatible other) x indices argument (None, ints, negative ints, slices with +-steps,
lists, tuples mixing slices and lists, Ellipsis, om.slicer) x phase (before final_setup, after final_setup, after
run_model, and set-before / get-after across final_setup and run_model):
   set_val(name, v, units, indices); get_val(name, units, indices) == v
   every other entry of the variable is unchanged (compared through get_val(name) before / after)
The oracle for 'which entries' is NumPy indexing on an independent copy.
"""
import sys
import json
import itertools
import numpy as np

SL = slice
IDX = {
    (6,): [None, 2, -1, SL(1, 4), SL(None, None, -2), [0, -1, 3], SL(4, 1, -1), (Ellipsis,)],
    (2, 3): [None, (1, 2), (-1, SL(None)), (SL(None), [0, 2]), (SL(None), 1), ([1, 0], SL(None)), (SL(None, None, -1), SL(1, None)), (Ellipsis, -1), ([0, 1], [2, 0]),
             (SL(1, None), [2, 1])],
    (2, 2, 3): [None, (1, SL(None), [0, 2]), (Ellipsis, -1), (SL(None), -1, SL(None, None, -1)), (0, 1, 2), (SL(None), SL(None), [2, 0])],
    # 0-d variables (shape=()) and one-element vectors take their own paths through set_val after final_setup
    (): [None],
    (1,): [None, 0, -1],
}
FACT = {'m': 1.0, 'cm': 100.0, 'mm': 1000.0, 'km': 0.001}


def build(shape):
    import openmdao.api as om
    n = int(np.prod(shape))
    p = om.Problem(reports=False)
    model = p.model
    ivc = model.add_subsystem('src', om.IndepVarComp())
    ivc.add_output('y', np.arange(1.0, n + 1).reshape(shape), units='m')
    g = model.add_subsystem('g', om.Group(), promotes_inputs=['x'])

    class C(om.ExplicitComponent):
        def __init__(self, xu):
            super().__init__()
            self.xu = xu

        def setup(self):
            self.add_input('x', np.ones(shape), units=self.xu)
            self.add_input('w', np.full(shape, 2.0), units='cm')
            self.add_input('z', np.zeros(shape), units='mm')
            self.add_output('o', np.zeros(shape), units='m')

        def compute(self, inputs, outputs):
            outputs['o'] = inputs['w'] * 0.0 + 1.0
    g.add_subsystem('c', C('cm'), promotes_inputs=['x'])
    g.add_subsystem('d', C('mm'), promotes_inputs=['x'])
    g.set_input_defaults('x', val=np.full(shape, 3.0), units='m')
    model.connect('src.y', 'g.c.z')
    return p


NAMES = [  # (name, native units, alternative compatible units)
    ('src.y', 'm', 'cm'),        # absolute output
    ('x', 'm', 'mm'),            # auto-IVC-backed promoted input (default units m)
    ('g.c.w', 'cm', 'm'),        # absolute, unconnected input
    ('g.c.z', 'mm', 'km'),       # connected input (value lives in src.y, metres)
    ('g.c.x', 'cm', 'm'),        # absolute name of an input that is promoted (auto-IVC source)
]


def one(case):
    shape, name, units, idx, phase = case
    import warnings
    warnings.simplefilter('ignore')
    desc = dict(shape=list(shape), name=name, units=units, indices=repr(idx).replace('slice(None, None, None)', ':'), phase=phase)
    try:
        p = build(shape)
        p.setup()
        if phase in ('after_final_setup', 'after_run'):
            p.final_setup()
        if phase == 'after_run':
            p.run_model()
        kw = {}
        if units is not None:
            kw['units'] = units
        before = np.array(p.get_val(name, **kw), dtype=float).copy()
        ref = before.copy()
        sub = ref[idx] if idx is not None else ref
        newv = (np.arange(np.size(sub), dtype=float).reshape(np.shape(sub)) * 0.75 - 2.5) if np.ndim(sub) else np.float64(-7.25)
        if idx is not None:
            ref[idx] = newv
        else:
            ref = np.array(newv, dtype=float).reshape(ref.shape)
        ikw = dict(kw)
        if idx is not None:
            ikw['indices'] = idx
        p.set_val(name, newv, **ikw)
        stages = [('same phase', lambda: None)]
        if phase == 'before_final_setup':
            stages += [('after final_setup', p.final_setup), ('after run_model', p.run_model)]
        elif phase == 'after_final_setup':
            stages += [('after run_model', p.run_model)]
        for sname, act in stages:
            act()
            got = np.array(p.get_val(name, **ikw), dtype=float)
            if got.shape != np.shape(newv) and got.size == np.size(newv):
                got = got.reshape(np.shape(newv))
            if got.shape != np.shape(newv) or not np.allclose(got, newv, rtol=1e-12, atol=1e-12):
                return dict(desc, kind='get_val after set_val does not return the value', read=sname, set=np.asarray(newv).tolist(), got=got.tolist())
            whole = np.array(p.get_val(name, **kw), dtype=float)
            if whole.shape != ref.shape or not np.allclose(whole, ref, rtol=1e-12, atol=1e-12):
                return dict(desc, kind='set_val changed other entries (or not exactly the addressed ones)', read=sname, expected=ref.tolist(), got=whole.tolist())
        return dict(ok=True)
    except Exception as e:      # noqa
        return dict(desc, kind='exception', error='%s: %s' % (type(e).__name__, str(e)[:200]))


def main(tier):
    big = tier != 'quick'
    cases = []
    for shape, idxs in IDX.items():
        for (name, nu, alt) in NAMES:
            for units in (None, nu, alt):
                for idx in idxs:
                    for phase in ('before_final_setup', 'after_final_setup', 'after_run'):
                        cases.append((shape, name, units, idx, phase))
    if not big:
        cases = [c for k, c in enumerate(cases) if k % 3 == 0 or c[0] in ((), (1,)) or isinstance(c[3], int) or (c[3] is not None and isinstance(c[3], tuple) and (any(isinstance(t, list) for t in c[3]) or all(isinstance(t, int) for t in c[3])))]
    import multiprocessing as mp
    with mp.get_context('fork').Pool(16) as pool:
        res = pool.map(one, cases, chunksize=8)
    fails = [r for r in res if not r.get('ok')]
    print(json.dumps({'evaluations': len(cases), 'distinct_nontrivial': sum(1 for c, r in zip(cases, res) if r.get('ok') and c[3] is not None), 'n_failures': len(fails),
                      'failures': fails[:30], 'samples': [dict(shape=list(c[0]), name=c[1], units=c[2], indices=repr(c[3]), phase=c[4]) for c in cases[100:103]]}, default=str))


if __name__ == '__main__':
    main(sys.argv[1] if len(sys.argv) > 1 else 'quick')
