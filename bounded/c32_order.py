"""Bounded tier (C32, labelled bounded): feed-forward models are solved by one ordered pass.

Domain (exhaustive): every digraph on n <= N nodes (no self loops) x every declared order of the subsystems
x {group at top level, group nested in a parent, nested in a parent that also has auto_order} ; each model is set up and run TWICE (setup, run, setup, run).
Each node is an ExecComp  y = c_i + sum_j w_ij * x_j  with one input per incoming edge (explicit connections).
Oracle from the statement, after each run:
  * execution order (the group's subsystem order): for every edge u -> v between different strongly connected
    components (own SCC computation, not networkx), u comes before v;
  * the members of one SCC keep their declared relative order;
  * acyclic graph: after ONE run_model with the default run-once solvers every residual is exactly zero and
    every output equals the value obtained by evaluating the DAG in dependency order.
"""
import sys
import json
import itertools
import multiprocessing as mp
import numpy as np


def sccs_of(n, edges):
    """Tarjan-free tiny SCC: mutual reachability via Floyd-Warshall"""
    reach = [[i == j for j in range(n)] for i in range(n)]
    for u, v in edges:
        reach[u][v] = True
    for k in range(n):
        for i in range(n):
            if reach[i][k]:
                for j in range(n):
                    if reach[k][j]:
                        reach[i][j] = True
    comp = [min(j for j in range(n) if reach[i][j] and reach[j][i]) for i in range(n)]
    return comp


def check_case(args):
    n, edges, order, nested = args
    import openmdao.api as om
    import warnings
    warnings.simplefilter('ignore')
    comp = sccs_of(n, edges)
    acyclic = len(set(comp)) == n
    names = ['C%d' % i for i in range(n)]
    p = om.Problem(reports=False)
    g = p.model.add_subsystem('sub', om.Group()) if nested else p.model
    g.options['auto_order'] = True
    if nested == 2:
        # the parent orders its own children automatically too (and has nothing to reorder at its level)
        p.model.options['auto_order'] = True
    for i in order:
        ins = [u for (u, v) in edges if v == i]
        expr = 'y = %d' % (i + 1) + ''.join(' + %d * x%d' % (u + 2, u) for u in ins)
        g.add_subsystem(names[i], om.ExecComp(expr))
    for u, v in edges:
        g.connect('%s.y' % names[u], '%s.x%d' % (names[v], u))
    # reference values for DAGs
    vals = {}
    if acyclic:
        done = set()
        while len(done) < n:
            for i in range(n):
                if i not in done and all(u in done for (u, v) in edges if v == i):
                    vals[i] = (i + 1) + sum((u + 2) * vals[u] for (u, v) in edges if v == i)
                    done.add(i)
    problems = []
    for rnd in (1, 2):
        try:
            p.setup()
            p.run_model()
        except Exception as e:      # noqa
            return [dict(kind='exception', error='%s: %s' % (type(e).__name__, str(e)[:150]), round=rnd)]
        grp = p.model.sub if nested else p.model
        execo = [s.name for s in grp._subsystems_myproc if s.name in names]
        pos = {nm: k for k, nm in enumerate(execo)}
        if sorted(execo) != sorted(names):
            problems.append(dict(kind='order is not a permutation of the subsystems', order=execo, round=rnd))
            continue
        for u, v in edges:
            if comp[u] != comp[v] and pos[names[u]] > pos[names[v]]:
                problems.append(dict(kind='predecessor runs after its successor', edge=[names[u], names[v]], order=execo, round=rnd))
                break
        decl = [names[i] for i in order]
        for c in set(comp):
            mem = [names[i] for i in range(n) if comp[i] == c]
            if len(mem) > 1:
                if [x for x in execo if x in mem] != [x for x in decl if x in mem]:
                    problems.append(dict(kind='cycle members lost their declared relative order', members=mem, declared=decl, order=execo, round=rnd))
                    break
        if acyclic and not problems:
            p.model.run_apply_nonlinear()
            rn = float(np.max(np.abs(p.model._residuals.asarray()))) if p.model._residuals.asarray().size else 0.0
            if rn != 0.0:
                problems.append(dict(kind='non-zero residual after one run of an acyclic model', max_residual=rn, order=execo, round=rnd))
            for i in range(n):
                got = float(p.get_val(('sub.' if nested else '') + names[i] + '.y')[0])
                if got != float(vals[i]):
                    problems.append(dict(kind='output differs from the dependency-order evaluation', comp=names[i], got=got, expected=float(vals[i]), order=execo, round=rnd))
                    break
        if problems:
            break
    return problems


def main(tier):
    N = 3 if tier == 'quick' else 4
    cases = []
    for n in range(1, N + 1):
        pairs = [(u, v) for u in range(n) for v in range(n) if u != v]
        for mask in range(2 ** len(pairs)):
            edges = tuple(p for k, p in enumerate(pairs) if mask >> k & 1)
            for order in itertools.permutations(range(n)):
                for nested in (False, True, 2):
                    cases.append((n, edges, order, nested))
    extra = 0
    if tier == 'quick':
        # a deterministic slice of the 4-node domain as well
        n = 4
        pairs = [(u, v) for u in range(n) for v in range(n) if u != v]
        k = 0
        for mask in range(0, 2 ** len(pairs), 37):
            edges = tuple(p for kk, p in enumerate(pairs) if mask >> kk & 1)
            order = list(itertools.permutations(range(n)))[(mask // 37) % 24]
            cases.append((n, edges, order, bool(k % 2)))
            k += 1
            extra += 1
    with mp.get_context('fork').Pool(16) as pool:
        res = pool.map(check_case, cases, chunksize=16)
    fails = []
    nontrivial = 0
    for c, r in zip(cases, res):
        if r:
            if len(fails) < 30:
                fails.append(dict(r[0], n=c[0], edges=[list(e) for e in c[1]], declared_order=list(c[2]), nested=c[3]))
            else:
                fails.append(None)
        elif c[1] and list(c[2]) != sorted(c[2]):
            nontrivial += 1
    print(json.dumps({'evaluations': len(cases), 'distinct_nontrivial': nontrivial, 'n_failures': len(fails), 'max_nodes': N, 'extra_4_node_cases': extra,
                      'failures': [f for f in fails if f],
                      'samples': [dict(n=c[0], edges=[list(e) for e in c[1]], declared_order=list(c[2]), nested=c[3]) for c in cases[200:203]]}))


if __name__ == '__main__':
    main(sys.argv[1] if len(sys.argv) > 1 else 'quick')
