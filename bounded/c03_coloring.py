"""Bounded tier (C03, labelled bounded): simultaneous-derivative coloring reconstructs every Jacobian entry.

Domain (exhaustive): every boolean sparsity pattern up to R x C  x  modes {fwd, rev, auto(bidirectional)}  x
{direct, substitution}.  For every pattern P and configuration:
  structure   : each colour group is a set of distinct columns (rows); every column (row) of the direction's part
                belongs to exactly one group; every nonzero of P is recovered by exactly one of the fwd / rev parts;
  cost        : total_solves() <= number of columns (fwd), rows (rev), min(rows, cols) (auto)  [= uncoloured cost];
  reconstruct : for EVERY matrix A with pattern P the framework's own recovery rule (tangent_iter seeds ->
                compressed products A v / A^T w -> J[row_col_map] assignment as in simul_coloring_jac_setter ->
                _apply_subtractions) returns A.  The rule is linear in A, so it is decided completely per pattern
                by the nnz unit matrices plus one matrix of distinct primes (guards against accidental
                cancellation in the subtraction step).
End-to-end (subset): a real Problem  y = A x  with the declared sparsity, design var x, constraint y,
driver.use_fixed_coloring(coloring): compute_totals (coloured) == A, in setup modes fwd / rev / auto.
"""
import sys
import json
import itertools
import multiprocessing as mp
import numpy as np

PRIMES = [2.0, 3.0, 5.0, 7.0, 11.0, 13.0, 17.0, 19.0, 23.0, 29.0, 31.0, 37.0, 41.0, 43.0, 47.0, 53.0]


def recover(coloring, A):
    """the framework's recovery rule, on an explicit matrix A"""
    nr, nc = A.shape
    J = np.zeros((nr, nc))
    for d in coloring.modes():
        rcmap = coloring.get_row_col_map(d)
        for arr, nzs, nzparts in coloring.tangent_iter(d):
            seed = np.array(arr, dtype=float)
            if d == 'fwd':
                prod = A @ seed
                for i in nzs:
                    rows = rcmap[i]
                    J[rows, i] = prod[rows]
            else:
                prod = A.T @ seed
                for i in nzs:
                    cols = rcmap[i]
                    J[i, cols] = prod[cols]
    if getattr(coloring, '_subtractions', None):
        coloring._apply_subtractions(J)
    return J


def check_pattern(args):
    shape, mask, e2e = args
    from openmdao.utils.coloring import _compute_coloring
    nr, nc = shape
    P = np.array([(mask >> k) & 1 for k in range(nr * nc)], dtype=bool).reshape(nr, nc)
    nnz = int(P.sum())
    out = []
    for mode, direct in itertools.product(('fwd', 'rev', 'auto'), (True, False)):
        desc = dict(shape=list(shape), pattern=P.astype(int).tolist(), mode=mode, direct=direct)
        try:
            col = _compute_coloring(P.astype(float), mode, direct)
        except Exception as e:      # noqa
            out.append(dict(desc, kind='exception in _compute_coloring', error='%s: %s' % (type(e).__name__, str(e)[:150])))
            continue
        try:
            # ---- structure ---------------------------------------------------------------------
            covered = np.zeros((nr, nc), dtype=int)
            bad = None
            for d in col.modes():
                seen = set()
                groups = (col._fwd if d == 'fwd' else col._rev)[0]
                for g in groups:
                    g = [int(x) for x in g]
                    if len(set(g)) != len(g) or seen & set(g):
                        bad = 'a %s line belongs to more than one colour group' % ('column' if d == 'fwd' else 'row')
                    seen |= set(g)
                rcmap = col.get_row_col_map(d)
                for i in range(nc if d == 'fwd' else nr):
                    part = rcmap[i]
                    if part is None or len(part) == 0:
                        continue
                    if i not in seen:
                        bad = 'a line with recovered entries is in no colour group'
                    for k in part:
                        if d == 'fwd':
                            covered[int(k), i] += 1
                        else:
                            covered[i, int(k)] += 1
            if bad is None and not np.array_equal(covered, P.astype(int)):
                # the substitution method may recover an entry in both directions and subtract: accept coverage >= 1
                # only when subtractions are declared; the reconstruction check below decides correctness
                if not (getattr(col, '_subtractions', None) and np.array_equal(covered > 0, P)):
                    bad = 'nonzeros are not recovered exactly once'
            if bad:
                out.append(dict(desc, kind='structure: ' + bad, covered=covered.tolist()))
                continue
            # ---- cost --------------------------------------------------------------------------
            limit = nc if mode == 'fwd' else (nr if mode == 'rev' else min(nr, nc))
            if col.total_solves() > limit:
                out.append(dict(desc, kind='cost: more solves than the uncoloured computation', solves=int(col.total_solves()), uncoloured=limit))
                continue
            # ---- reconstruction for every A with this pattern (linearity: unit matrices + primes) ---
            rows, cols = np.nonzero(P)
            mats = []
            for k in range(nnz):
                A = np.zeros((nr, nc))
                A[rows[k], cols[k]] = 1.0
                mats.append(A)
            A = np.zeros((nr, nc))
            A[rows, cols] = PRIMES[:nnz]
            mats.append(A)
            for A in mats:
                J = recover(col, A)
                if not np.array_equal(J, A):
                    out.append(dict(desc, kind='reconstruction: recovered jacobian differs', A=A.tolist(), recovered=J.tolist()))
                    break
            else:
                if e2e and nnz:
                    r = end_to_end(P, col, mode)
                    if r:
                        out.append(dict(desc, **r))
        except Exception as e:      # noqa
            out.append(dict(desc, kind='exception', error='%s: %s' % (type(e).__name__, str(e)[:150])))
    return out


def end_to_end(P, col, mode):
    import openmdao.api as om
    nr, nc = P.shape
    rows, cols = np.nonzero(P)
    A = np.zeros((nr, nc))
    A[rows, cols] = PRIMES[:len(rows)]

    class Lin(om.ExplicitComponent):
        def setup(self):
            self.add_input('x', np.ones(nc))
            self.add_output('y', np.ones(nr))
            self.declare_partials('y', 'x', rows=rows, cols=cols, val=A[rows, cols])

        def compute(self, inputs, outputs):
            outputs['y'] = A @ inputs['x']
    # metadata normally filled in by compute_total_coloring
    col._row_vars, col._row_var_sizes, col._col_vars, col._col_var_sizes = ['y'], [nr], ['x'], [nc]
    cm = tuple(col.modes())
    smodes = ('fwd', 'auto') if cm == ('fwd',) else (('rev', 'auto') if cm == ('rev',) else ('auto',))
    for smode in smodes:
        p = om.Problem(reports=False)
        p.model.add_subsystem('c', Lin(), promotes=['*'])
        p.model.add_design_var('x')
        p.model.add_constraint('y', lower=0.0)
        p.driver = om.ScipyOptimizeDriver()
        p.driver.use_fixed_coloring(col)
        p.setup(mode=smode)
        p.run_model()
        J = p.compute_totals(return_format='array')
        # (a colouring that saves less than min_improve_pct is deactivated by the driver: totals are then uncoloured,
        #  and must still equal A)
        if not np.allclose(J, A, rtol=0, atol=1e-12):
            return dict(kind='end-to-end: coloured totals differ from the jacobian', setup_mode=smode, A=A.tolist(), totals=J.tolist())
        # the same with NON-UNIFORM driver scaling (ref arrays on the design variable and on the response): the
        # driver-scaled coloured totals are the scaled jacobian  diag(1/ref_y) A diag(ref_x)
        refx = 1.0 + 0.5 * np.arange(nc)
        refy = 2.0 / (1.0 + np.arange(nr))
        p = om.Problem(reports=False)
        p.model.add_subsystem('c', Lin(), promotes=['*'])
        p.model.add_design_var('x', ref=refx)
        p.model.add_constraint('y', lower=0.0, ref=refy)
        p.driver = om.ScipyOptimizeDriver()
        p.driver.use_fixed_coloring(col)
        p.setup(mode=smode)
        p.run_model()
        Js = p.driver._compute_totals(of=['y'], wrt=['x'], return_format='array', driver_scaling=True)
        As = A * refx[None, :] / refy[:, None]
        if not np.allclose(Js, As, rtol=1e-12, atol=1e-12):
            return dict(kind='end-to-end: driver-scaled coloured totals differ from the scaled jacobian', setup_mode=smode, expected=As.tolist(), totals=Js.tolist())
    return None


def end_to_end_chain(P, direct):
    """two components in a chain, responses at different depths:  y = A x (objective y[0]),  z = D y (constraint).
    Total jacobian rows: [A[0, :]; D A]; the colouring is computed for that stacked pattern in bidirectional mode."""
    import openmdao.api as om
    from openmdao.utils.coloring import _compute_coloring
    nr, nc = P.shape
    rows, cols = np.nonzero(P)
    A = np.zeros((nr, nc))
    A[rows, cols] = PRIMES[:len(rows)]
    D = np.arange(2.0, 2.0 + nr)
    Ptot = np.vstack([P[0:1, :], P])
    Jexp = np.vstack([A[0:1, :], D[:, None] * A])

    class Lin(om.ExplicitComponent):
        def setup(self):
            self.add_input('x', np.ones(nc))
            self.add_output('y', np.ones(nr))
            self.declare_partials('y', 'x', rows=rows, cols=cols, val=A[rows, cols])

        def compute(self, inputs, outputs):
            outputs['y'] = A @ inputs['x']

    class Diag(om.ExplicitComponent):
        def setup(self):
            self.add_input('y', np.ones(nr))
            self.add_output('z', np.ones(nr))
            self.declare_partials('z', 'y', rows=np.arange(nr), cols=np.arange(nr), val=D)

        def compute(self, inputs, outputs):
            outputs['z'] = D * inputs['y']
    for cmode in ('auto', 'fwd', 'rev'):
        col = _compute_coloring(Ptot.astype(float), cmode, direct)
        col._row_vars, col._row_var_sizes, col._col_vars, col._col_var_sizes = ['y', 'z'], [1, nr], ['x'], [nc]
        cm = tuple(col.modes())
        smodes = ('fwd', 'auto') if cm == ('fwd',) else (('rev', 'auto') if cm == ('rev',) else ('auto',))
        for smode in smodes:
            p = om.Problem(reports=False)
            p.model.add_subsystem('c1', Lin(), promotes=['*'])
            p.model.add_subsystem('c2', Diag(), promotes=['*'])
            p.model.add_design_var('x')
            p.model.add_objective('y', index=0)
            p.model.add_constraint('z', lower=0.0)
            p.driver = om.ScipyOptimizeDriver()
            p.driver.use_fixed_coloring(col)
            p.setup(mode=smode)
            p.run_model()
            for rep in (1, 2):
                J = p.compute_totals(return_format='array')
                if not np.allclose(J, Jexp, rtol=0, atol=1e-10):
                    return dict(kind='end-to-end (chain): coloured totals differ from the jacobian', coloring_mode=cmode, setup_mode=smode, call=rep,
                                expected=Jexp.tolist(), totals=J.tolist())
    return None


def check_chain(args):
    shape, mask = args
    nr, nc = shape
    P = np.array([(mask >> k) & 1 for k in range(nr * nc)], dtype=bool).reshape(nr, nc)
    out = []
    for direct in (True, False):
        try:
            r = end_to_end_chain(P, direct)
            if r:
                out.append(dict(shape=list(shape), pattern=P.astype(int).tolist(), direct=direct, **r))
        except Exception as e:      # noqa
            out.append(dict(shape=list(shape), pattern=P.astype(int).tolist(), direct=direct, kind='exception (chain)', error='%s: %s' % (type(e).__name__, str(e)[:150])))
    return out


def structured_patterns(tier):
    """larger patterns where a bidirectional colouring beats both pure directions (arrowheads and variants), plus
    seeded random sparse patterns up to 10 x 10"""
    rng = np.random.default_rng(3)
    pats = []
    for n in ((4, 5, 6, 8) if tier == 'quick' else (4, 5, 6, 7, 8, 10)):
        P = np.eye(n, dtype=bool)
        P[0, :] = True
        P[:, 0] = True
        pats.append(P.copy())
        Q = P.copy()
        Q[-1, :] = True                    # two dense rows + dense column
        pats.append(Q)
        R = P[:, :max(2, n - 2)].copy()    # rectangular (more rows than columns)
        pats.append(R)
        for _ in range(2 if tier == 'quick' else 5):
            X = P.copy()
            X |= rng.random((n, n)) < 0.12
            pats.append(X)
    for _ in range(6 if tier == 'quick' else 40):
        r, c = rng.integers(4, 11, size=2)
        X = rng.random((r, c)) < 0.25
        X[rng.integers(0, r), :] = True
        X[:, rng.integers(0, c)] = True
        pats.append(X)
    return pats


def check_structured(P):
    # pattern-level checks through the same code path as the exhaustive domain, then the chain model
    nr, nc = P.shape
    out = []
    global PRIMES
    from openmdao.utils.coloring import _compute_coloring
    vals = np.arange(2.0, 2.0 + P.sum()) + 0.5
    for mode, direct in itertools.product(('fwd', 'rev', 'auto'), (True, False)):
        desc = dict(shape=[int(nr), int(nc)], pattern=P.astype(int).tolist(), mode=mode, direct=direct)
        try:
            col = _compute_coloring(P.astype(float), mode, direct)
            limit = nc if mode == 'fwd' else (nr if mode == 'rev' else min(nr, nc))
            if col.total_solves() > limit:
                out.append(dict(desc, kind='cost: more solves than the uncoloured computation', solves=int(col.total_solves()), uncoloured=int(limit)))
                continue
            rows, cols = np.nonzero(P)
            A = np.zeros((nr, nc))
            A[rows, cols] = vals
            J = recover(col, A)
            if not np.array_equal(J, A):
                out.append(dict(desc, kind='reconstruction: recovered jacobian differs', A=A.tolist(), recovered=J.tolist()))
        except Exception as e:      # noqa
            out.append(dict(desc, kind='exception', error='%s: %s' % (type(e).__name__, str(e)[:150])))
    if not out and P.any(axis=0).all() and P.any(axis=1).all():
        save = PRIMES
        PRIMES = list(vals)
        try:
            for direct in (True, False):
                r = end_to_end_chain(P, direct)
                if r:
                    out.append(dict(shape=[int(nr), int(nc)], pattern=P.astype(int).tolist(), direct=direct, **r))
        except Exception as e:      # noqa
            out.append(dict(shape=[int(nr), int(nc)], pattern=P.astype(int).tolist(), kind='exception (chain)', error='%s: %s' % (type(e).__name__, str(e)[:150])))
        finally:
            PRIMES = save
    return out


def main(tier):
    shapes = [(1, 1), (1, 2), (2, 1), (2, 2), (1, 3), (3, 1), (2, 3), (3, 2), (3, 3)]
    if tier != 'quick':
        shapes += [(3, 4), (4, 3), (2, 4), (4, 2), (1, 4), (4, 1)]
    cases = []
    for shp in shapes:
        n = shp[0] * shp[1]
        for mask in range(2 ** n):
            e2e = (mask % (5 if tier == 'quick' else 13) == 0) and n >= 4
            cases.append((shp, mask, e2e))
    if tier == 'quick':
        # a deterministic slice of the 3x4 / 4x3 patterns as well
        for shp in ((3, 4), (4, 3)):
            for mask in range(0, 2 ** 12, 17):
                cases.append((shp, mask, False))
    with mp.get_context('fork').Pool(16) as pool:
        res = pool.map(check_pattern, cases, chunksize=8)
    fails = [f for r in res for f in r]
    # chain models (responses at different depths): patterns with every row and column populated
    chain_cases = []
    for shp in ((2, 2), (2, 3), (3, 2), (3, 3)) + (((3, 4), (4, 3)) if tier != 'quick' else ()):
        n = shp[0] * shp[1]
        for mask in range(2 ** n):
            P = np.array([(mask >> k) & 1 for k in range(n)], dtype=bool).reshape(shp)
            if P.any(axis=0).all() and P.any(axis=1).all() and (tier != 'quick' or mask % 3 == 0 or n <= 6):
                chain_cases.append((shp, mask))
    with mp.get_context('fork').Pool(16) as pool:
        res2 = pool.map(check_chain, chain_cases, chunksize=4)
    fails += [f for r in res2 for f in r]
    spats = structured_patterns(tier)
    with mp.get_context('fork').Pool(16) as pool:
        res3 = pool.map(check_structured, spats, chunksize=1)
    fails += [f for r in res3 for f in r]
    nontrivial = sum(1 for c in cases if bin(c[1]).count('1') >= 2) * 6
    print(json.dumps({'evaluations': len(cases) * 6 + len(chain_cases) * 2 + len(spats) * 8, 'distinct_nontrivial': nontrivial, 'patterns': len(cases), 'end_to_end_models': sum(1 for c in cases if c[2]) * 6 * 3, 'chain_models': len(chain_cases) * 2, 'structured_patterns_up_to_10x10': len(spats),
                      'n_failures': len(fails), 'failures': fails[:30],
                      'samples': [dict(shape=list(c[0]), pattern_mask=c[1]) for c in cases[300:303]]}, default=str))


if __name__ == '__main__':
    main(sys.argv[1] if len(sys.argv) > 1 else 'quick')
