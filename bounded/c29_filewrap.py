"""Bounded tier (C29, labelled bounded): a value written into a template by InputFileGenerator is read
back by FileParser from the same location as the same value, without disturbing other fields.

Exhaustive grid: templates with <=3 lines x <=4 numeric fields (after an anchor line), delimiters
{space, comma}, every field position, every value of the set {0, +-1, +-0.1, +-1/3, 1e+-300,
5e-324, max float, +-inf, nan, ints, short strings}; arrays of length 1..3 placed at every start.
Floats must agree to 16 significant digits.
"""
import sys
import os
import json
import math
import tempfile
import itertools


def same(a, b):
    if isinstance(a, float) and isinstance(b, (float, int)) and not isinstance(b, bool):
        if math.isnan(a):
            return isinstance(b, float) and math.isnan(b)
        if math.isinf(a):
            return b == a
        return float('%.16g' % a) == float('%.16g' % float(b)) or abs(a - b) <= 1e-15 * abs(a)
    if isinstance(a, int) and not isinstance(a, bool):
        return b == a
    return a == b


def main(tier):
    from openmdao.utils.file_wrap import InputFileGenerator, FileParser
    floats = [0.0, 1.0, -1.0, 0.1, -0.1, 1.0 / 3.0, -1.0 / 3.0, 1e300, -1e300, 1e-300, 5e-324, 1.7976931348623157e308,
              float('inf'), float('-inf'), float('nan'), 123456789.0, 2.5e-7,
              # '%.16g' renders these without a decimal point: 1e-05, -1e-05, -3e+20, 5e-07
              1e-05, -1e-05, -3e+20, 5e-07]
    others = [7, -12, 0, 'abc', 'x1']
    values = floats + others
    ev = 0
    nontrivial = set()
    fails = []
    samples = []
    tmp = tempfile.mkdtemp(prefix='c29_')
    tfile, gfile = os.path.join(tmp, 't.in'), os.path.join(tmp, 'g.in')

    def fail(**kw):
        fails.append(kw if len(fails) < 20 else None)
    shapes = [(1, 1), (1, 3), (2, 2), (3, 4)] if tier != 'quick' else [(1, 3), (2, 2)]
    for delim_name, delim in (('space', ' '), ('comma', ', ')):
        for nrow, ncol in shapes:
            base = [[11.5 + 10 * r + c for c in range(ncol)] for r in range(nrow)]
            lines = ['header line', 'ANCHOR'] + [delim.join('%r' % v for v in row) for row in base] + ['trailer 99']
            with open(tfile, 'w') as f:
                f.write('\n'.join(lines) + '\n')
            for r in range(nrow):
                for c in range(ncol):
                    for v in values:
                        ev += 1
                        try:
                            g = InputFileGenerator()
                            g.set_template_file(tfile)
                            g.set_generated_file(gfile)
                            if delim_name == 'comma':
                                g.set_delimiters(', ')
                            g.mark_anchor('ANCHOR')
                            g.transfer_var(v, r + 1, c + 1)
                            g.generate()
                            p = FileParser()
                            p.set_file(gfile)
                            if delim_name == 'comma':
                                p.set_delimiters(', ')
                            p.mark_anchor('ANCHOR')
                            got = p.transfer_var(r + 1, c + 1)
                            rest_ok = True
                            for r2 in range(nrow):
                                for c2 in range(ncol):
                                    if (r2, c2) != (r, c):
                                        if not same(base[r2][c2], p.transfer_var(r2 + 1, c2 + 1)):
                                            rest_ok = False
                        except Exception as e:     # noqa
                            fail(kind='exception', value=repr(v), row=r + 1, field=c + 1, delim=delim_name, error='%s: %s' % (type(e).__name__, e))
                            continue
                        nontrivial.add((delim_name, nrow, ncol, r, c, repr(v)))
                        if not same(v, got):
                            fail(kind='value', value=repr(v), read_back=repr(got), row=r + 1, field=c + 1, delim=delim_name)
                        if not rest_ok:
                            fail(kind='other-fields-disturbed', value=repr(v), row=r + 1, field=c + 1, delim=delim_name)
                        if len(samples) < 3 and isinstance(v, float) and v not in (0.0, 1.0):
                            samples.append({'value': repr(v), 'row': r + 1, 'field': c + 1, 'delimiter': delim_name, 'read_back': repr(got)})
            # arrays
            for r in range(nrow):
                for start in range(ncol):
                    for L in range(1, ncol - start + 1):
                        for combo in itertools.islice(itertools.product(floats[:9] + floats[12:15], repeat=L), 0, None if L == 1 else (40 if tier == 'quick' else 400)):
                            ev += 1
                            import numpy as np
                            arr = np.array(combo)
                            try:
                                g = InputFileGenerator()
                                g.set_template_file(tfile)
                                g.set_generated_file(gfile)
                                if delim_name == 'comma':
                                    g.set_delimiters(', ')
                                g.mark_anchor('ANCHOR')
                                g.transfer_array(arr, r + 1, start + 1, start + L)
                                g.generate()
                                p = FileParser()
                                p.set_file(gfile)
                                if delim_name == 'comma':
                                    p.set_delimiters(', ')
                                p.mark_anchor('ANCHOR')
                                got = p.transfer_array(r + 1, start + 1, r + 1, start + L)
                                got = list(np.atleast_1d(got))
                            except Exception as e:     # noqa
                                fail(kind='array-exception', value=repr(combo), row=r + 1, start=start + 1, delim=delim_name, error='%s: %s' % (type(e).__name__, e))
                                continue
                            if len(got) != L or not all(same(float(a), b if not hasattr(b, 'item') else b.item()) for a, b in zip(combo, got)):
                                fail(kind='array-value', value=repr(combo), read_back=repr(got), row=r + 1, start=start + 1, delim=delim_name)
            # arrays wrapping over several template rows (row_end > row_start): first row from field_start to the end of
            # the line, whole middle rows, last row up to field_end
            import numpy as np
            pool_vals = floats[:9] + floats[12:15]
            for r0 in range(nrow):
                for r1 in range(r0 + 1, nrow):
                    for fs in range(ncol):
                        for fe in range(ncol):
                            L = (ncol - fs) + (r1 - r0 - 1) * ncol + (fe + 1)
                            for shift in ((0, 5) if tier != 'quick' else (0,)):
                                ev += 1
                                combo = [pool_vals[(k * 5 + shift + r0 + fs) % len(pool_vals)] for k in range(L)]
                                try:
                                    g = InputFileGenerator()
                                    g.set_template_file(tfile)
                                    g.set_generated_file(gfile)
                                    if delim_name == 'comma':
                                        g.set_delimiters(', ')
                                    g.mark_anchor('ANCHOR')
                                    g.transfer_array(np.array(combo), r0 + 1, fs + 1, fe + 1, row_end=r1 + 1)
                                    g.generate()
                                    p = FileParser()
                                    p.set_file(gfile)
                                    if delim_name == 'comma':
                                        p.set_delimiters(', ')
                                    p.mark_anchor('ANCHOR')
                                    got = list(np.atleast_1d(p.transfer_array(r0 + 1, fs + 1, r1 + 1, fe + 1)))
                                    rest_ok = True
                                    for r2 in range(nrow):
                                        for c2 in range(ncol):
                                            inside = (r0 < r2 < r1) or (r2 == r0 and c2 >= fs) or (r2 == r1 and c2 <= fe)
                                            if not inside and not same(base[r2][c2], p.transfer_var(r2 + 1, c2 + 1)):
                                                rest_ok = False
                                except Exception as e:     # noqa
                                    fail(kind='array-exception', value=repr(combo), row=r0 + 1, row_end=r1 + 1, start=fs + 1, end=fe + 1, delim=delim_name, error='%s: %s' % (type(e).__name__, e))
                                    continue
                                nontrivial.add((delim_name, nrow, ncol, 'wrap', r0, r1, fs, fe, shift))
                                if len(got) != L or not all(same(float(a), b if not hasattr(b, 'item') else b.item()) for a, b in zip(combo, got)):
                                    fail(kind='array-value', value=repr(combo), read_back=repr(got), row=r0 + 1, row_end=r1 + 1, start=fs + 1, end=fe + 1, delim=delim_name)
                                elif not rest_ok:
                                    fail(kind='other-fields-disturbed', value=repr(combo), row=r0 + 1, row_end=r1 + 1, start=fs + 1, end=fe + 1, delim=delim_name)
    # ---- histories: SEVERAL transfers through ONE InputFileGenerator (the usual way a wrapper fills a template) ----
    import numpy as np
    nrow, ncol = 4, 4
    for delim_name, delim in (('space', ' '), ('comma', ', ')):
        base = [[11.5 + 10 * r + c for c in range(ncol)] for r in range(nrow)]
        lines = ['header line', 'ANCHOR'] + [delim.join('%r' % v for v in row) for row in base] + ['trailer 99']
        with open(tfile, 'w') as f:
            f.write('\n'.join(lines) + '\n')
        A = lambda *v: np.array(v, dtype=float)
        sequences = [
            [('arr', 1, 1, 3, A(1.5, -2.25, 1.0 / 3.0)), ('arr', 2, 1, 3, A(7.0, 8.5, -9.75))],                 # equal lengths
            [('arr', 1, 1, 4, A(1.5, -2.25, 3.0, 4.0)), ('arr', 3, 2, 3, A(0.1, -0.2))],                         # long then short
            [('arr', 1, 2, 3, A(0.5, 0.25)), ('arr', 2, 1, 4, A(10.125, 20.0, 3.141592653589793, -0.001))],      # short then long
            [('var', 1, 1, 2.5e-7), ('arr', 2, 2, 4, A(1.0, 2.0, 3.0)), ('var', 4, 4, -1e300)],
            [('arr', 1, 1, 2, A(5.0, 6.0)), ('2d', 2, 3, 1, 3, np.array([[1.25, 2.5, 3.75], [-4.0, -5.0, -6.0]]))],   # array then 2-d array
            [('2d', 1, 2, 2, 4, np.array([[1.25, 2.5, 3.75], [-4.0, -5.0, -6.0]])), ('arr', 4, 1, 4, A(9.0, 8.0, 7.0, 6.0))],
            [('arr', 1, 1, 2, A(5.0, 6.0)), ('arr', 1, 3, 4, A(7.0, 8.0)), ('arr', 2, 1, 2, A(-5.0, -6.0)), ('arr', 2, 3, 4, A(-7.0, -8.0))],
        ]
        for si, seq in enumerate(sequences):
            for two_generates in (False, True):
                ev += 1
                desc = dict(history='%d transfers through one generator%s' % (len(seq), ', generate() after the first and after the last' if two_generates else ''),
                            delim=delim_name, transfers=[[t[0]] + [x if not hasattr(x, 'tolist') else x.tolist() for x in t[1:]] for t in seq])
                try:
                    g = InputFileGenerator()
                    g.set_template_file(tfile)
                    g.set_generated_file(gfile)
                    if delim_name == 'comma':
                        g.set_delimiters(', ')
                    g.mark_anchor('ANCHOR')
                    expect = [row[:] for row in base]
                    for k, t in enumerate(seq):
                        if t[0] == 'var':
                            g.transfer_var(t[3], t[1], t[2])
                            expect[t[1] - 1][t[2] - 1] = t[3]
                        elif t[0] == 'arr':
                            g.transfer_array(t[4], t[1], t[2], t[3])
                            for j, v in enumerate(t[4]):
                                expect[t[1] - 1][t[2] - 1 + j] = float(v)
                        else:
                            g.transfer_2Darray(t[5], t[1], t[2], t[3], t[4])
                            for i in range(t[2] - t[1] + 1):
                                for j in range(t[4] - t[3] + 1):
                                    expect[t[1] - 1 + i][t[3] - 1 + j] = float(t[5][i, j])
                        if two_generates and k == 0:
                            g.generate()
                    g.generate()
                    p = FileParser()
                    p.set_file(gfile)
                    if delim_name == 'comma':
                        p.set_delimiters(', ')
                    p.mark_anchor('ANCHOR')
                    got = [[p.transfer_var(r + 1, c + 1) for c in range(ncol)] for r in range(nrow)]
                except Exception as e:     # noqa
                    fail(kind='history-exception', error='%s: %s' % (type(e).__name__, e), **desc)
                    continue
                bad = [(r + 1, c + 1, repr(expect[r][c]), repr(got[r][c])) for r in range(nrow) for c in range(ncol) if not same(expect[r][c], got[r][c])]
                if bad:
                    fail(kind='history: fields read back differ from what the sequence of transfers wrote', wrong_fields=bad[:6], **desc)
                else:
                    nontrivial.add(('history', delim_name, si, two_generates))
    # ---- arrays addressed BACKWARDS from an anchor below the block (negative row_start, row_end up to 0 = the anchor line) ----
    for delim_name, delim in (('space', ' '), ('comma', ', ')):
        nrow, ncol = 3, 3
        base = [[11.5 + 10 * r + c for c in range(ncol)] for r in range(nrow)]
        body = [delim.join('%r' % v for v in row) for row in base]
        lines = ['header line', 'BEGIN'] + body[:-1] + [body[-1] + delim + 'END_BLOCK', 'trailer 99']
        with open(tfile, 'w') as f:
            f.write('\n'.join(lines) + '\n')
        pool_vals = floats[:9] + floats[12:15]
        for row_start in (-2, -1, 0):
            for row_end in range(row_start, 1):
                for fs, fe in ((1, 3), (2, 3), (1, 2), (2, 2)):
                    nr_ = row_end - row_start + 1
                    L = (fe - fs + 1) if nr_ == 1 else ((ncol - fs + 1) + (nr_ - 2) * ncol + fe)
                    if nr_ > 1 and row_end == 0:
                        # the anchor line carries one extra field (the anchor text) after its numbers
                        pass
                    ev += 1
                    combo = [pool_vals[(k * 7 + row_start + fs) % len(pool_vals)] for k in range(L)]
                    desc = dict(history='array addressed backwards from the END_BLOCK anchor', delim=delim_name, row_start=row_start, row_end=row_end, field_start=fs, field_end=fe)
                    try:
                        g = InputFileGenerator()
                        g.set_template_file(tfile)
                        g.set_generated_file(gfile)
                        if delim_name == 'comma':
                            g.set_delimiters(', ')
                        g.mark_anchor('END_BLOCK')
                        g.transfer_array(np.array(combo), row_start, fs, fe, row_end=row_end)
                        g.generate()
                        p = FileParser()
                        p.set_file(gfile)
                        if delim_name == 'comma':
                            p.set_delimiters(', ')
                        p.mark_anchor('END_BLOCK')
                        got = list(np.atleast_1d(p.transfer_array(row_start, fs, row_end, fe)))
                        p.reset_anchor()
                        p.mark_anchor('BEGIN')
                        grid = [[p.transfer_var(r + 1, c + 1) for c in range(ncol)] for r in range(nrow)]
                    except Exception as e:     # noqa
                        fail(kind='backward-array-exception', error='%s: %s' % (type(e).__name__, e), **desc)
                        continue
                    if len(got) != L or not all(same(float(a), b if not hasattr(b, 'item') else b.item()) for a, b in zip(combo, got)):
                        fail(kind='backward array: values read back differ', written=[repr(v) for v in combo], read_back=[repr(v) for v in got], **desc)
                        continue
                    # fields outside the addressed range keep the template values
                    k = 0
                    bad = None
                    for r in range(nrow):
                        rr = r - (nrow - 1)            # row index relative to the anchor line
                        for c in range(ncol):
                            inside = (row_start <= rr <= row_end) and ((nr_ == 1 and fs - 1 <= c <= fe - 1) or
                                                                         (nr_ > 1 and ((rr == row_start and c >= fs - 1) or (row_start < rr < row_end) or (rr == row_end and c <= fe - 1))))
                            if not inside and not same(base[r][c], grid[r][c]):
                                bad = (r + 1, c + 1, repr(base[r][c]), repr(grid[r][c]))
                    if bad:
                        fail(kind='backward array: other fields disturbed', field=bad, **desc)
                    else:
                        nontrivial.add(('backward', delim_name, row_start, row_end, fs, fe))
    import shutil
    shutil.rmtree(tmp, ignore_errors=True)
    print(json.dumps({'evaluations': ev, 'distinct_nontrivial': len(nontrivial), 'n_failures': len(fails),
                      'failures': [f for f in fails if f], 'samples': samples}))


if __name__ == '__main__':
    main(sys.argv[1] if len(sys.argv) > 1 else 'quick')
