"""Bounded tier (C05, labelled bounded): index objects follow NumPy indexing semantics.
Oracle = NumPy itself (the property's oracle).  Exhaustive grid: every index spec from the grammar
{int, negative int, EVERY slice with ends in {None} u [-n, n] and step in {None, +-1, +-2}, 1-d and 2-d int arrays incl. negatives, lists,
tuples of those, Ellipsis forms, om.slicer[...]} x every source shape up to rank 3 / extent 3 x
flat_src in {True, False}.  Checked: indexer(...).shaped_array() (flat source positions),
indexed_src_shape, indexed_val(arr), as_array(flat=True); array2slice(arr) selects arr's positions
(signed and unsigned dtypes, +-strides).
"""
import sys
import json
import itertools
import numpy as np


def specs_for(shape, tier):
    n0 = shape[0]
    ints = sorted(set([0, n0 - 1, -1, -n0]))
    # every slice whose explicit ends lie within [-n0, n0], steps +-1, +-2 (and None): systematic, not hand-picked
    ends = [None] + list(range(-n0, n0 + 1))
    sl = [slice(a, b, st) for a in ends for b in ends for st in (None, 1, 2, -1, -2)] + [slice(0, n0, n0)]
    # (2-d non-tuple index arrays are deliberately excluded: OpenMDAO documents, with a deprecation
    #  warning, that it reads them as tuple(seq) — legacy NumPy semantics)
    arrs = [np.array([0]), np.array([n0 - 1, 0]), np.array([-1]), np.array([0, 0]), np.array([-1, 0, -n0]),
            [0, n0 - 1]]
    one = ints + sl + arrs
    out = [(s, 'single') for s in one]
    if len(shape) >= 2:
        n1 = shape[1]
        second = [0, -1, slice(None), slice(None, None, -1), np.array([0, n1 - 1]), slice(0, 1)]
        first = [0, -1, slice(None), slice(1, None), np.array([0, n0 - 1]), np.array([-1])]
        for a in first:
            for b in second:
                if isinstance(a, np.ndarray) and isinstance(b, np.ndarray) and a.shape != b.shape:
                    continue
                out.append(((a, b), 'tuple'))
        out += [((Ellipsis, 0), 'ellipsis'), ((0, Ellipsis), 'ellipsis'), ((Ellipsis,), 'ellipsis'), (Ellipsis, 'ellipsis'),
                ((Ellipsis, slice(None, None, -1)), 'ellipsis')]
        if len(shape) == 3:
            out += [((0, slice(None), -1), 'tuple'), ((slice(None), 0, slice(1, None)), 'tuple'),
                    ((Ellipsis, np.array([0, -1])), 'ellipsis'), ((np.array([0, -1]), Ellipsis), 'ellipsis')]
    return out


def show(s):
    if isinstance(s, tuple):
        return '(' + ', '.join(show(x) for x in s) + ')'
    if isinstance(s, np.ndarray):
        return 'array(%s)' % s.tolist()
    return repr(s)


def main(tier):
    from openmdao.utils.indexer import indexer, array2slice
    import openmdao.api as om
    shapes = [(1,), (2,), (3,), (1, 1), (2, 3), (3, 2), (3, 3), (2, 2, 3), (3, 1, 2)] if tier != 'quick' else [(3,), (2, 3), (3, 3), (2, 2, 3)]
    ev = 0
    nontrivial = set()
    fails = []
    samples = []
    rejected = [0]

    def fail(**kw):
        fails.append(kw if len(fails) < 400 else None)
    for shape in shapes:
        size = int(np.prod(shape))
        src = np.arange(size).reshape(shape)
        for spec, kind in specs_for(shape, tier):
            for flat_src in (False, True):
                if flat_src:
                    if isinstance(spec, tuple) or spec is Ellipsis:
                        continue
                    base = src.ravel()
                    # flat source: entries index the flattened array
                    if isinstance(spec, (int, np.integer)) and not (-size <= spec < size):
                        continue
                else:
                    base = src
                try:
                    want = base[spec if not isinstance(spec, list) else np.array(spec)]
                except Exception:
                    continue      # NumPy rejects it: not a "compatible source shape"
                want_pos = np.atleast_1d(want).ravel()
                want_shape = np.shape(want) if np.ndim(want) > 0 else (1,)
                ev += 1
                key = (shape, show(spec), flat_src)
                try:
                    ind = indexer(spec, src_shape=shape, flat_src=flat_src)
                    got_pos = np.atleast_1d(ind.shaped_array(flat=True)).ravel()
                    got_val = np.atleast_1d(ind.indexed_val(base)).ravel()
                    got_shape = tuple(ind.indexed_src_shape)
                except Exception as e:     # noqa
                    if isinstance(spec, slice) and not (isinstance(e, IndexError) and 'out of bounds' in str(e)):
                        # OpenMDAO's own deliberate rejection is IndexError('... out of bounds of the source shape');
                        # anything else raised for a slice NumPy accepts (e.g. NumPy's 'array is too big' from
                        # an arange over sys.maxsize) is a failure, not a documented rejection
                        fail(kind='exception', shape=list(shape), spec=show(spec), flat_src=flat_src, error=repr(e)[:200],
                             numpy=want_pos.tolist())
                        continue
                    # OpenMDAO rejects this specification (documented stricter rules): "accepted by
                    # OpenMDAO" is a premise of the property
                    rejected[0] += 1
                    continue
                nontrivial.add(key)
                if got_pos.shape != want_pos.shape or not np.array_equal(got_pos, want_pos):
                    fail(kind='positions', shape=list(shape), spec=show(spec), flat_src=flat_src,
                         numpy=want_pos.tolist(), openmdao=got_pos.tolist())
                elif not np.array_equal(got_val, want_pos):
                    fail(kind='indexed_val', shape=list(shape), spec=show(spec), flat_src=flat_src,
                         numpy=want_pos.tolist(), openmdao=got_val.tolist())
                if int(np.prod(got_shape)) != want_pos.size:
                    fail(kind='indexed_src_shape', shape=list(shape), spec=show(spec), flat_src=flat_src,
                         numpy=list(want_shape), openmdao=list(got_shape))
                if len(samples) < 3 and kind != 'single':
                    samples.append({'shape': list(shape), 'spec': show(spec), 'flat_src': flat_src, 'positions': want_pos.tolist()})
        # om.slicer forms
        for sl in (om.slicer[...], om.slicer[0], om.slicer[::-1], om.slicer[..., 0] if len(shape) > 1 else om.slicer[-1]):
            try:
                want = src[sl]
            except Exception:
                continue
            ev += 1
            try:
                got = np.atleast_1d(indexer(sl, src_shape=shape, flat_src=False).shaped_array(flat=True)).ravel()
            except Exception as e:     # noqa
                fail(kind='exception', shape=list(shape), spec='slicer' + show(sl), flat_src=False, error=repr(e))
                continue
            if not np.array_equal(got, np.atleast_1d(want).ravel()):
                fail(kind='positions', shape=list(shape), spec='slicer' + show(sl), flat_src=False,
                     numpy=np.atleast_1d(want).ravel().tolist(), openmdao=got.tolist())
    # histories: ONE index object bound to a source shape, used, then re-bound to a second shape of the same rank
    # (set_src_shape, as happens when a model is set up again with other variable shapes) must behave like a fresh one
    by_rank = {1: [(3,), (5,)], 2: [(2, 3), (3, 2), (3, 4)], 3: [(2, 2, 3), (3, 1, 2)]}
    for rank, shs in by_rank.items():
        for s1, s2 in itertools.permutations(shs, 2):
            src2 = np.arange(int(np.prod(s2))).reshape(s2)
            for spec, kind in specs_for(s2, tier):
                for flat_src in (False, True):
                    if flat_src and (isinstance(spec, tuple) or spec is Ellipsis):
                        continue
                    try:
                        fresh = indexer(spec, src_shape=s2, flat_src=flat_src)
                        want = np.atleast_1d(fresh.shaped_array(flat=True)).ravel()
                        want_shape = tuple(fresh.indexed_src_shape)
                        ind = indexer(spec, flat_src=flat_src)
                        ind.set_src_shape(s1)
                        ind.shaped_array(flat=True)
                    except Exception:
                        continue          # the specification is not accepted for one of the shapes
                    ev += 1
                    try:
                        ind.set_src_shape(s2)
                        got = np.atleast_1d(ind.shaped_array(flat=True)).ravel()
                        got_shape = tuple(ind.indexed_src_shape)
                    except Exception as e:     # noqa
                        fail(kind='history: re-binding to a second source shape raises', first_shape=list(s1), shape=list(s2), spec=show(spec), flat_src=flat_src, error=repr(e)[:200])
                        continue
                    nontrivial.add(('rebind', s1, s2, show(spec), flat_src))
                    if not np.array_equal(got, want) or got_shape != want_shape:
                        fail(kind='history: index object re-bound to a second source shape differs from a fresh one', first_shape=list(s1), shape=list(s2),
                             spec=show(spec), flat_src=flat_src, fresh=want.tolist(), rebound=got.tolist())
    # array2slice: never changes the selected positions
    L = 12
    base = np.arange(L)
    for dtype in (np.int64, np.int32, np.uint8, np.uint32):
        for start in range(0, 6):
            for step in (-3, -2, -1, 1, 2, 3):
                for n in range(0, 5):
                    vals = [start + k * step for k in range(n)]
                    if any(v < 0 or v >= L for v in vals):
                        continue
                    arr = np.array(vals, dtype=dtype)
                    ev += 1
                    nontrivial.add(('a2s', dtype.__name__, start, step, n))
                    try:
                        s = array2slice(arr)
                    except Exception as e:     # noqa
                        fail(kind='array2slice-exception', arr=vals, dtype=dtype.__name__, error=repr(e))
                        continue
                    if s is not None and not np.array_equal(base[s], base[arr.astype(int)]):
                        fail(kind='array2slice', arr=vals, dtype=dtype.__name__, slice=repr(s), selected=base[s].tolist())
        for vals in ([0, 2, 3], [3, 3], [1, 0, 1], [5, 3, 2], [0, 1, 3, 4]):
            arr = np.array(vals, dtype=dtype)
            ev += 1
            s = array2slice(arr)
            if s is not None and not np.array_equal(base[s], base[arr.astype(int)]):
                fail(kind='array2slice', arr=vals, dtype=dtype.__name__, slice=repr(s), selected=base[s].tolist())
    print(json.dumps({'evaluations': ev, 'distinct_nontrivial': len(nontrivial), 'rejected_by_openmdao': rejected[0], 'n_failures': len(fails),
                      'failures': [f for f in fails if f], 'samples': samples}))


if __name__ == '__main__':
    main(sys.argv[1] if len(sys.argv) > 1 else 'quick')
