"""Bounded tier (C04, labelled bounded): connected inputs hold their source value with indices and units applied.

Models (enumerated): one source output (shapes (5,), (2,3), (2,2,3); units m) feeding sink components that sit 0, 1 or 2
groups deep.  The connection is made by connect(..., src_indices=i0, flat_src_indices=f0) at the top and/or by
promotes(..., src_indices=i1[, flat]) at each group level, so that chains of 1..3 index objects arise; the sink input has
units in {None, m, cm, mm}.  Index forms: negative ints in lists, slices with +-steps, tuples of slices / lists,
Ellipsis, om.slicer, flat index lists.  The oracle is NumPy itself:  expected = convert(src[i0][i1][i2]) reshaped to
the input's shape, where each index is applied to the (shaped) result of the previous one, flat ones to its ravel.
What the sink SEES is recorded inside its compute() (after run_model and inside every Newton iteration of a model
with a solver), because Problem.get_val on a connected input re-derives the value through the connection graph.
Also: auto-IVC sources with set_input_defaults(units=...), and discrete variables (object identity).
"""
import sys
import json
import itertools
import numpy as np


def apply_chain(val, chain):
    cur = val
    for idx, flat in chain:
        if idx is None:
            continue            # a plain connection (no src_indices)
        if flat:
            cur = cur.ravel()[idx]
        else:
            cur = cur[idx]
        cur = np.atleast_1d(np.asarray(cur))
    return cur


def spec_str(i):
    return 'no src_indices' if i is None else repr(i).replace('slice(None, None, None)', ':')


SL = slice
FORMS = {
    (5,): [([0, -1, 2], False), (SL(1, 4), False), (SL(None, None, -2), False), ([-2, -2, 0], False), (SL(3, 0, -1), False),
           (np.array([4, 1]), True), (SL(None, None, 2), True)],
    (2, 3): [((SL(None), [0, -1]), False), (([1, 0], SL(None)), False), ((SL(None), SL(None, None, -1)), False), ((-1, SL(0, 2)), False),
             (([0, 1], [2, 0]), False), ([5, 0, -2], True), (SL(1, 5, 2), True), ((Ellipsis, [1]), False), ((SL(None, None, -1), -1), False),
             ([1, 0], False)],          # non-tuple list into a non-flat 2-d source: known finding F5a
    (2, 2, 3): [((SL(None), -1, SL(None)), False), ((1, SL(None), [0, 2]), False), ((Ellipsis, -1), False), ([0, 11, -1, 5], True),
                ((SL(None), SL(None), SL(2, None, -1)), False)],
}
# 0-d sources and one-element vectors (plain connections and the few indices they admit)
FORMS[()] = [(None, False)]
FORMS[(1,)] = [(None, False), ([0], False), (SL(None), False), ([-1], True), ([0, 0], False)]
SECOND = [([0, -1], False), (SL(None, None, -1), False), (SL(1, None), False), ([-1], True), ((Ellipsis,), False)]
UNITS = [None, 'm', 'cm', 'mm']
FACT = {None: 1.0, 'm': 1.0, 'cm': 100.0, 'mm': 1000.0}


def build_and_check(case):
    import openmdao.api as om
    shape, chain, depth, in_units, solver = case[:5]
    scaled = len(case) > 5 and case[5]
    srcval = (np.arange(1.0, 1.0 + np.prod(shape)) * 1.5 - 4.0).reshape(shape)
    try:
        expected = apply_chain(srcval, chain)
    except IndexError:
        return None          # not a valid NumPy chain
    if expected.size == 0:
        return None
    exp_shape = expected.shape
    seen = []

    class Sink(om.ExplicitComponent):
        def setup(self):
            self.add_input('x', np.zeros(exp_shape), units=in_units)
            self.add_output('y', np.zeros(exp_shape))
            self.declare_partials('y', 'x', method='fd')

        def compute(self, inputs, outputs):
            seen.append(np.array(inputs['x']))
            outputs['y'] = 2.0 * inputs['x']
    p = om.Problem(reports=False)
    model = p.model
    ivc = model.add_subsystem('src', om.IndepVarComp())
    if scaled:
        # array-valued ref / ref0 on the source: the input's scaling entries must follow the same index chain
        ivc.add_output('y', srcval.copy(), units='m', ref=2.0 + np.arange(srcval.size).reshape(shape) * 0.5, ref0=-1.0 + np.arange(srcval.size).reshape(shape) * 0.25)
    else:
        ivc.add_output('y', srcval.copy(), units='m')
    # nest the sink
    parent = model
    path = []
    for d in range(depth):
        parent = parent.add_subsystem('g%d' % d, om.Group())
        path.append('g%d' % d)
    parent.add_subsystem('sink', Sink())
    # distribute the chain: first index on connect, the rest on promotes from the innermost group outwards
    # (promotes at an OUTER level is applied BEFORE the one at an inner level)
    k = len(chain)
    levels = depth + 1          # connect + one promotes per group level
    if k > levels:
        return None
    conn_idx = chain[0]
    prom = chain[1:]
    # promote sink.x up through the groups; attach the remaining indices at the outermost promote levels first
    groups = []
    g = model
    for name in path:
        g = getattr(g, name)
        groups.append(g)
    # groups[0] is outermost.  Promotion of 'x' inside groups[-1] ... groups[0].
    names = ['sink'] + list(reversed(path))   # child names from the innermost to the outermost
    # innermost group promotes 'sink.x' as 'x', next promotes '<inner>.x' ...
    holders = list(reversed(groups))           # innermost first
    # indices are consumed outermost-first
    per_level = [None] * len(holders)
    for j, ix in enumerate(prom):
        per_level[len(holders) - 1 - j] = ix   # outermost holder gets prom[0]
    for lvl, holder in enumerate(holders):
        child = 'sink' if lvl == 0 else path[len(path) - lvl]
        ix = per_level[lvl]
        if ix is None:
            holder.promotes(child, inputs=['x'])
        else:
            holder.promotes(child, inputs=['x'], src_indices=ix[0], flat_src_indices=ix[1] or None)
    tgt = (path[0] + '.x') if path else 'sink.x'
    model.connect('src.y', tgt, src_indices=conn_idx[0], flat_src_indices=conn_idx[1] or None)
    if solver:
        # an unrelated two-component cycle in the same group: block Gauss-Seidel re-runs the sink in every iteration
        model.add_subsystem('c1', om.ExecComp('a = 0.5 * b + 1.0'))
        model.add_subsystem('c2', om.ExecComp('b = 0.5 * a'))
        model.connect('c1.a', 'c2.a')
        model.connect('c2.b', 'c1.b')
        model.nonlinear_solver = om.NonlinearBlockGS(maxiter=4, iprint=-1, atol=1e-30, rtol=1e-30, err_on_non_converge=False)
    desc = dict(src_shape=list(shape), chain=[[spec_str(i), bool(f)] for i, f in chain], depth=depth, input_units=in_units, solver=solver, source_has_array_ref_ref0=bool(scaled))
    try:
        p.setup()
        p.run_model()
    except Exception as e:      # noqa
        return dict(desc, kind='exception', error='%s: %s' % (type(e).__name__, str(e)[:200]))
    want = expected * FACT[in_units]
    if not seen:
        return dict(desc, kind='sink never ran')
    for n, s in enumerate(seen if solver else seen[-1:]):
        if want.ndim == 0:
            s = np.asarray(s).reshape(())        # (a 0-d input is presented to compute() as a one-element array)
        if s.shape != want.shape or not np.allclose(s, want, rtol=1e-12, atol=1e-12):
            return dict(desc, kind='input differs from the indexed, unit-converted source value', evaluation=n, seen=np.asarray(s).tolist(), expected=want.tolist())
    return dict(ok=True)


def f5a_region(case):
    """known finding F5a (see known_findings.json): non-tuple int / 1-d array / list index into a NON-FLAT source of rank > 1"""
    shape, chain, depth, in_units, solver = case[:5]
    cur_rank = len(shape)
    cur = np.zeros(shape)
    for idx, flat in chain:
        if not flat and cur.ndim > 1 and not isinstance(idx, tuple) and not isinstance(idx, slice):
            return True
        cur = np.atleast_1d(cur.ravel()[idx] if flat else cur[idx])
    return False


def main(tier):
    big = tier != 'quick'
    cases = []
    for shape, forms in FORMS.items():
        for f0 in forms:
            for depth in (0, 1, 2):
                chains = [[f0]]
                if depth >= 1:
                    chains += [[f0, s] for s in SECOND]
                if depth >= 2 and big:
                    chains += [[f0, s, t] for s in SECOND[:3] for t in SECOND[1:3]]
                elif depth >= 2:
                    chains += [[f0, SECOND[0], SECOND[1]], [f0, SECOND[2], SECOND[0]]]
                for ch in chains:
                    for u in (UNITS if big else [None, 'cm']):
                        for solver in ((False, True) if (big or (u == 'cm' and len(ch) <= 2)) else (False,)):
                            cases.append((shape, ch, depth, u, solver))
    if not big:
        cases = [c for k, c in enumerate(cases) if k % 2 == 0 or len(c[1]) >= 2]
    # the same connections with array-valued ref/ref0 on the source (solver scaling of the input follows the chain)
    cases += [c + (True,) for k, c in enumerate(cases) if c[3] in (None, 'cm') and not c[4] and (big or k % 3 == 0 or len(c[1]) >= 2)]
    import multiprocessing as mp
    with mp.get_context('fork').Pool(16) as pool:
        res = pool.map(build_and_check, cases, chunksize=4)
    ev = sum(1 for r in res if r is not None)
    fails, known = [], []
    for c, r in zip(cases, res):
        if r is None or r.get('ok'):
            continue
        (known if f5a_region(c) else fails).append(r)
    ok = sum(1 for r in res if r is not None and r.get('ok'))
    # ---- auto-IVC + set_input_defaults units, and discrete variables --------------------------
    extra_fail = extras()
    fails += extra_fail[0]
    ev += extra_fail[1]
    ok += extra_fail[1] - len(extra_fail[0])
    hist = histories()
    fails += hist[0]
    ev += hist[1]
    ok += hist[1] - len(hist[0])
    print(json.dumps({'evaluations': ev, 'distinct_nontrivial': ok, 'n_failures': len(fails), 'failures': fails[:30],
                      'failures_in_known_region_F5a': len(known), 'known_examples': known[:2],
                      'samples': [dict(src_shape=list(c[0]), chain=[[spec_str(i), bool(f)] for i, f in c[1]], depth=c[2], input_units=c[3], solver=c[4]) for c in cases[50:53]]}, default=str))


def histories():
    """index objects reused: (a) one promotes() call covering two inputs whose sources have different sizes,
    (b) a second Problem.setup() after the source size changed; single level and two-level chains; negative indices,
    open slices.  Oracle: NumPy indexing of the CURRENT source value."""
    import openmdao.api as om
    fails = []
    n = 0
    specs = [[-2, -1], slice(-3, None), slice(None, None, -1), [0, -1]]
    for spec, chain2, how in itertools.product(specs, (None, slice(1, None), [-1]), ('connect', 'promotes')):
        n += 1
        seen = {}
        desc = dict(history='re-setup after the source size changed 5 -> 8', src_indices=repr(spec), inner_src_indices=repr(chain2), via=how)
        try:
            def want(nsrc):
                v = np.arange(1.0, nsrc + 1)[spec if not isinstance(spec, list) else np.array(spec)]
                if chain2 is not None:
                    v = v[chain2 if not isinstance(chain2, list) else np.array(chain2)]
                return np.atleast_1d(v)

            class Src(om.ExplicitComponent):
                def initialize(self):
                    self.options.declare('n', default=5)

                def setup(self):
                    self.add_output('y', np.arange(1.0, self.options['n'] + 1))

                def compute(self, inputs, outputs):
                    outputs['y'] = np.arange(1.0, self.options['n'] + 1)

            class D(om.ExplicitComponent):
                def setup(self):
                    self.add_input('x', shape_by_conn=True)
                    self.add_output('o', 0.0)

                def compute(self, inputs, outputs):
                    seen['d'] = np.array(inputs['x'])
            p = om.Problem(reports=False)
            src = p.model.add_subsystem('s', Src(n=5))
            g = p.model.add_subsystem('g', om.Group())
            g.add_subsystem('d', D())
            if chain2 is not None:
                g.promotes('d', inputs=['x'], src_indices=chain2)
            else:
                g.promotes('d', inputs=['x'])
            if how == 'connect':
                p.model.connect('s.y', 'g.x', src_indices=spec)
            else:
                p.model.promotes('g', inputs=[('x', 'xx')], src_indices=spec)
                p.model.connect('s.y', 'xx')
            for nsrc in (5, 8, 6):
                src.options['n'] = nsrc
                p.setup()
                p.run_model()
                if seen['d'].shape != want(nsrc).shape or not np.array_equal(seen['d'], want(nsrc)):
                    fails.append(dict(desc, kind='input differs from the indexed source value after a later setup', source_size=nsrc, seen=seen['d'].tolist(), expected=want(nsrc).tolist()))
                    break
        except Exception as e:      # noqa
            fails.append(dict(desc, kind='exception', error='%s: %s' % (type(e).__name__, str(e)[:200])))
    for spec in specs:
        n += 1
        seen = {}
        desc = dict(history='one promotes() call for two inputs with sources of size 5 and 8', src_indices=repr(spec))
        try:
            class C2(om.ExplicitComponent):
                def setup(self):
                    self.add_input('x', shape_by_conn=True)
                    self.add_input('z', shape_by_conn=True)
                    self.add_output('o', 0.0)

                def compute(self, inputs, outputs):
                    seen['x'] = np.array(inputs['x'])
                    seen['z'] = np.array(inputs['z'])
            p = om.Problem(reports=False)
            ivc = p.model.add_subsystem('ivc', om.IndepVarComp(), promotes=['*'])
            ivc.add_output('x', np.arange(1.0, 6.0))
            ivc.add_output('z', np.arange(10.0, 18.0))
            g = p.model.add_subsystem('g', om.Group(), promotes=['*'])
            g.add_subsystem('c', C2())
            g.promotes('c', inputs=['x', 'z'], src_indices=spec)
            p.setup()
            p.run_model()
            ix = spec if not isinstance(spec, list) else np.array(spec)
            for nm, base in (('x', np.arange(1.0, 6.0)), ('z', np.arange(10.0, 18.0))):
                if not np.array_equal(seen[nm], base[ix]):
                    fails.append(dict(desc, kind='input differs from the indexed source value (index object shared between inputs)', input=nm, seen=seen[nm].tolist(), expected=base[ix].tolist()))
                    break
        except Exception as e:      # noqa
            fails.append(dict(desc, kind='exception', error='%s: %s' % (type(e).__name__, str(e)[:200])))
    return fails, n


def extras():
    import openmdao.api as om
    fails = []
    n = 0
    # auto-IVC: two inputs with different units promoted to one name, default units given
    for du, (u1, u2) in itertools.product(['m', 'cm'], [('m', 'mm'), ('cm', 'm'), ('mm', 'mm')]):
        n += 1
        seen = {}

        def mk(tag, units):
            class S(om.ExplicitComponent):
                def setup(self):
                    self.add_input('x', np.zeros(3), units=units)
                    self.add_output('y', np.zeros(3))

                def compute(self, inputs, outputs):
                    seen[tag] = np.array(inputs['x'])
                    outputs['y'] = inputs['x']
            return S()
        try:
            p = om.Problem(reports=False)
            g = p.model.add_subsystem('g', om.Group(), promotes=['x'])
            g.add_subsystem('a', mk('a', u1), promotes_inputs=['x'])
            g.add_subsystem('b', mk('b', u2), promotes_inputs=['x'])
            g.set_input_defaults('x', val=np.array([1.0, 2.0, -3.0]), units=du)
            p.setup()
            p.set_val('x', np.array([0.5, -2.0, 4.0]), units=du)
            p.run_model()
            base = np.array([0.5, -2.0, 4.0]) / FACT[du]      # metres
            for tag, u in (('a', u1), ('b', u2)):
                if not np.allclose(seen[tag], base * FACT[u], rtol=1e-12):
                    fails.append(dict(kind='auto-IVC input differs from the unit-converted source value', default_units=du, input_units=u, seen=seen[tag].tolist(), expected=(base * FACT[u]).tolist()))
        except Exception as e:      # noqa
            fails.append(dict(kind='exception', where='auto-ivc', error='%s: %s' % (type(e).__name__, str(e)[:200])))
    # discrete: the sink receives the source OBJECT
    n += 1
    try:
        got = {}
        marker = {'payload': [1, 2, 3]}

        class DSrc(om.ExplicitComponent):
            def setup(self):
                self.add_discrete_output('d', val=None)
                self.add_output('y', 1.0)

            def compute(self, inputs, outputs, discrete_inputs=None, discrete_outputs=None):
                discrete_outputs['d'] = marker

        class DSink(om.ExplicitComponent):
            def setup(self):
                self.add_discrete_input('d', val=None)
                self.add_output('z', 1.0)

            def compute(self, inputs, outputs, discrete_inputs=None, discrete_outputs=None):
                got['d'] = discrete_inputs['d']
        p = om.Problem(reports=False)
        p.model.add_subsystem('s', DSrc())
        g = p.model.add_subsystem('g', om.Group())
        g.add_subsystem('t', DSink(), promotes_inputs=['d'])
        p.model.connect('s.d', 'g.d')
        p.setup()
        p.run_model()
        if got.get('d') != marker:
            fails.append(dict(kind='discrete input did not receive its source object', got=repr(got.get('d'))))
    except Exception as e:      # noqa
        fails.append(dict(kind='exception', where='discrete', error='%s: %s' % (type(e).__name__, str(e)[:200])))
    return fails, n


if __name__ == '__main__':
    main(sys.argv[1] if len(sys.argv) > 1 else 'quick')
