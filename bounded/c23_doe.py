"""Bounded tier (C23, labelled bounded): DOE generators stay within bounds and cover their designs.
Exhaustive grid over <= 3 design variables of size <= 2 with scalar / array bounds (incl. negative and
degenerate lower == upper), levels <= 3 / samples <= 4, seeds {0, 7}.
Contracts: every yielded value within [lower, upper]; FullFactorial = exactly the product of the
per-element level grids (each once); LatinHypercube = one sample per stratum of every dimension;
Uniform within bounds; same seed => same cases; DOEDriver sets exactly the generated values.
"""
import sys
import json
import itertools
import numpy as np


def main(tier):
    import openmdao.api as om
    from openmdao.drivers.doe_generators import (FullFactorialGenerator, LatinHypercubeGenerator, UniformGenerator,
                                                 PlackettBurmanGenerator, BoxBehnkenGenerator)
    ev = 0
    nontrivial = set()
    fails = []
    samples = []

    def fail(**kw):
        fails.append(kw if len(fails) < 20 else None)
    bound_sets = [(-1.0, 1.0), (0.0, 0.0), (2.0, 5.0), (np.array([-3.0, 0.0]), np.array([-1.0, 4.0])), (-10.0, np.array([0.0, -5.0]))]
    var_defs = []
    for lo, up in bound_sets:
        size = 2 if isinstance(lo, np.ndarray) or isinstance(up, np.ndarray) else 1
        var_defs.append((size, lo, up))
        if size == 1:
            var_defs.append((2, lo, up))
    combos = list(itertools.chain.from_iterable(itertools.combinations(range(len(var_defs)), r) for r in (1, 2, 3)))
    if tier == 'quick':
        combos = combos[::4]

    def dvs(combo):
        d = {}
        for j, ci in enumerate(combo):
            size, lo, up = var_defs[ci]
            d['x%d' % j] = {'size': size, 'global_size': size, 'distributed': False, 'lower': lo, 'upper': up}
        return d

    def flat_bounds(d):
        lo, up = [], []
        for m in d.values():
            lo += list(np.broadcast_to(m['lower'], (m['size'],)))
            up += list(np.broadcast_to(m['upper'], (m['size'],)))
        return np.array(lo, float), np.array(up, float)

    def flat_case(case, d):
        assert [n for n, _ in case] == list(d), 'names/order'
        return np.concatenate([np.atleast_1d(v).astype(float).ravel() for _, v in case])
    for combo in combos:
        d = dvs(combo)
        lo, up = flat_bounds(d)
        nfac = len(lo)
        # full factorial
        for levels in (2, 3):
            ev += 1
            cases = [flat_case(c, d) for c in FullFactorialGenerator(levels=levels)(d)]
            grids = [np.linspace(l, u, levels) for l, u in zip(lo, up)]
            want = sorted(tuple(p) for p in itertools.product(*grids))
            got = sorted(tuple(c) for c in cases)
            nontrivial.add(('ff', combo, levels))
            if len(got) != levels ** nfac or not np.allclose(np.array(got), np.array(want), rtol=1e-12, atol=1e-12):
                fail(kind='full-factorial', vars=str(d), levels=levels, n_cases=len(got))
            if any((c < lo - 1e-12).any() or (c > up + 1e-12).any() for c in cases):
                fail(kind='ff-out-of-bounds', vars=str(d), levels=levels)
        # full factorial with per-variable levels (dict): named, missing (-> 2) and "default" entries
        names = list(d)
        ldicts = [{names[0]: 3}, {'default': 3}, {names[-1]: 1, 'default': 3}, {n: 2 + (i % 2) for i, n in enumerate(names)}]
        for ld in ldicts:
            ev += 1
            per_var = [ld.get(n, ld.get('default', 2)) for n in names]
            per_fac = [lv for n, lv in zip(names, per_var) for _ in range(d[n]['size'])]
            if int(np.prod(per_fac)) > 400:
                continue
            cases = [flat_case(c, d) for c in FullFactorialGenerator(levels=dict(ld))(d)]
            grids = [np.linspace(l, u, lv) for l, u, lv in zip(lo, up, per_fac)]
            want = sorted(tuple(p) for p in itertools.product(*grids))
            got = sorted(tuple(c) for c in cases)
            nontrivial.add(('ff-dict', combo, str(ld)))
            if len(got) != len(want) or not np.allclose(np.array(got), np.array(want), rtol=1e-12, atol=1e-12):
                fail(kind='full-factorial-dict', vars=str(d), levels=str(ld), n_cases=len(got), n_want=len(want))
        # latin hypercube
        for nsamp in (2, 4):
            for seed in (0, 7):
                for criterion in (None, 'center'):
                    ev += 1
                    g = lambda: [flat_case(c, d) for c in LatinHypercubeGenerator(samples=nsamp, criterion=criterion, seed=seed)(d)]
                    cases = g()
                    again = g()
                    nontrivial.add(('lhs', combo, nsamp, seed, criterion))
                    if len(cases) != nsamp:
                        fail(kind='lhs-count', vars=str(d), samples=nsamp)
                        continue
                    A = np.array(cases)
                    if (A < lo - 1e-12).any() or (A > up + 1e-12).any():
                        fail(kind='lhs-out-of-bounds', vars=str(d), samples=nsamp, seed=seed)
                    if not np.array_equal(A, np.array(again)):
                        fail(kind='lhs-not-reproducible', vars=str(d), samples=nsamp, seed=seed)
                    # the SAME seeded generator object invoked again (run_driver called twice, a generator shared by drivers)
                    one = LatinHypercubeGenerator(samples=nsamp, criterion=criterion, seed=seed)
                    first = np.array([flat_case(c, d) for c in one(d)])
                    second = np.array([flat_case(c, d) for c in one(d)])
                    if not np.array_equal(first, second) or not np.array_equal(first, A):
                        fail(kind='lhs-not-reproducible', vars=str(d), samples=nsamp, seed=seed, what='second invocation of the same seeded generator object differs',
                             first=first.tolist(), second=second.tolist())
                    for j in range(nfac):
                        if up[j] > lo[j]:
                            s = (A[:, j] - lo[j]) / (up[j] - lo[j])
                            strata = sorted(min(int(np.floor(x * nsamp)), nsamp - 1) for x in s)
                            if strata != list(range(nsamp)):
                                fail(kind='lhs-strata', vars=str(d), samples=nsamp, seed=seed, dim=j, strata=strata)
                    if len(samples) < 2:
                        samples.append({'generator': 'LatinHypercube', 'samples': nsamp, 'seed': seed, 'cases': A.tolist()})
        # uniform
        for seed in (0, 7):
            ev += 1
            g = lambda: [flat_case(c, d) for c in UniformGenerator(num_samples=3, seed=seed)(d)]
            A, B = np.array(g()), np.array(g())
            nontrivial.add(('uni', combo, seed))
            if (A < lo - 1e-12).any() or (A > up + 1e-12).any():
                fail(kind='uniform-out-of-bounds', vars=str(d), seed=seed)
            if not np.array_equal(A, B):
                fail(kind='uniform-not-reproducible', vars=str(d), seed=seed)
            oneu = UniformGenerator(num_samples=3, seed=seed)
            u1 = np.array([flat_case(c, d) for c in oneu(d)])
            u2 = np.array([flat_case(c, d) for c in oneu(d)])
            if not np.array_equal(u1, u2) or not np.array_equal(u1, A):
                fail(kind='uniform-not-reproducible', vars=str(d), seed=seed, what='second invocation of the same seeded generator object differs')
        # other pyDOE designs: bounds only
        for gen in (PlackettBurmanGenerator(),) + ((BoxBehnkenGenerator(),) if nfac >= 3 else ()):
            ev += 1
            try:
                cases = [flat_case(c, d) for c in gen(d)]
            except Exception as e:     # noqa
                fail(kind='design-exception', generator=type(gen).__name__, vars=str(d), error=repr(e))
                continue
            if any((c < lo - 1e-12).any() or (c > up + 1e-12).any() for c in cases):
                fail(kind='design-out-of-bounds', generator=type(gen).__name__, vars=str(d))
    # DOEDriver evaluates the model at exactly the generated values
    for levels, sizes in ((2, (1, 2)), (3, (2,))):
        ev += 1
        p = om.Problem(reports=False)
        ivc = p.model.add_subsystem('ivc', om.IndepVarComp(), promotes=['*'])
        names = []
        for j, sz in enumerate(sizes):
            ivc.add_output('x%d' % j, np.zeros(sz))
            names.append('x%d' % j)
        p.model.add_subsystem('c', om.ExecComp('y = ' + ' + '.join('sum(x%d)' % j for j in range(len(sizes))),
                                               **{'x%d' % j: np.zeros(sz) for j, sz in enumerate(sizes)}), promotes=['*'])
        for j, sz in enumerate(sizes):
            p.model.add_design_var('x%d' % j, lower=-1.0 - j, upper=np.linspace(1.0, 2.0, sz))
        p.model.add_objective('y')
        p.driver = om.DOEDriver(FullFactorialGenerator(levels=levels))
        rec = om.SqliteRecorder('/tmp/c23_cases.sql')
        p.driver.add_recorder(rec)
        p.setup()
        p.run_driver()
        p.cleanup()
        cr = om.CaseReader('/tmp/c23_cases.sql')
        seen = sorted(tuple(np.concatenate([cr.get_case(c).get_design_vars()[n].ravel() for n in names])) for c in cr.list_cases('driver', out_stream=None))
        d = {n: {'size': sz, 'global_size': sz, 'distributed': False, 'lower': -1.0 - j, 'upper': np.linspace(1.0, 2.0, sz)}
             for j, (n, sz) in enumerate(zip(names, sizes))}
        want = sorted(tuple(flat_case(c, d)) for c in FullFactorialGenerator(levels=levels)(d))
        nontrivial.add(('driver', levels, sizes))
        if len(seen) != len(want) or not np.allclose(np.array(seen), np.array(want)):
            fail(kind='doedriver-values', levels=levels, sizes=list(sizes), n_seen=len(seen), n_want=len(want))
    print(json.dumps({'evaluations': ev, 'distinct_nontrivial': len(nontrivial), 'n_failures': len(fails),
                      'failures': [f for f in fails if f], 'samples': samples}))


if __name__ == '__main__':
    main(sys.argv[1] if len(sys.argv) > 1 else 'quick')
