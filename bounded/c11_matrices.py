"""Bounded tier (C11, labelled bounded), matrix level: random collections of Subjac objects (dense,
rows/cols COO WITH duplicate (row, col) entries, diagonal, scipy coo/csr/csc), with src_indices column
maps (duplicates allowed -> within-subjac duplicates), several subjacs sharing the same source columns
(cross-subjac duplicates) and unit factors are assembled by the real DenseMatrix, COOMatrix, CSCMatrix
and CSRMatrix through the real life cycle (_build, _pre_update, _update_from_submat, _post_update).
Oracle: an explicit dense accumulation written here from the property statement.  Checked: todense(),
_prod fwd / rev with and without mask, after a second update with new values, after a switch to complex
dtype (complex values) and back to float.
"""
import sys
import json
import random
import numpy as np


class _Idx:
    def __init__(self, arr):
        self._arr = np.asarray(arr, dtype=int)

    def as_array(self):
        return self._arr


def main(tier):
    import scipy.sparse as sp
    from openmdao.jacobians import subjac as SJ
    from openmdao.matrices.dense_matrix import DenseMatrix
    from openmdao.matrices.coo_matrix import COOMatrix
    from openmdao.matrices.csc_matrix import CSCMatrix
    from openmdao.matrices.csr_matrix import CSRMatrix
    count = 150 if tier == 'quick' else 1500
    rng = random.Random(11)
    ev = 0
    nontrivial = 0
    fails = []
    samples = []
    kinds = ['dense', 'omcoo_dup', 'omcoo', 'diagonal', 'coo', 'csr', 'csc']

    def fail(**kw):
        if len(fails) < 20:
            fails.append(kw)
        else:
            fails.append(None)

    def rv(cplx):
        v = rng.choice([-4, -3, -2, -1, 1, 2, 3, 4, 6]) * 0.5
        if cplx:
            v = v + 1j * rng.choice([-2, -1, 0, 1, 2, 3]) * 0.25
        return v

    for it in range(count):
        nsrc = rng.randint(1, 3)
        src_sizes = [rng.randint(1, 4) for _ in range(nsrc)]
        src_off = np.cumsum([0] + src_sizes)
        ncols_total = int(src_off[-1])
        nres = rng.randint(1, 3)
        res_sizes = [rng.randint(1, 4) for _ in range(nres)]
        res_off = np.cumsum([0] + res_sizes)
        nrows_total = int(res_off[-1])
        specs = []
        nsub = rng.randint(1, 5)
        used = set()
        for k in range(nsub):
            r = rng.randrange(nres)
            s = rng.randrange(nsrc)
            kind = rng.choice(kinds)
            nr = res_sizes[r]
            use_src = rng.random() < 0.6
            if use_src:
                nc = rng.randint(1, 4)
                src_inds = [rng.randrange(src_sizes[s]) for _ in range(nc)]     # duplicates allowed
            else:
                nc = src_sizes[s]
                src_inds = None
            if kind == 'diagonal' and nr != nc:
                kind = 'dense'
            if kind == 'dense':
                pat = None
            elif kind == 'diagonal':
                pat = [(i, i) for i in range(nr)]
            else:
                m = rng.randint(1, nr * nc)
                pat = [(rng.randrange(nr), rng.randrange(nc)) for _ in range(m)]
                if kind != 'omcoo_dup':
                    pat = sorted(set(pat))
                else:
                    pat = pat + pat[:rng.randint(1, len(pat))]      # guaranteed duplicates
            factor = rng.choice([None, None, 1000.0, 0.5])
            specs.append(dict(key=('r%d' % r, 'in%d' % k), r=r, s=s, kind=kind, nr=nr, nc=nc, pat=pat,
                              src_inds=src_inds, factor=factor))

        def values(cplx):
            out = []
            for spc in specs:
                if spc['kind'] == 'dense':
                    out.append(np.array([[rv(cplx) for _ in range(spc['nc'])] for _ in range(spc['nr'])]))
                else:
                    out.append(np.array([rv(cplx) for _ in spc['pat']]))
            return out

        def reference(vals, cplx):
            M = np.zeros((nrows_total, ncols_total), dtype=complex if cplx else float)
            for spc, v in zip(specs, vals):
                f = 1.0 if spc['factor'] is None else spc['factor']
                cmap = spc['src_inds'] if spc['src_inds'] is not None else list(range(spc['nc']))
                r0, c0 = int(res_off[spc['r']]), int(src_off[spc['s']])
                if spc['kind'] == 'dense':
                    for i in range(spc['nr']):
                        for j in range(spc['nc']):
                            M[r0 + i, c0 + cmap[j]] += v[i, j] * f
                else:
                    for (i, j), x in zip(spc['pat'], v):
                        M[r0 + i, c0 + cmap[j]] += x * f
            return M

        def make_subjacs(vals):
            subs = {}
            for spc, v in zip(specs, vals):
                rs = slice(int(res_off[spc['r']]), int(res_off[spc['r'] + 1]))
                cs = slice(int(src_off[spc['s']]), int(src_off[spc['s'] + 1]))
                info = {'shape': (spc['nr'], spc['nc']), 'rows': None, 'cols': None, 'val': None, 'diagonal': False,
                        'dependent': True}
                kind = spc['kind']
                if kind == 'dense':
                    cls = SJ.DenseSubjac
                    info['val'] = np.array(v, dtype=float)
                elif kind in ('omcoo', 'omcoo_dup'):
                    cls = SJ.OMCOOSubjac
                    info['rows'] = np.array([p[0] for p in spc['pat']], dtype=int)
                    info['cols'] = np.array([p[1] for p in spc['pat']], dtype=int)
                    info['val'] = np.array(v, dtype=float)
                elif kind == 'diagonal':
                    cls = SJ.DiagonalSubjac
                    info['diagonal'] = True
                    info['val'] = np.array(v, dtype=float)
                else:
                    rows = np.array([p[0] for p in spc['pat']])
                    cols = np.array([p[1] for p in spc['pat']])
                    M = sp.coo_matrix((np.array(v, dtype=float), (rows, cols)), shape=(spc['nr'], spc['nc']))
                    cls, M = {'coo': (SJ.COOSubjac, M), 'csr': (SJ.CSRSubjac, M.tocsr()), 'csc': (SJ.CSCSubjac, M.tocsc())}[kind]
                    info['val'] = M
                sil = None if spc['src_inds'] is None else [_Idx(spc['src_inds'])]
                subs[spc['key']] = cls(spc['key'], info, rs, cs, True, np.dtype(float), sil, spc['factor'], 'src%d' % spc['s'])
            return subs

        def set_values(subs, vals, cplx):
            dt = np.dtype(complex if cplx else float)
            for spc, v in zip(specs, vals):
                sj = subs[spc['key']]
                sj.set_dtype(dt)
                kind = spc['kind']
                if kind in ('coo', 'csr', 'csc'):
                    rows = np.array([p[0] for p in spc['pat']])
                    cols = np.array([p[1] for p in spc['pat']])
                    M = sp.coo_matrix((np.array(v, dtype=dt), (rows, cols)), shape=(spc['nr'], spc['nc']))
                    M = {'coo': M, 'csr': M.tocsr(), 'csc': M.tocsc()}[kind]
                    # same declared pattern (sorted, no duplicates) => same storage order; what a component's
                    # compute_partials does through Subjac.set_val
                    sj.set_val(M)
                else:
                    sj.set_val(np.array(v, dtype=dt))

        vals0 = values(False)
        dup = any(spc['kind'] == 'omcoo_dup' or (spc['src_inds'] is not None and len(set(spc['src_inds'])) < len(spc['src_inds']))
                  for spc in specs) or len({(s['r'], s['s']) for s in specs}) < len(specs)
        nontrivial += bool(dup)
        history = [(vals0, False), (values(False), False), (values(True), True), (values(False), False)]
        for Mcls in (DenseMatrix, COOMatrix, CSCMatrix, CSRMatrix):
            ev += 1
            try:
                subs = make_subjacs(vals0)
                mat = Mcls(subs)
                mat._build(nrows_total, ncols_total)
                for step, (vals, cplx) in enumerate(history):
                    if step:
                        set_values(subs, vals, cplx)
                    dt = np.dtype(complex if cplx else float)
                    mat._pre_update(dt)
                    for sj in subs.values():
                        mat._update_from_submat(sj, None)
                    mat._post_update()
                    R = reference(vals, cplx)
                    D = np.asarray(mat.todense())
                    if D.shape != R.shape or not np.allclose(D, R, rtol=1e-12, atol=1e-12):
                        fail(kind='todense', matrix=Mcls.__name__, step=step, specs=_desc(specs), got=_l(D), want=_l(R))
                        break
                    x = np.array([rv(cplx) for _ in range(ncols_total)], dtype=dt)
                    y = np.array([rv(cplx) for _ in range(nrows_total)], dtype=dt)
                    mk = np.array([rng.random() < 0.3 for _ in range(ncols_total)])
                    mkr = np.array([rng.random() < 0.3 for _ in range(nrows_total)])
                    for mode, vec, ref, mask in (('fwd', x, R @ x, None), ('rev', y, R.T @ y, None),
                                                 ('fwd', x, R @ np.where(mk, 0, x), mk), ('rev', y, R.T @ np.where(mkr, 0, y), mkr)):
                        keep = vec.copy()
                        got = np.asarray(mat._prod(vec, mode, mask)).ravel()
                        if got.shape != ref.shape or not np.allclose(got, ref, rtol=1e-12, atol=1e-12):
                            fail(kind='prod', matrix=Mcls.__name__, mode=mode, masked=mask is not None, step=step,
                                 specs=_desc(specs), got=_l(got), want=_l(ref))
                        if not np.array_equal(keep, vec):
                            fail(kind='input-modified', matrix=Mcls.__name__, mode=mode, step=step)
            except Exception as e:    # noqa
                import traceback
                fail(kind='exception', matrix=Mcls.__name__, specs=_desc(specs), error=traceback.format_exc()[-600:])
        if len(samples) < 2:
            samples.append({'subjacs': _desc(specs), 'reference': _l(reference(vals0, False))})
    print(json.dumps({'evaluations': ev, 'distinct_nontrivial': nontrivial, 'n_failures': len(fails),
                      'failures': [f for f in fails if f], 'samples': samples}))


def _l(a):
    a = np.asarray(a)
    if np.iscomplexobj(a):
        return [str(z) for z in a.ravel().tolist()]
    return a.tolist()


def _desc(specs):
    return [{k: (v if not isinstance(v, tuple) else list(v)) for k, v in s.items() if k in ('key', 'r', 's', 'kind', 'nr', 'nc', 'pat', 'src_inds', 'factor')}
            for s in specs]


if __name__ == '__main__':
    main(sys.argv[1] if len(sys.argv) > 1 else 'quick')
