"""Bounded tier (C25, labelled bounded): the NumPy KSfunction / KSComp (2-d, axis reductions: outside
pyvc's array model).  Contract checked natively on an exhaustive grid:
  with c = s*(g - upper), s = -1 if lower_flag (xor minimum)...: the component output equals
  +-KS(c) with  max(c) <= KS(c) <= max(c) + ln(width)/rho  (mirrored for minimum), and the partials
  equal the complex-step derivative of the output.
Grid: width in {1,2,3}, vec_size in {1,2}, rows from all tuples over a value set (ties, large
magnitudes), rho in {0.5, 50, 1e3}, upper in {0, 1.5}, lower_flag x minimum.
"""
import sys
import json
import itertools
import numpy as np


def ref_w(c, rho):
    """softmax weights exp(rho (c - m)) / sum, row-wise"""
    c = np.atleast_2d(np.asarray(c, dtype=float))
    e = np.exp(rho * (c - c.max(axis=1, keepdims=True)))
    return e / e.sum(axis=1, keepdims=True)


def _signed(g, upper, lower_flag, minimum):
    c = np.atleast_2d(np.asarray(g, dtype=float)) - upper
    sgn = 1.0
    if lower_flag:
        c, sgn = -c, -sgn
    if minimum:
        c, sgn = -c, -sgn
    return c, sgn


def ref_ks(g, rho, upper, lower_flag, minimum):
    c, sgn = _signed(g, upper, lower_flag, minimum)
    m = c.max(axis=1)
    ks = m + np.log(np.exp(rho * (c - m[:, None])).sum(axis=1)) / rho
    return -ks if minimum else ks


def ref_jac(g, rho, upper, lower_flag, minimum):
    """d KS[r] / d g[r', j] as the (vec_size, vec_size*width) total jacobian"""
    c, sgn = _signed(g, upper, lower_flag, minimum)
    w = ref_w(c, rho) * (-1.0 if lower_flag else 1.0)
    v, n = c.shape
    J = np.zeros((v, v * n))
    for r in range(v):
        J[r, r * n:(r + 1) * n] = w[r]
    return J


def main(tier):
    import openmdao.api as om
    from openmdao.components.ks_comp import KSfunction
    vals = [-3.0, 0.0, 0.25, 2.0, 2.0 + 1e-9, 1.0e4] if tier != 'quick' else [-3.0, 0.0, 2.0, 1.0e4]
    rhos = [0.5, 50.0, 1.0e3]
    ev = 0
    nontrivial = set()
    fails = []
    samples = []

    def fail(**kw):
        fails.append(kw if len(fails) < 20 else None)
    for width in (1, 2, 3):
        rows = list(itertools.product(vals, repeat=width))
        for vec_size in (1, 2):
            if vec_size == 1:
                gs = [np.array([r]) for r in rows]
            else:
                gs = [np.array([r, rows[(i * 7 + 3) % len(rows)]]) for i, r in enumerate(rows)]
            for rho in rhos:
                for upper in (0.0, 1.5):
                    for lower_flag in (False, True):
                        for minimum in (False, True):
                            p = om.Problem(reports=False)
                            p.model.add_subsystem('ks', om.KSComp(width=width, vec_size=vec_size, rho=rho, upper=upper,
                                                                  lower_flag=lower_flag, minimum=minimum), promotes=['*'])
                            p.setup(force_alloc_complex=True)
                            for g in gs:
                                ev += 1
                                p.set_val('g', g)
                                p.run_model()
                                ks = p.get_val('KS').ravel()
                                c = g - upper
                                if lower_flag:
                                    c = -c
                                for r in range(vec_size):
                                    if not minimum:
                                        m = c[r].max()
                                        lo, hi = m, m + np.log(width) / rho
                                    else:
                                        m = c[r].min()
                                        lo, hi = m - np.log(width) / rho, m
                                    tol = 1e-9 * (1 + abs(m))
                                    if not (lo - tol <= ks[r] <= hi + tol):
                                        fail(kind='bracket', g=g.tolist(), rho=rho, upper=upper, lower_flag=lower_flag,
                                             minimum=minimum, ks=float(ks[r]), lo=float(lo), hi=float(hi))
                                # closed form, computed independently of the code under test
                                ks_ref = ref_ks(g, rho, upper, lower_flag, minimum)
                                if not np.allclose(ks, ks_ref, rtol=1e-12, atol=1e-12):
                                    fail(kind='value differs from the closed form m + log(sum exp(rho (c - m))) / rho', g=g.tolist(), rho=rho, upper=upper,
                                         lower_flag=lower_flag, minimum=minimum, ks=ks.tolist(), expected=ks_ref.tolist())
                                if width > 1 and len(set(g[0])) > 1:
                                    nontrivial.add((width, vec_size, rho, upper, lower_flag, minimum, g.tobytes()))
                                # derivative vs complex step of the component's own compute
                                J = p.compute_totals(of=['KS'], wrt=['g'], return_format='array')
                                comp = p.model.ks
                                h = 1e-30
                                Jcs = np.zeros_like(J)
                                for k in range(g.size):
                                    gc = g.astype(complex).ravel()
                                    gc[k] += 1j * h
                                    cc = gc.reshape(g.shape) - upper
                                    if lower_flag:
                                        cc = -cc
                                    if minimum:
                                        cc = -cc
                                    kv = KSfunction.compute(cc, rho)
                                    if minimum:
                                        kv = -kv
                                    Jcs[:, k] = kv.ravel().imag / h
                                Jref = ref_jac(g, rho, upper, lower_flag, minimum)
                                if not np.allclose(J, Jref, rtol=1e-9, atol=1e-12):
                                    fail(kind='derivative differs from the softmax weights', g=g.tolist(), rho=rho, upper=upper, lower_flag=lower_flag,
                                         minimum=minimum, J=J.tolist(), expected=Jref.tolist())
                                if not np.allclose(J, Jcs, rtol=1e-8, atol=1e-10):
                                    fail(kind='derivative', g=g.tolist(), rho=rho, upper=upper, lower_flag=lower_flag,
                                         minimum=minimum, J=J.tolist(), Jcs=Jcs.tolist())
                                if len(samples) < 2 and width == 3:
                                    samples.append({'g': g.tolist(), 'rho': rho, 'upper': upper, 'lower_flag': lower_flag,
                                                    'minimum': minimum, 'KS': ks.tolist()})
    # ---- histories: the SAME constraint array evaluated with different rho (one component swept, two components fed from
    # one source, KSfunction called directly), and rho alternating while g alternates
    for width, g_rows in ((3, [[-3.0, 0.0, 2.0]]), (2, [[0.25, 2.0], [1.0e4, -3.0]]), (3, [[2.0, 2.0, 2.0 + 1e-9]])):
        g = np.array(g_rows)
        vs = g.shape[0]
        for upper, lower_flag, minimum in itertools.product((0.0, 1.5), (False, True), (False, True)):
            ev += 1
            desc = dict(history='rho sweep on one KSComp with fixed g', g=g.tolist(), upper=upper, lower_flag=lower_flag, minimum=minimum)
            p = om.Problem(reports=False)
            p.model.add_subsystem('ks', om.KSComp(width=width, vec_size=vs, rho=50.0, upper=upper, lower_flag=lower_flag, minimum=minimum), promotes=['*'])
            p.setup()
            p.set_val('g', g)
            for rho in (50.0, 0.5, 1.0e3, 0.5, 50.0):
                p.model.ks.options['rho'] = rho
                p.run_model()
                ks = p.get_val('KS').ravel()
                J = p.compute_totals(of=['KS'], wrt=['g'], return_format='array')
                if not np.allclose(ks, ref_ks(g, rho, upper, lower_flag, minimum), rtol=1e-12, atol=1e-12):
                    fail(kind='value differs from the closed form', rho=rho, ks=ks.tolist(), expected=ref_ks(g, rho, upper, lower_flag, minimum).tolist(), **desc)
                    break
                if not np.allclose(J, ref_jac(g, rho, upper, lower_flag, minimum), rtol=1e-9, atol=1e-12):
                    fail(kind='derivative differs from the softmax weights', rho=rho, **desc)
                    break
            else:
                nontrivial.add(('sweep', width, upper, lower_flag, minimum))
            ev += 1
            desc = dict(history='two KSComps with different rho fed from one source', g=g.tolist(), upper=upper, lower_flag=lower_flag, minimum=minimum)
            p = om.Problem(reports=False)
            p.model.add_subsystem('ivc', om.IndepVarComp('g', g), promotes=['*'])
            for nm, rho in (('k1', 50.0), ('k2', 2.0), ('k3', 50.0)):
                p.model.add_subsystem(nm, om.KSComp(width=width, vec_size=vs, rho=rho, upper=upper, lower_flag=lower_flag, minimum=minimum), promotes_inputs=['g'])
            p.setup()
            p.run_model()
            ok = True
            for nm, rho in (('k1', 50.0), ('k2', 2.0), ('k3', 50.0)):
                ks = p.get_val(nm + '.KS').ravel()
                J = p.compute_totals(of=[nm + '.KS'], wrt=['g'], return_format='array')
                if not np.allclose(ks, ref_ks(g, rho, upper, lower_flag, minimum), rtol=1e-12, atol=1e-12) or \
                        not np.allclose(J, ref_jac(g, rho, upper, lower_flag, minimum), rtol=1e-9, atol=1e-12):
                    fail(kind='value or derivative differs from the closed form', component=nm, rho=rho, ks=ks.tolist(), **desc)
                    ok = False
                    break
            if ok:
                nontrivial.add(('shared', width, upper, lower_flag, minimum))
        ev += 1
        for rho1, rho2 in ((50.0, 2.0), (0.5, 1.0e3)):
            k1 = KSfunction.compute(g, rho1)
            k2 = KSfunction.compute(g, rho2)
            d2 = KSfunction.derivatives(g, rho2)[0]
            d1 = KSfunction.derivatives(g, rho1)[0]
            for kv, dv, rho in ((k1, d1, rho1), (k2, d2, rho2)):
                if not np.allclose(np.ravel(kv), ref_ks(g, rho, 0.0, False, False), rtol=1e-12, atol=1e-12) or \
                        not np.allclose(dv, ref_w(g, rho), rtol=1e-9, atol=1e-12):
                    fail(kind='KSfunction called twice on one array with different rho', g=g.tolist(), rho=rho)
    print(json.dumps({'evaluations': ev, 'distinct_nontrivial': len(nontrivial), 'n_failures': len(fails),
                      'failures': [f for f in fails if f], 'samples': samples}))


if __name__ == '__main__':
    main(sys.argv[1] if len(sys.argv) > 1 else 'quick')
