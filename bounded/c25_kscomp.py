"""Bounded tier (C25, labelled bounded): the NumPy KSfunction / KSComp (2-d, axis reductions: outside
pyvc's array model).  Contract checked natively on an exhaustive grid:
  with c = s*(g - upper), s = -1 if lower_flag (xor minimum)...: the component output equals
  +-KS(c) with  max(c) <= KS(c) <= max(c) + ln(width)/rho  (mirrored for minimum), and the partials
  equal the complex-step derivative of the output.
Grid: width in {1,2,3}, vec_size in {1,2}, rows from all tuples over a value set (ties, large
magnitudes), rho in {0.5, 50, 1e3}, upper in {0, 1.5}, lower_flag x minimum.
"""
import sys
import json
import itertools
import numpy as np


def main(tier):
    import openmdao.api as om
    from openmdao.components.ks_comp import KSfunction
    vals = [-3.0, 0.0, 0.25, 2.0, 2.0 + 1e-9, 1.0e4] if tier != 'quick' else [-3.0, 0.0, 2.0, 1.0e4]
    rhos = [0.5, 50.0, 1.0e3]
    ev = 0
    nontrivial = set()
    fails = []
    samples = []

    def fail(**kw):
        fails.append(kw if len(fails) < 20 else None)
    for width in (1, 2, 3):
        rows = list(itertools.product(vals, repeat=width))
        for vec_size in (1, 2):
            if vec_size == 1:
                gs = [np.array([r]) for r in rows]
            else:
                gs = [np.array([r, rows[(i * 7 + 3) % len(rows)]]) for i, r in enumerate(rows)]
            for rho in rhos:
                for upper in (0.0, 1.5):
                    for lower_flag in (False, True):
                        for minimum in (False, True):
                            p = om.Problem(reports=False)
                            p.model.add_subsystem('ks', om.KSComp(width=width, vec_size=vec_size, rho=rho, upper=upper,
                                                                  lower_flag=lower_flag, minimum=minimum), promotes=['*'])
                            p.setup(force_alloc_complex=True)
                            for g in gs:
                                ev += 1
                                p.set_val('g', g)
                                p.run_model()
                                ks = p.get_val('KS').ravel()
                                c = g - upper
                                if lower_flag:
                                    c = -c
                                for r in range(vec_size):
                                    if not minimum:
                                        m = c[r].max()
                                        lo, hi = m, m + np.log(width) / rho
                                    else:
                                        m = c[r].min()
                                        lo, hi = m - np.log(width) / rho, m
                                    tol = 1e-9 * (1 + abs(m))
                                    if not (lo - tol <= ks[r] <= hi + tol):
                                        fail(kind='bracket', g=g.tolist(), rho=rho, upper=upper, lower_flag=lower_flag,
                                             minimum=minimum, ks=float(ks[r]), lo=float(lo), hi=float(hi))
                                if width > 1 and len(set(g[0])) > 1:
                                    nontrivial.add((width, vec_size, rho, upper, lower_flag, minimum, g.tobytes()))
                                # derivative vs complex step of the component's own compute
                                J = p.compute_totals(of=['KS'], wrt=['g'], return_format='array')
                                comp = p.model.ks
                                h = 1e-30
                                Jcs = np.zeros_like(J)
                                for k in range(g.size):
                                    gc = g.astype(complex).ravel()
                                    gc[k] += 1j * h
                                    cc = gc.reshape(g.shape) - upper
                                    if lower_flag:
                                        cc = -cc
                                    if minimum:
                                        cc = -cc
                                    kv = KSfunction.compute(cc, rho)
                                    if minimum:
                                        kv = -kv
                                    Jcs[:, k] = kv.ravel().imag / h
                                if not np.allclose(J, Jcs, rtol=1e-8, atol=1e-10):
                                    fail(kind='derivative', g=g.tolist(), rho=rho, upper=upper, lower_flag=lower_flag,
                                         minimum=minimum, J=J.tolist(), Jcs=Jcs.tolist())
                                if len(samples) < 2 and width == 3:
                                    samples.append({'g': g.tolist(), 'rho': rho, 'upper': upper, 'lower_flag': lower_flag,
                                                    'minimum': minimum, 'KS': ks.tolist()})
    print(json.dumps({'evaluations': ev, 'distinct_nontrivial': len(nontrivial), 'n_failures': len(fails),
                      'failures': [f for f in fails if f], 'samples': samples}))


if __name__ == '__main__':
    main(sys.argv[1] if len(sys.argv) > 1 else 'quick')
