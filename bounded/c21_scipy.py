"""Bounded tier (C21, labelled bounded): real scipy optimizers on small strictly convex problems.
min ||x - t||^2  s.t.  l <= (A x)[idx] <= u  (elementwise, +-inf allowed, or equals), x in [-10, 10]^3.
Grid: optimizers {SLSQP, COBYLA, trust-constr} x bound shapes (scalar lower, scalar upper, array lower/upper with
infinite entries in different positions, equals, two-sided) x indices (all, subset) x constraint scaling
(none, scaler, ref/ref0) x design-variable scaling x linear flag.
Oracle written from the property: when the driver reports success, (1) every constrained element is within its
bounds (tolerance), (2) the model is left at the design the optimizer returned, (3) the objective equals the true
optimum of the QP (brute-force KKT enumeration over active sets), whatever the driver scaling.
"""
import sys
import json
import itertools
import numpy as np


def qp_optimum(t, A, lo, up, xlo=-10.0, xup=10.0):
    """min ||x - t||^2 s.t. lo <= A x <= up (rows), box on x; brute force over active sets."""
    n = len(t)
    rows = [(A[i], lo[i], up[i]) for i in range(len(A))] + [(np.eye(n)[i], xlo, xup) for i in range(n)]
    best = None
    m = len(rows)
    for act in itertools.product((0, -1, 1), repeat=m):
        idx = [i for i in range(m) if act[i] != 0]
        if len(idx) > n:
            continue
        if any((act[i] == -1 and not np.isfinite(rows[i][1])) or (act[i] == 1 and not np.isfinite(rows[i][2])) for i in idx):
            continue
        if idx:
            C = np.array([rows[i][0] for i in idx])
            d = np.array([rows[i][1] if act[i] == -1 else rows[i][2] for i in idx])
            if np.linalg.matrix_rank(C) < len(idx):
                continue
            # x = t - C^T lam / 1 ; C x = d
            lam = np.linalg.solve(C @ C.T, C @ t - d)
            x = t - C.T @ lam
        else:
            x = t.copy()
        ok = all(r[1] - 1e-9 <= r[0] @ x <= r[2] + 1e-9 for r in rows)
        if ok:
            f = float(np.sum((x - t) ** 2))
            if best is None or f < best[0] - 1e-12:
                best = (f, x)
    return best


def interior_start(Asel, lo, up):
    """A design strictly inside every inequality row (equality rows kept), not the origin: the point of the shrunken
    feasible set closest to (0.3, -0.2, 0.1)."""
    lo2, up2 = lo.copy(), up.copy()
    for i in range(len(lo)):
        if lo[i] == up[i]:
            continue
        if np.isfinite(lo[i]) and np.isfinite(up[i]):
            d = 0.25 * (up[i] - lo[i])
            lo2[i], up2[i] = lo[i] + d, up[i] - d
        elif np.isfinite(lo[i]):
            lo2[i] = lo[i] + 0.5
        elif np.isfinite(up[i]):
            up2[i] = up[i] - 0.5
    best = qp_optimum(np.array([0.3, -0.2, 0.1]), Asel, lo2, up2, -9.0, 9.0)
    return None if best is None else best[1]


def main(tier):
    import openmdao.api as om
    INF = 1e30
    A = np.array([[1.0, 0.0, 0.0], [0.0, 1.0, 0.5], [1.0, -1.0, 1.0]])
    t = np.array([4.0, 3.0, -2.0])
    bound_cfgs = [
        dict(lower=0.5),
        dict(upper=1.0),
        dict(lower=np.array([-INF, 0.0, 0.0]), upper=np.array([INF, 1.0, 1.0])),
        dict(lower=np.array([0.0, -INF, -INF]), upper=np.array([1.0, INF, 2.0])),
        dict(upper=np.array([1.0, INF, 0.5])),
        dict(lower=np.array([5.0, -INF, 0.0])),
        dict(lower=-1.0, upper=np.array([0.5, 1.5, INF])),
        dict(equals=np.array([1.0, 2.0, 0.0])),
        dict(equals=1.0),
    ]
    idx_cfgs = [None, [0, 2], [1]]
    scal_cfgs = [dict(), dict(scaler=10.0), dict(ref=4.0, ref0=-1.0)]
    dv_cfgs = [dict(), dict(scaler=0.1), dict(ref=5.0, ref0=1.0)]
    opts = ['SLSQP', 'COBYLA', 'trust-constr']
    combos = list(itertools.product(opts, range(len(bound_cfgs)), range(len(idx_cfgs)), range(len(scal_cfgs)), range(len(dv_cfgs)), (False, True)))
    if tier == 'quick':
        combos = [c for k, c in enumerate(combos) if k % 11 == 0]
    ev = 0
    nontrivial = 0
    fails = []
    samples = []
    nsuccess = 0
    nraised = 0
    raised = []
    nretried = 0
    start_artifacts = []

    def fail(**kw):
        fails.append(kw if len(fails) < 30 else None)
    for opt, bi, ii, si, di, linear in combos:
        b = bound_cfgs[bi]
        if 'equals' in b and opt == 'COBYLA':
            continue
        idx = idx_cfgs[ii]
        sel = list(range(3)) if idx is None else idx

        def pick(v):
            return v[sel] if isinstance(v, np.ndarray) else v
        kw = {k: pick(v) for k, v in b.items()}
        kw.update(scal_cfgs[si])
        if idx is not None:
            kw['indices'] = idx
        if linear:
            kw['linear'] = True
        ev += 1

        def solve(x0=None):
            p = om.Problem(reports=False)
            p.model.add_subsystem('c', om.ExecComp('y = A @ x', A=A, x=np.zeros(3), y=np.zeros(3)), promotes=['*'])
            p.model.add_subsystem('o', om.ExecComp('f = sum((x - t)**2)', x=np.zeros(3), t=t), promotes=['*'])
            p.model.add_design_var('x', lower=-10, upper=10, **dv_cfgs[di])
            p.model.add_objective('f')
            p.model.add_constraint('y', **kw)
            p.driver = om.ScipyOptimizeDriver(optimizer=opt, disp=False, maxiter=1000, tol=1e-10)
            if opt == 'COBYLA':
                p.driver.opt_settings['rhobeg'] = 0.5
            p.setup()
            if x0 is not None:
                p.set_val('x', x0)
            p.run_driver()
            return p
        try:
            p = solve()
        except Exception as e:     # noqa
            # an exception is not a success report: outside the property (e.g. scipy rejects an infeasible start point
            # of a keep_feasible linear constraint); counted, never a failure of this tier.  The configuration is
            # tried again from a strictly interior start so that it is still covered.
            nraised += 1
            if len(raised) < 3:
                raised.append('%s/%s: %s: %s' % (opt, 'linear' if linear else 'nonlinear', type(e).__name__, str(e)[:120]))
            p = None
            _lo = np.broadcast_to(kw.get('lower', -INF) if 'equals' not in kw else kw['equals'], (len(sel),)).astype(float)
            _up = np.broadcast_to(kw.get('upper', INF) if 'equals' not in kw else kw['equals'], (len(sel),)).astype(float)
            x_int = interior_start(A[sel], np.where(_lo <= -INF, -np.inf, _lo), np.where(_up >= INF, np.inf, _up))
            if x_int is not None:
                try:
                    p = solve(x_int)
                    nretried += 1
                except Exception:      # noqa
                    p = None
            if p is None:
                continue
        res = p.driver.result
        success = bool(res.success) if hasattr(res, 'success') else not p.driver.fail
        if not success:
            continue
        nsuccess += 1
        x = p.get_val('x')
        y = (A @ x)[sel]
        lo = np.broadcast_to(kw.get('lower', -INF) if 'equals' not in kw else kw['equals'], (len(sel),)).astype(float)
        up = np.broadcast_to(kw.get('upper', INF) if 'equals' not in kw else kw['equals'], (len(sel),)).astype(float)
        lo = np.where(lo <= -INF, -np.inf, lo)
        up = np.where(up >= INF, np.inf, up)
        tol = 1e-3 if opt == 'COBYLA' else 2e-5
        nontrivial += 1
        desc = dict(opt=opt, bounds={k: (v.tolist() if isinstance(v, np.ndarray) else v) for k, v in b.items()}, indices=idx,
                    con_scaling=scal_cfgs[si], dv_scaling=dv_cfgs[di], linear=linear)
        if np.any(y < lo - tol) or np.any(y > up + tol):
            fail(kind='success-but-infeasible', x=x.tolist(), y=y.tolist(), lower=lo.tolist(), upper=up.tolist(), **desc)
            continue
        # model left at the returned design: outputs consistent with x, and x is what scipy returned (unscaled)
        if not np.allclose(p.get_val('y'), A @ x, atol=1e-9):
            fail(kind='model-not-at-design', **desc)
        xr = np.asarray(p.driver._scipy_optimize_result.x, dtype=float)
        dvs = dv_cfgs[di]
        if 'scaler' in dvs:
            xr = xr / dvs['scaler']
        elif 'ref' in dvs:
            xr = xr * (dvs['ref'] - dvs['ref0']) + dvs['ref0']
        if not np.allclose(xr, x, atol=1e-8):
            fail(kind='model-not-at-returned-design', returned=xr.tolist(), model=x.tolist(), **desc)
        best = qp_optimum(t, A[sel], lo, up)
        f = float(np.sum((x - t) ** 2))
        if best is not None and abs(f - best[0]) > (5e-2 if opt == 'COBYLA' else 2e-3) * max(1.0, best[0]):
            # The start point x = 0 may lie exactly ON a constraint boundary; scipy's trust-constr (barrier method with
            # keep_feasible constraints) is then chaotic at round-off level even on an exactly posed problem (observed:
            # identical callables, deviations of 7e-15, different answers).  A defect of the DRIVER (wrongly posed
            # problem, wrong scaling) persists from any start point, so the configuration is re-run from a strictly
            # interior start (with a non-zero constant part of the linear constraints): only if the reported design is
            # still not the optimum is it a failure; otherwise it is counted as a start-point artefact of the optimizer.
            x_int = interior_start(A[sel], lo, up)
            again = None
            if x_int is not None:
                try:
                    p2 = solve(x_int)
                    r2 = p2.driver.result
                    if bool(r2.success) if hasattr(r2, 'success') else not p2.driver.fail:
                        again = float(np.sum((p2.get_val('x') - t) ** 2))
                except Exception:      # noqa
                    again = None
            if again is not None and abs(again - best[0]) <= (5e-2 if opt == 'COBYLA' else 2e-3) * max(1.0, best[0]):
                start_artifacts.append(dict(desc, f_from_zero_start=f, f_from_interior_start=again, f_opt=best[0], interior_start=x_int.tolist()))
            else:
                fail(kind='not-the-optimum', f=f, f_opt=best[0], x=x.tolist(), x_opt=best[1].tolist(), f_from_interior_start=again, **desc)
        if len(samples) < 2:
            samples.append(dict(desc, x=np.round(x, 6).tolist(), f=f))
    # ---- histories: the SAME problem/driver run again after a non-design input (the constraint matrix) changed ----
    A2 = np.array([[0.5, 1.0, 0.0], [1.0, 0.0, -1.0], [0.0, 2.0, 1.0]])
    for opt, linear, kw in itertools.product(('SLSQP', 'trust-constr'), (False, True),
                                            (dict(upper=np.array([1.0, INF, 0.5])), dict(lower=-1.0, upper=np.array([0.5, 1.5, INF])), dict(upper=-3.0, indices=[2]))):
        ev += 1
        desc = dict(opt=opt, linear=linear, bounds={k: (v.tolist() if isinstance(v, np.ndarray) else v) for k, v in kw.items()}, history='run_driver, set_val(A), run_driver')
        try:
            ckw = dict(kw)
            if linear:
                ckw['linear'] = True
            p = om.Problem(reports=False)
            p.model.add_subsystem('c', om.ExecComp('y = A @ x', A=A, x=np.zeros(3), y=np.zeros(3)), promotes=['*'])
            p.model.add_subsystem('o', om.ExecComp('f = sum((x - t)**2)', x=np.zeros(3), t=t), promotes=['*'])
            p.model.add_design_var('x', lower=-10, upper=10)
            p.model.add_objective('f')
            p.model.add_constraint('y', **ckw)
            p.driver = om.ScipyOptimizeDriver(optimizer=opt, disp=False, maxiter=1000, tol=1e-10)
            p.setup()
            p.run_driver()
            p.set_val('A', A2)
            p.set_val('x', np.zeros(3))
            p.run_driver()
        except Exception as e:      # noqa
            nraised += 1
            continue
        res = p.driver.result
        if not (bool(res.success) if hasattr(res, 'success') else not p.driver.fail):
            continue
        nsuccess += 1
        nontrivial += 1
        idx = kw.get('indices')
        sel = list(range(3)) if idx is None else idx
        x = p.get_val('x')
        y = (A2 @ x)[sel]
        lo = np.broadcast_to(kw.get('lower', -INF), (len(sel),)).astype(float)
        up = np.broadcast_to(kw.get('upper', INF), (len(sel),)).astype(float)
        lo = np.where(lo <= -INF, -np.inf, lo)
        up = np.where(up >= INF, np.inf, up)
        if np.any(y < lo - 2e-5) or np.any(y > up + 2e-5):
            fail(kind='success-but-infeasible', x=x.tolist(), y=y.tolist(), lower=lo.tolist(), upper=up.tolist(), **desc)
            continue
        best = qp_optimum(t, A2[sel], lo, up)
        f = float(np.sum((x - t) ** 2))
        if best is not None and abs(f - best[0]) > 2e-3 * max(1.0, best[0]):
            fail(kind='not-the-optimum', f=f, f_opt=best[0], x=x.tolist(), x_opt=best[1].tolist(), **desc)
    print(json.dumps({'evaluations': ev, 'distinct_nontrivial': nontrivial, 'successes': nsuccess, 'n_failures': len(fails), 'driver_raised': nraised, 'driver_raised_examples': raised, 'raised_then_rerun_from_interior_start': nretried, 'optimizer_start_point_artifacts': len(start_artifacts), 'optimizer_start_point_artifact_examples': start_artifacts[:3],
                      'failures': [f for f in fails if f], 'samples': samples}, default=str))


if __name__ == '__main__':
    main(sys.argv[1] if len(sys.argv) > 1 else 'quick')
