"""Bounded tier (C12, labelled bounded): FD / complex-step approximations through real components.

Generated smooth components  y_i = sum_j P_ij * g(x_j) + c_i * h(z)  with a sparsity pattern P (diagonal, banded,
arrowhead, dense), g, h in {poly, sin-mix}; partials of y w.r.t. x and z are APPROXIMATED (declare_partials method=...):
   methods: fd forward / backward / central x step_calc {abs, rel_avg, rel_element} x step, and cs
   colouring: none | declare_coloring(wrt='*') | declare_coloring(wrt=['x']) with the other input z declared AFTER it
              with DIFFERENT fd options (own step / form)
Oracle from the statement:
   * coloured approximation == uncoloured approximation (same formula, same steps: agreement to round-off);
   * approximation == exact derivative within the method's truncation error (cs: round-off);
   * computing the approximation (compute_totals, twice) leaves inputs, outputs and residuals bitwise unchanged.
"""
import sys
import json
import itertools
import numpy as np


def patterns(n):
    out = {'diag': np.eye(n, dtype=bool)}
    b = np.eye(n, dtype=bool)
    for k in range(n - 1):
        b[k, k + 1] = True
    out['band'] = b
    a = np.eye(n, dtype=bool)
    a[0, :] = True
    out['arrow'] = a
    out['dense'] = np.ones((n, n), dtype=bool)
    return out


def make_comp(om, P, coef, cz, approx_x, approx_z, coloring):
    n = P.shape[0]

    class C(om.ExplicitComponent):
        def setup(self):
            self.add_input('x', np.linspace(0.3, 1.1, n))
            self.add_input('z', 0.7)
            self.add_output('y', np.zeros(n))
            ckw = {k: v for k, v in approx_x.items() if k in ('method', 'form', 'step')}
            if coloring == 'x':
                # x is coloured (sparsity found dynamically); z is declared AFTER it with its own options
                self.declare_coloring(wrt=['x'], show_summary=False, show_sparsity=False, **ckw)
                self.declare_partials('y', 'z', **approx_z)
            elif coloring == '*':
                self.declare_coloring(wrt='*', show_summary=False, show_sparsity=False, **ckw)
            else:
                self.declare_partials('y', 'x', **approx_x)
                self.declare_partials('y', 'z', **approx_z)

        def compute(self, inputs, outputs):
            x, z = inputs['x'], inputs['z']
            outputs['y'] = (P * coef) @ (x ** 3 + np.sin(2.0 * x)) + cz * (z ** 2 + np.cos(z))
    return C()


def exact(P, coef, cz, x, z):
    Jx = (P * coef) * (3 * x ** 2 + 2 * np.cos(2.0 * x))[None, :]
    Jz = (cz * (2 * z - np.sin(z)))[:, None]
    return Jx, Jz


def run_one(case):
    import openmdao.api as om
    n, pname, ax, az, coloring = case
    P = patterns(n)[pname]
    rng = np.random.default_rng(n * 7 + len(pname))
    coef = rng.uniform(0.5, 2.0, size=P.shape)
    cz = rng.uniform(0.5, 1.5, size=n)
    desc = dict(n=n, pattern=pname, approx_x=ax, approx_z=az, coloring=coloring)
    res = {}
    try:
        for col in (None, coloring):
            if coloring == '*' and col is None:
                az_eff = {k: v for k, v in ax.items()}
            else:
                az_eff = az
            p = om.Problem(reports=False)
            ivc = p.model.add_subsystem('ivc', om.IndepVarComp(), promotes=['*'])
            ivc.add_output('x', np.linspace(0.3, 1.1, n))
            ivc.add_output('z', 0.7)
            p.model.add_subsystem('c', make_comp(om, P, coef, cz, ax, az_eff, col), promotes=['*'])
            p.setup(force_alloc_complex=True)
            p.run_model()
            snap = [p.model._inputs.asarray(copy=True), p.model._outputs.asarray(copy=True), p.model._residuals.asarray(copy=True)]
            J0 = p.compute_totals(of=['y'], wrt=['x', 'z'], return_format='array')     # (a dynamic colouring is computed here)
            J1 = p.compute_totals(of=['y'], wrt=['x', 'z'], return_format='array')
            J2 = p.compute_totals(of=['y'], wrt=['x', 'z'], return_format='array')
            after = [p.model._inputs.asarray(), p.model._outputs.asarray(), p.model._residuals.asarray()]
            for nm, a, b in zip(('inputs', 'outputs', 'residuals'), snap, after):
                if not np.array_equal(a, b):
                    return dict(desc, kind='side effect: %s changed by computing the approximation' % nm, colored=col is not None, max_change=float(np.max(np.abs(a - b))))
            if not np.array_equal(J1, J2):
                return dict(desc, kind='two consecutive approximations differ', colored=col is not None)
            if col is not None and p.model.c._coloring_info.coloring is None:
                return dict(ok=True, note='colouring not activated')
            res[col is not None] = J1
        if coloring is not None:
            d = np.max(np.abs(res[True] - res[False]))
            if d > 1e-9 * max(1.0, np.max(np.abs(res[False]))):
                return dict(desc, kind='coloured approximation differs from uncoloured approximation', max_abs_diff=float(d))
        Jx, Jz = exact(P, coef, cz, np.linspace(0.3, 1.1, n), 0.7)
        Jex = np.hstack([Jx, Jz])
        def tol(a):
            if a.get('method') == 'cs':
                return 1e-10
            step = a.get('step', 1e-6)
            if a.get('step_calc', 'abs') != 'abs':
                step = step * 1.2
            return (50 * step ** 2 + 1e-7) if a.get('form', 'forward') == 'central' else (60 * step + 1e-7)
        errx = np.max(np.abs(res[False][:, :n] - Jx))
        errz = np.max(np.abs(res[False][:, n:] - Jz))
        if coloring == '*':
            az = ax
        if errx > tol(ax) * max(1.0, np.max(np.abs(Jx))) or errz > tol(az) * max(1.0, np.max(np.abs(Jz))):
            return dict(desc, kind='approximation outside the truncation error of its method', err_x=float(errx), err_z=float(errz), tol_x=tol(ax), tol_z=tol(az))
        return dict(ok=True)
    except Exception as e:      # noqa
        return dict(desc, kind='exception', error='%s: %s' % (type(e).__name__, str(e)[:200]))


def run_implicit(case):
    """Approximated partials of an IMPLICIT component (residual r = y**2 + 3 x - 1 at a point where r != 0) under solver
    scaling ref / res_ref: the approximation is a property of the physical function, so it must not depend on the scaling."""
    import openmdao.api as om
    method, form, ref, res_ref = case
    desc = dict(component='implicit', method=method, form=form, ref=ref, res_ref=res_ref)
    try:
        kw = dict(method=method)
        if method == 'fd':
            kw['form'] = form

        class C(om.ImplicitComponent):
            def setup(self):
                self.add_input('x', np.array([2.0, -1.0]))
                self.add_output('y', np.array([3.0, 0.5]), ref=ref, res_ref=res_ref)
                self.declare_partials('*', '*', **kw)

            def apply_nonlinear(self, i, o, r):
                r['y'] = o['y'] ** 2 + 3.0 * i['x'] - 1.0
        p = om.Problem(reports=False)
        p.model.add_subsystem('c', C())
        p.setup(force_alloc_complex=True)
        p.final_setup()
        p.model.run_apply_nonlinear()
        snap = [p.model._inputs.asarray(copy=True), p.model._outputs.asarray(copy=True), p.model._residuals.asarray(copy=True)]
        p.model.run_linearize()
        after = [p.model._inputs.asarray(), p.model._outputs.asarray(), p.model._residuals.asarray()]
        for nm, a, b in zip(('inputs', 'outputs', 'residuals'), snap, after):
            if not np.allclose(a, b, rtol=1e-14, atol=0):
                return dict(desc, kind='side effect: %s changed by computing the approximation' % nm)
        sj = p.model.c._jacobian._subjacs
        Jy = np.asarray(sj[('c.y', 'c.y')].todense() if hasattr(sj[('c.y', 'c.y')], 'todense') else sj[('c.y', 'c.y')].get_val())
        Jx = np.asarray(sj[('c.y', 'c.x')].todense() if hasattr(sj[('c.y', 'c.x')], 'todense') else sj[('c.y', 'c.x')].get_val())
        ey, ex = np.diag([6.0, 1.0]), 3.0 * np.eye(2)
        tol = 1e-9 if method == 'cs' else 1e-4
        if not np.allclose(Jy, ey, atol=tol) or not np.allclose(Jx, ex, atol=tol):
            return dict(desc, kind='approximation outside the truncation error of its method', dr_dy=Jy.tolist(), dr_dx=Jx.tolist(), exact_dr_dy=ey.tolist(), exact_dr_dx=ex.tolist())
        return dict(ok=True)
    except Exception as e:      # noqa
        return dict(desc, kind='exception', error='%s: %s' % (type(e).__name__, str(e)[:200]))


def main(tier):
    big = tier != 'quick'
    fds = [dict(method='fd'), dict(method='fd', form='central'), dict(method='fd', form='backward', step=1e-5),
           dict(method='fd', step_calc='rel_avg', step=1e-6), dict(method='fd', form='central', step_calc='rel_element', step=1e-5), dict(method='cs')]
    others = [dict(method='fd'), dict(method='fd', step=1e-1), dict(method='fd', form='central', step=1e-2), dict(method='cs')]
    cases = []
    for n in ((4, 6) if big else (4,)):
        for pname in ('diag', 'band', 'arrow', 'dense'):
            for ax in fds:
                for az in others:
                    if (ax['method'] == 'cs') != (az['method'] == 'cs'):
                        continue
                    for coloring in (None, '*', 'x'):
                        if coloring is not None and ax.get('step_calc', 'abs') != 'abs':
                            continue        # declare_coloring has no step_calc option
                        if coloring == '*' and az is not others[0]:
                            continue        # wrt='*' colours z with x's options: one case per x option set
                        cases.append((n, pname, ax, az, coloring))
    if not big:
        cases = [c for k, c in enumerate(cases) if k % 2 == 0 or c[4] == 'x']
    import multiprocessing as mp
    with mp.get_context('fork').Pool(16) as pool:
        res = pool.map(run_one, cases, chunksize=4)
    icases = [(m, f, ref, rr) for m, forms in (('fd', ('forward', 'backward', 'central')), ('cs', (None,))) for f in forms
              for ref in (1.0, 5.0) for rr in (None, 1.0, 10.0, 0.01)]
    with mp.get_context('fork').Pool(16) as pool:
        ires = pool.map(run_implicit, icases, chunksize=2)
    res = list(res) + list(ires)
    cases = list(cases) + [(0, 'implicit', dict(method=c[0], form=c[1]), dict(ref=c[2], res_ref=c[3]), None) for c in icases]
    fails = [r for r in res if not r.get('ok')]
    print(json.dumps({'evaluations': len(cases), 'distinct_nontrivial': sum(1 for c, r in zip(cases, res) if r.get('ok') and c[4] is not None and not r.get('note')),
                      'n_failures': len(fails), 'failures': fails[:30], 'coloring_not_activated': sum(1 for r in res if r.get('note')),
                      'samples': [dict(n=c[0], pattern=c[1], approx_x=c[2], approx_z=c[3], coloring=c[4]) for c in cases[20:23]]}, default=str))


if __name__ == '__main__':
    main(sys.argv[1] if len(sys.argv) > 1 else 'quick')
