"""Bounded tier (C15 and C16, labelled bounded): table interpolation through InterpND / MetaModelStructuredComp /
SplineComp on an enumerated domain.

usage: c15_interp.py <C15|C16> <quick|thorough>

Grids: strictly increasing 1-d axes incl. all-negative axes, axes ending / starting at 0, non-uniform spacing;
dims 1..3.  Tables: integer-coefficient polynomials so that expected values are exact to round-off.

C15 oracle (from the statement)
  nodes      : value at every grid node == table value
  degree     : slinear/akima/cubic reproduce multilinear tables; lagrange2 tensor-product quadratics, lagrange3 cubics
  fixed-dim  : 1D-/2D-/3D- variants agree with the general method at in-bounds points
  bounds     : extrapolate=False raises OutOfBoundsError exactly for points outside the grid (nodes, boundary points and
               interior points do not raise; points outside by a visible margin raise)
  histories  : one-point calls in every order on ONE interpolant (the non-vectorized, coefficient-caching path) give
               the same value as a fresh interpolant at that point (incl. outside points with extrapolate=True)
C16 oracle
  d/dx       : returned derivative == complex step (OpenMDAO methods) / central difference (scipy methods) of the
               returned value, at points away from cell boundaries, vectorized and one-point paths
  d/dvalues  : value == sum(d_dvalues * table) (linear in the table) and d_dvalues == unit-table responses;
               InterpND.training_gradients, MetaModelStructuredComp(training_data_gradients=True), spline mode
"""
import sys
import json
import itertools
import numpy as np

AXES = {
    'neg': np.array([-5.0, -3.5, -3.0, -1.0, -0.25]),
    'to0': np.array([-4.0, -2.0, -1.5, -0.5, 0.0]),
    'from0': np.array([0.0, 0.5, 2.0, 2.5, 4.0, 5.5]),
    'mixed': np.array([-2.0, -0.5, 0.0, 1.0, 2.5, 4.0]),
    'pos': np.array([1.0, 1.5, 3.0, 4.0, 6.0]),
    'short': np.array([-1.0, 0.0, 2.0, 3.0]),
    # axes short enough to force automatic order reduction of the scipy splines in that dimension only
    'tiny3': np.array([-1.0, 0.5, 2.0]),
    'tiny2': np.array([0.0, 1.5]),
    'long7': np.array([-3.0, -2.0, -0.5, 0.0, 1.0, 2.5, 4.0]),
    # an axis given with an INTEGER dtype (legal: np.asarray keeps it everywhere)
    'int5': np.array([-3, -1, 0, 2, 5]),
}
# stencil size of each method (polynomial degree + 1; akima uses 4): shorter axes are refused at construction
MINPTS = {'slinear': 2, 'lagrange2': 3, 'lagrange3': 4, 'cubic': 4, 'akima': 4}
GENERAL = ['slinear', 'lagrange2', 'lagrange3', 'akima', 'cubic']
SCIPY = ['scipy_slinear', 'scipy_cubic', 'scipy_quintic']
FIXED = {1: {'slinear': '1D-slinear', 'lagrange2': '1D-lagrange2', 'lagrange3': '1D-lagrange3', 'akima': '1D-akima'},
         2: {'slinear': '2D-slinear', 'lagrange2': '2D-lagrange2', 'lagrange3': '2D-lagrange3'},
         3: {'slinear': '3D-slinear', 'lagrange2': '3D-lagrange2', 'lagrange3': '3D-lagrange3'}}
DEG = {'slinear': 1, 'akima': 1, 'cubic': 1, 'lagrange2': 2, 'lagrange3': 3, 'scipy_slinear': 1, 'scipy_cubic': 3, 'scipy_quintic': 5}


def poly(deg, dim):
    """tensor-product polynomial of per-axis degree `deg` with small integer coefficients"""
    rng = np.random.default_rng(100 * deg + dim)
    coefs = rng.integers(-2, 3, size=(deg + 1,) * dim).astype(float)
    coefs[(deg,) * dim] = 1.0

    def f(*xs):
        out = 0.0
        for idx in itertools.product(range(deg + 1), repeat=dim):
            t = coefs[idx]
            for k, e in enumerate(idx):
                t = t * xs[k] ** e
            out = out + t
        return out
    return f


def table(axes, f):
    mesh = np.meshgrid(*axes, indexing='ij')
    return f(*mesh)


def inside_points(ax):
    """nodes, cell midpoints, points near cell boundaries, both end nodes"""
    mids = 0.5 * (ax[:-1] + ax[1:])
    q = ax[:-1] + 0.25 * np.diff(ax)
    return np.concatenate([ax, mids, q])


class Tier:
    def __init__(self):
        self.ev = 0
        self.nontrivial = 0
        self.fails = []
        self.samples = []
        self.raised = []

    def fail(self, **kw):
        self.fails.append(kw if len(self.fails) < 40 else None)

    def ok(self, sample=None):
        self.nontrivial += 1
        if sample is not None and len(self.samples) < 3:
            self.samples.append(sample)


def mk(method, axes, vals, extrapolate=True):
    from openmdao.components.interp_util.interp import InterpND
    return InterpND(method=method, points=[a.copy() for a in axes], values=vals.copy(), extrapolate=extrapolate)


def run_c15(T, big):
    from openmdao.components.interp_util.outofbounds_error import OutOfBoundsError
    # (the tiny axes are shorter than some stencils / force reduced spline orders: they are used by the mixed-order section only)
    axis_names = [n for n in AXES if not n.startswith('tiny')] if big else ['neg', 'to0', 'mixed', 'short', 'int5']
    methods = GENERAL + SCIPY
    for dim in (1, 2, 3):
        combos = list(itertools.product(axis_names, repeat=dim))
        if dim == 2:
            combos = [c for k, c in enumerate(combos) if (big or k % 3 == 0)]
        if dim == 3:
            combos = [('short', 'neg', 'to0'), ('mixed', 'short', 'short')] if not big else [('short', 'neg', 'to0'), ('mixed', 'short', 'short'), ('pos', 'short', 'neg')]
        for names in combos:
            axes = [AXES[n] for n in names]
            for method in methods:
                if method == 'scipy_quintic' and min(len(a) for a in axes) < 6:
                    continue
                if min(len(a) for a in axes) < MINPTS.get(method, 2):
                    continue        # fewer points than the method's stencil: InterpND refuses the table (ValueError at construction)
                deg = DEG[method]
                f = poly(deg, dim)
                vals = table(axes, f)
                desc = dict(method=method, axes=list(names))
                # ---- nodes + degree reproduction (vectorized call) -------------------------------
                T.ev += 1
                try:
                    pts_axes = [inside_points(a) for a in axes]
                    if dim == 1:
                        pts = pts_axes[0][:, None]
                    else:
                        rng = np.random.default_rng(7)
                        node_pts = np.array(list(itertools.product(*[a[[0, len(a) // 2, -1]] for a in axes])))
                        rnd_pts = np.stack([rng.choice(p, size=12) for p in pts_axes], axis=1)
                        pts = np.vstack([node_pts, rnd_pts])
                    it = mk(method, axes, vals, extrapolate=False)
                    got = it.interpolate(pts)
                    exp = f(*[pts[:, k] for k in range(dim)])
                    scale = max(1.0, np.max(np.abs(vals)))
                    if not np.allclose(got, exp, rtol=0, atol=1e-9 * scale):
                        k = int(np.argmax(np.abs(got - exp)))
                        T.fail(kind='value: table polynomial of the method\'s degree not reproduced (nodes / interior)', point=pts[k].tolist(), got=float(got[k]), expected=float(exp[k]), **desc)
                        continue
                    T.ok(dict(desc, check='nodes+degree', points=len(pts)))
                except Exception as e:      # noqa
                    T.fail(kind='exception', where='nodes/degree', error='%s: %s' % (type(e).__name__, str(e)[:160]), **desc)
                    continue
                # ---- out of bounds: raised exactly for points outside ----------------------------
                T.ev += 1
                try:
                    bad = None
                    for k in range(dim):
                        a = axes[k]
                        base = np.array([ax[len(ax) // 2] for ax in axes], dtype=float)     # (float: a[0] - 1e-3 must not be truncated on integer axes)
                        for x, outside in ((a[0], False), (a[-1], False), (a[0] - 1e-3, True), (a[-1] + 1e-3, True), (a[0] - 2.0, True), (a[1], False)):
                            p = base.copy()
                            p[k] = x
                            for npts in (1, 2):
                                q = np.tile(p, (npts, 1))
                                it = mk(method, axes, vals, extrapolate=False)
                                try:
                                    it.interpolate(q)
                                    raised = None
                                except OutOfBoundsError:
                                    raised = 'OutOfBoundsError'
                                except Exception as e2:     # noqa
                                    raised = type(e2).__name__
                                if outside and raised != 'OutOfBoundsError':
                                    bad = dict(point=p.tolist(), expected='OutOfBoundsError', got=raised)
                                if not outside and raised is not None:
                                    bad = dict(point=p.tolist(), expected='no error (point is on/inside the grid)', got=raised)
                                if bad:
                                    break
                            if bad:
                                break
                        if bad:
                            break
                    if bad:
                        T.fail(kind='bounds: error not raised exactly for points outside the grid', **dict(desc, **bad))
                    else:
                        T.ok()
                except Exception as e:      # noqa
                    T.fail(kind='exception', where='bounds', error='%s: %s' % (type(e).__name__, str(e)[:160]), **desc)
                # ---- fixed-dimension variant agrees with the general method ----------------------
                fx = FIXED.get(dim, {}).get(method)
                if fx:
                    T.ev += 1
                    try:
                        rng = np.random.default_rng(11)
                        g = poly(3, dim)               # any table, not only reproducible ones
                        v2 = table(axes, g) + 0.1 * np.sin(table(axes, poly(1, dim)))
                        pts = np.stack([rng.uniform(a[0], a[-1], size=15) for a in axes], axis=1)
                        pts = np.vstack([pts, np.array([[a[0] for a in axes], [a[-1] for a in axes]])])
                        a1 = mk(method, axes, v2).interpolate(pts)
                        a2 = mk(fx, axes, v2).interpolate(pts)
                        one = np.array([mk(fx, axes, v2).interpolate(pts[k:k + 1])[0] for k in range(len(pts))])
                        sc = max(1.0, np.max(np.abs(v2)))
                        if not np.allclose(a1, a2, rtol=0, atol=1e-9 * sc) or not np.allclose(a1, one, rtol=0, atol=1e-9 * sc):
                            k = int(np.argmax(np.maximum(np.abs(a1 - a2), np.abs(a1 - one))))
                            T.fail(kind='fixed-dimension variant disagrees with the general method', variant=fx, point=pts[k].tolist(), general=float(a1[k]), fixed_vectorized=float(a2[k]), fixed_one_point=float(one[k]), **desc)
                        else:
                            T.ok()
                    except Exception as e:      # noqa
                        T.fail(kind='exception', where='fixed-dim', variant=fx, error='%s: %s' % (type(e).__name__, str(e)[:160]), **desc)
                # ---- histories of one-point calls on one interpolant (coefficient caches) --------
                if dim == 1:
                    for meth in [method] + ([fx] if fx else []):
                        T.ev += 1
                        try:
                            a = axes[0]
                            g = poly(3, 1)
                            v2 = table(axes, g) + 0.3 * np.cos(a)
                            probe = [a[0] - 0.7, a[0] + 0.3 * (a[1] - a[0]), a[-1] - 0.4 * (a[-1] - a[-2]), a[-1] + 0.9, a[len(a) // 2] + 0.1, a[0], a[-1]]
                            fresh = [float(mk(meth, axes, v2).interpolate(np.array([x]))[0]) for x in probe]
                            bad = None
                            # (every order that follows an outside point by a far cell / a node, and vice versa)
                            for perm in ([0, 1, 2, 3, 4, 5, 6], [1, 0, 3, 2, 6, 5, 4], [3, 2, 0, 1, 4, 6, 5], [2, 3, 1, 0, 5, 4, 6], [6, 5, 4, 3, 2, 1, 0],
                                         [0, 4, 0, 2, 0, 6, 1], [0, 6, 3, 5, 0, 4, 3, 1], [3, 0, 2, 3, 4, 0, 5]):
                                it = mk(meth, axes, v2)
                                for j in perm:
                                    r = float(it.interpolate(np.array([probe[j]]))[0])
                                    if abs(r - fresh[j]) > 1e-9 * max(1.0, abs(fresh[j])):
                                        bad = dict(sequence=[probe[i] for i in perm], at=probe[j], got=r, fresh_interpolant=fresh[j])
                                        break
                                if bad:
                                    break
                            if bad:
                                T.fail(kind='history: value depends on earlier one-point calls on the same interpolant', **dict(desc, method=meth, **bad))
                            else:
                                T.ok()
                        except Exception as e:      # noqa
                            T.fail(kind='exception', where='histories', error='%s: %s' % (type(e).__name__, str(e)[:160]), **dict(desc, method=meth))


def cs_or_fd(method, axes, vals, pt, k):
    """derivative of the returned value wrt coordinate k at pt"""
    if method.startswith('scipy') or method in ('akima', '1D-akima'):
        h = 1e-6
        p1, p2 = pt.copy(), pt.copy()
        p1[k] += h
        p2[k] -= h
        f1 = mk(method, axes, vals).interpolate(np.vstack([p1, p1]))[0]
        f2 = mk(method, axes, vals).interpolate(np.vstack([p2, p2]))[0]
        return (f1 - f2) / (2 * h), 1e-5
    h = 1e-30
    p = pt.astype(complex)
    p[k] += 1j * h
    f = mk(method, axes, vals.astype(complex)).interpolate(np.vstack([p, p]))[0]
    return f.imag / h, 1e-9


def run_c16(T, big):
    import openmdao.api as om
    axis_names = ['neg', 'mixed', 'short', 'from0', 'int5'] if big else ['neg', 'mixed', 'short', 'int5']
    for dim in (1, 2, 3):
        if dim == 1:
            combos = [(n,) for n in axis_names]
        elif dim == 2:
            combos = [('neg', 'mixed'), ('short', 'from0'), ('mixed', 'short'), ('int5', 'mixed')] if big else [('neg', 'mixed'), ('short', 'from0'), ('mixed', 'int5')]
        else:
            combos = [('short', 'neg', 'short')]
        mixed_order = [('tiny3', 'long7'), ('long7', 'tiny3'), ('tiny2', 'long7'), ('short', 'long7')] if dim == 2 else ([('tiny2', 'long7', 'tiny3')] if dim == 3 else [])
        for names in combos + mixed_order:
            axes = [AXES[n] for n in names]
            rng = np.random.default_rng(5)
            g = poly(3, dim)
            vals = table(axes, g) + 0.2 * np.sin(table(axes, poly(1, dim)))
            methods = GENERAL + SCIPY + [m for m in FIXED.get(dim, {}).values()]
            if names in mixed_order:
                methods = SCIPY + ['slinear']       # per-dimension spline orders differ (automatic order reduction)
            for method in methods:
                if method == 'scipy_quintic' and min(len(a) for a in axes) < 6 and names not in mixed_order:
                    continue
                desc = dict(method=method, axes=list(names))
                # interior points away from cell boundaries + (extrapolated) points outside
                pts = np.stack([a[:-1][rng.integers(0, len(a) - 1, size=8)] for a in axes], axis=1) + \
                    np.stack([rng.uniform(0.2, 0.8, size=8) * np.diff(a)[0] * 0.5 for a in axes], axis=1)
                for k, a in enumerate(axes):
                    cell = np.searchsorted(a, pts[:, k], side='right') - 1
                    cell = np.clip(cell, 0, len(a) - 2)
                    frac = rng.uniform(0.2, 0.8, size=len(pts))
                    pts[:, k] = a[cell] + frac * (a[cell + 1] - a[cell])
                outside = np.array([[a[-1] + 0.6 for a in axes], [a[0] - 0.4 for a in axes]])
                allpts = np.vstack([pts, outside])
                # ---- d/dx ------------------------------------------------------------------------
                T.ev += 1
                try:
                    it = mk(method, axes, vals)
                    val, dx = it.interpolate(allpts, compute_derivative=True)
                    dx = np.asarray(dx).reshape(len(allpts), dim)
                    bad = None
                    for j in range(len(allpts)):
                        one_it = mk(method, axes, vals)
                        v1, d1 = one_it.interpolate(allpts[j:j + 1], compute_derivative=True)
                        d1 = np.asarray(d1).reshape(dim)
                        for k in range(dim):
                            ref, tol = cs_or_fd(method, axes, vals, allpts[j], k)
                            sc = max(1.0, abs(ref))
                            if abs(dx[j, k] - ref) > tol * sc * 10 or abs(d1[k] - ref) > tol * sc * 10:
                                bad = dict(point=allpts[j].tolist(), wrt=k, vectorized=float(dx[j, k]), one_point=float(d1[k]), derivative_of_value=float(ref))
                                break
                        if bad:
                            break
                    if bad:
                        T.fail(kind='d/dx is not the derivative of the returned value', **dict(desc, **bad))
                    else:
                        T.ok(dict(desc, check='d/dx vs complex step', points=len(allpts)))
                except Exception as e:      # noqa
                    T.fail(kind='exception', where='d/dx', error='%s: %s' % (type(e).__name__, str(e)[:160]), **desc)
                # ---- d/dvalues through MetaModelStructuredComp -----------------------------------
                T.ev += 1
                try:
                    nq = 3 if dim == 3 else len(allpts)
                    q = allpts[:nq] if dim < 3 else np.vstack([allpts[:2], allpts[-1:]])
                    p = om.Problem(reports=False)
                    c = om.MetaModelStructuredComp(method=method, extrapolate=True, training_data_gradients=True, vec_size=len(q))
                    for k in range(dim):
                        c.add_input('x%d' % k, q[:, k].copy(), training_data=axes[k].copy())
                    c.add_output('f', np.zeros(len(q)), training_data=vals.copy())
                    p.model.add_subsystem('c', c, promotes=['*'])
                    p.setup()
                    p.run_model()
                    fv = p.get_val('f').copy()
                    direct = mk(method, axes, vals).interpolate(q)
                    if not np.allclose(fv, direct, atol=1e-9 * max(1.0, np.max(np.abs(vals)))):
                        T.fail(kind='MetaModelStructuredComp value differs from InterpND', got=fv.tolist(), expected=direct.tolist(), **desc)
                        continue
                    J = p.compute_totals(of=['f'], wrt=['f_train'], return_format='array')
                    lin = J @ vals.ravel()
                    sc = max(1.0, np.max(np.abs(vals)))
                    if not np.allclose(lin, fv, atol=1e-8 * sc):
                        k = int(np.argmax(np.abs(lin - fv)))
                        T.fail(kind='d/dvalues: value is not sum(d_dvalues * table)', point=q[k].tolist(), sum_dvalues_times_table=float(lin[k]), value=float(fv[k]), **desc)
                        continue
                    # unit-table responses (exact, the interpolant is linear in the table)
                    bad = None
                    flat_idx = rng.choice(vals.size, size=min(6, vals.size), replace=False)
                    for fi in flat_idx:
                        e = np.zeros(vals.size)
                        e[fi] = 1.0
                        if 'akima' in method:
                            # akima's weights depend on the table: homogeneous of degree 1, not linear -> central difference
                            hh = 1e-6
                            r = (mk(method, axes, vals + hh * e.reshape(vals.shape)).interpolate(q) - mk(method, axes, vals - hh * e.reshape(vals.shape)).interpolate(q)) / (2 * hh)
                            tolv = 1e-5
                        else:
                            r = mk(method, axes, e.reshape(vals.shape)).interpolate(q)
                            tolv = 1e-8
                        if not np.allclose(J[:, fi], r, atol=tolv):
                            kk = int(np.argmax(np.abs(J[:, fi] - r)))
                            bad = dict(table_entry=int(fi), point=q[kk].tolist(), d_dvalue=float(J[kk, fi]), unit_table_response_or_central_difference=float(r[kk]))
                            break
                    if bad:
                        T.fail(kind='d/dvalues differs from the response to a unit table entry', **dict(desc, **bad))
                        continue
                    Jx = p.compute_totals(of=['f'], wrt=['x0'], return_format='array')
                    _, dxx = mk(method, axes, vals).interpolate(q, compute_derivative=True)
                    if not np.allclose(np.diag(Jx), np.asarray(dxx).reshape(len(q), dim)[:, 0], atol=1e-8 * sc):
                        T.fail(kind='MetaModelStructuredComp d/dx differs from InterpND', **desc)
                        continue
                    T.ok()
                except Exception as e:      # noqa
                    # no derivative was returned (method does not support table gradients, or the request failed):
                    # outside the statement, which is about the derivatives that ARE returned; counted, not a failure
                    T.raised.append(dict(desc, where='d/dvalues', error='%s: %s' % (type(e).__name__, str(e)[:120])))
    # ---- spline-mode histories: ONE InterpND / SplineComp object evaluated, x_interp replaced by another array of
    # the same length, evaluated again: values and d/dvalues must equal those of a fresh object ------------------
    from openmdao.components.interp_util.interp import InterpND as _IND
    for name in ('mixed', 'neg'):
        xcp = AXES[name]
        xa = np.array([xcp[0], 0.3 * xcp[0] + 0.7 * xcp[1], xcp[2] + 0.1, xcp[-1]])
        xb = np.array([xcp[1], xcp[2] - 0.2, xcp[-2] + 0.3 * (xcp[-1] - xcp[-2]), xcp[-1] - 0.05])
        ycp = np.stack([np.sin(xcp) + 0.1 * xcp ** 2])
        for method in ['slinear', 'lagrange2', 'lagrange3', 'cubic', 'akima', 'scipy_slinear', 'scipy_cubic']:
            T.ev += 1
            desc = dict(method=method, x_cp=name, mode='spline history (x_interp replaced on the same object)')
            try:
                it = _IND(method=method, points=xcp.copy(), x_interp=xa.copy(), extrapolate=True)
                it.evaluate_spline(ycp.copy(), compute_derivative=True)
                it.x_interp = xb.copy()
                y2, d2 = it.evaluate_spline(ycp.copy(), compute_derivative=True)
                fr = _IND(method=method, points=xcp.copy(), x_interp=xb.copy(), extrapolate=True)
                y2f, d2f = fr.evaluate_spline(ycp.copy(), compute_derivative=True)
                if not np.allclose(y2, y2f, atol=1e-10) or not np.allclose(np.asarray(d2), np.asarray(d2f), atol=1e-10):
                    T.fail(kind='spline history: value/derivative after replacing x_interp differs from a fresh object', value=np.asarray(y2).tolist(), fresh_value=np.asarray(y2f).tolist(),
                           max_deriv_diff=float(np.max(np.abs(np.asarray(d2) - np.asarray(d2f)))), **desc)
                    continue
                # SplineComp: option x_interp_val changed between two setups of the same component object
                import openmdao.api as om
                c = om.SplineComp(method=method, x_cp_val=xcp.copy(), x_interp_val=xa.copy(), vec_size=1)
                c.add_spline(y_cp_name='ycp', y_interp_name='y')
                p = om.Problem(reports=False)
                p.model.add_subsystem('ivc', om.IndepVarComp('ycp', ycp.copy()), promotes=['*'])
                p.model.add_subsystem('s', c, promotes=['*'])
                p.setup()
                p.run_model()
                p.compute_totals(of=['y'], wrt=['ycp'], return_format='array')
                c.options['x_interp_val'] = xb.copy()
                p.setup()
                p.run_model()
                J = p.compute_totals(of=['y'], wrt=['ycp'], return_format='array')
                if not np.allclose(p.get_val('y').ravel(), np.asarray(y2f).ravel(), atol=1e-10) or not np.allclose(J, np.asarray(d2f).reshape(J.shape), atol=1e-10):
                    T.fail(kind='spline history: SplineComp after changing x_interp_val differs from a fresh interpolant', **desc)
                    continue
                T.ok()
            except Exception as e:      # noqa
                T.raised.append(dict(desc, where='spline history', error='%s: %s' % (type(e).__name__, str(e)[:120])))
    # ---- spline mode (SplineComp / InterpND.evaluate_spline): value linear in control points -----
    from openmdao.components.interp_util.interp import InterpND
    for name in ('mixed', 'neg', 'from0', 'int5'):
        xcp = AXES[name]
        for method in ['slinear', 'lagrange2', 'lagrange3', 'cubic', 'akima', 'scipy_slinear', 'scipy_cubic', 'bsplines']:
            for xin in (np.array([xcp[0], 0.3 * xcp[0] + 0.7 * xcp[1], xcp[2] + 0.1, xcp[-1]]),
                        np.array([xcp[0] - 0.5, xcp[1] + 0.05, xcp[-2] + 0.3 * (xcp[-1] - xcp[-2]), xcp[-1] + 0.8])):
                T.ev += 1
                desc = dict(method=method, x_cp=name, x_interp=xin.tolist(), mode='spline')
                try:
                    if method == 'bsplines':
                        it = InterpND(method=method, num_cp=len(xcp), x_interp=np.linspace(0, 1, 7), extrapolate=True)
                    else:
                        it = InterpND(method=method, points=xcp.copy(), x_interp=xin.copy(), extrapolate=True)
                    ycp = np.stack([2.0 * xcp - 1.0, 0.5 * xcp ** 3 - xcp])
                    if method == 'akima':
                        # exactly linear data sits on the kink of akima's |slope difference| weights, where the scheme is
                        # not differentiable in the control values: use generic data for the derivative comparison
                        ycp[0] = ycp[0] + 0.2 * np.cos(1.3 * xcp)
                    y, dy = it.evaluate_spline(ycp.copy(), compute_derivative=True)
                    dy = np.asarray(dy)
                    bad = None
                    for r in range(2):
                        Jr = dy[r] if dy.ndim == 3 else dy
                        if not np.allclose(Jr @ ycp[r], y[r], atol=1e-8 * max(1.0, np.max(np.abs(ycp[r])))):
                            bad = dict(row=r, value=np.asarray(y[r]).tolist(), sum_dvalues_times_cp=(Jr @ ycp[r]).tolist())
                            break
                        for j in range(len(xcp)):
                            e = np.zeros((1, len(xcp)))
                            e[0, j] = 1.0

                            def fresh():
                                if method == 'bsplines':
                                    return InterpND(method=method, num_cp=len(xcp), x_interp=np.linspace(0, 1, 7), extrapolate=True)
                                return InterpND(method=method, points=xcp.copy(), x_interp=xin.copy(), extrapolate=True)
                            if method == 'akima':
                                hh = 1e-6
                                rj = (np.asarray(fresh().evaluate_spline(ycp[r:r + 1] + hh * e)).ravel() - np.asarray(fresh().evaluate_spline(ycp[r:r + 1] - hh * e)).ravel()) / (2 * hh)
                            else:
                                rj = np.asarray(fresh().evaluate_spline(e)).ravel()
                            if not np.allclose(Jr[:, j], rj, atol=1e-5 if method == 'akima' else 1e-8):
                                bad = dict(row=r, control_point=j, d_dvalue=Jr[:, j].tolist(), unit_response=rj.tolist())
                                break
                        if bad:
                            break
                    if bad:
                        T.fail(kind='spline d/dvalues is not the derivative of the returned value', **dict(desc, **bad))
                    else:
                        T.ok()
                except Exception as e:      # noqa
                    T.fail(kind='exception', where='spline', error='%s: %s' % (type(e).__name__, str(e)[:160]), **desc)


def main(prop, tier):
    T = Tier()
    if prop == 'C15':
        run_c15(T, tier != 'quick')
    else:
        run_c16(T, tier != 'quick')
    print(json.dumps({'evaluations': T.ev, 'distinct_nontrivial': T.nontrivial, 'n_failures': len(T.fails),
                      'failures': [f for f in T.fails if f], 'samples': T.samples, 'raised_no_derivative_returned': len(T.raised), 'raised_examples': T.raised[:4]}, default=str))


if __name__ == '__main__':
    main(sys.argv[1], sys.argv[2] if len(sys.argv) > 2 else 'quick')
