"""Bounded tier (C02, labelled bounded): forward and reverse operators of whole models are adjoints.

Small generated models   x -> [ sub: e1 (y = A x), imp (implicit state s:  K s - B y = 0) ] -> responses
     f = c.s + d.y,  g_j = a_j + b_j * f   (b_j in {1, -1, -0.4, 2.5, 0}: parallel / anti-parallel / zero adjoint
     right-hand sides), h = sum(y**2)
x   linear solver of `sub` in {DirectSolver, ScipyKrylov, LinearBlockGS (many iterations), PETSc-free} with
    rhs_checking in {False, True, {'check_zero': True}} where the solver offers it, assemble_jac / jacobian types
x   setup mode fwd and rev.
Oracle from the statement: the total Jacobian computed in fwd mode equals the one computed in rev mode (entry (i, j) is
<e_i, J e_j> resp. <J^T e_i, e_j>), both equal the analytic Jacobian, and a second evaluation gives the same values
(caches of linear solutions must not leak between right-hand sides).
"""
import sys
import json
import itertools
import numpy as np


def build(om, n, solver, rhs_checking, jac_type, mode, bvals, units):
    rng = np.random.default_rng(n * 11 + 3)
    A = rng.uniform(-1.0, 2.0, size=(n, n)) + 2.0 * np.eye(n)
    K = rng.uniform(0.0, 0.5, size=(n, n)) + 3.0 * np.eye(n)
    B = rng.uniform(-1.0, 1.0, size=(n, n))
    c = rng.uniform(0.5, 1.5, size=n)
    d = rng.uniform(-1.0, 1.0, size=n)

    class Imp(om.ImplicitComponent):
        def setup(self):
            self.add_input('y', np.ones(n), units=units[1])
            self.add_output('s', np.ones(n))
            self.declare_partials('s', 's', val=K)
            self.declare_partials('s', 'y', val=-B)

        def apply_nonlinear(self, inputs, outputs, residuals):
            residuals['s'] = K @ outputs['s'] - B @ inputs['y']

        def solve_nonlinear(self, inputs, outputs):
            outputs['s'] = np.linalg.solve(K, B @ inputs['y'])

    class Lin(om.ExplicitComponent):
        def setup(self):
            self.add_input('x', np.ones(n))
            self.add_output('y', np.ones(n), units=units[0])
            self.declare_partials('y', 'x', val=A)

        def compute(self, inputs, outputs):
            outputs['y'] = A @ inputs['x']

    class Resp(om.ExplicitComponent):
        def setup(self):
            self.add_input('s', np.ones(n))
            self.add_input('y', np.ones(n), units=units[0])
            self.add_output('f', 0.0)
            self.add_output('h', 0.0)
            self.declare_partials('*', '*')

        def compute(self, inputs, outputs):
            outputs['f'] = c @ inputs['s'] + d @ inputs['y']
            outputs['h'] = np.sum(inputs['y'] ** 2)

        def compute_partials(self, inputs, partials):
            partials['f', 's'] = c
            partials['f', 'y'] = d
            partials['h', 'y'] = 2 * inputs['y']
            partials['h', 's'] = np.zeros(n)
    p = om.Problem(reports=False)
    p.model.add_subsystem('ivc', om.IndepVarComp('x', np.linspace(0.5, 1.5, n)), promotes=['*'])
    sub = p.model.add_subsystem('sub', om.Group(), promotes=['*'])
    sub.add_subsystem('e1', Lin(), promotes=['*'])
    sub.add_subsystem('imp', Imp(), promotes=['*'])
    p.model.add_subsystem('r', Resp(), promotes=['*'])
    # g_j = a_j + b_j * f in components DOWNSTREAM of f: their adjoint right-hand sides at `sub` are multiples of f's
    for j, b in enumerate(bvals):
        p.model.add_subsystem('rg%d' % j, om.ExecComp('g%d = %r + %r * f' % (j, 10.0 + j, b)), promotes=['*'])
    kw = {}
    if rhs_checking is not None:
        kw['rhs_checking'] = rhs_checking
    if solver == 'direct':
        sub.linear_solver = om.DirectSolver(**kw)
    elif solver == 'krylov':
        sub.linear_solver = om.ScipyKrylov(atol=1e-14, rtol=1e-14, maxiter=200, **kw)
    elif solver == 'lbgs':
        sub.linear_solver = om.LinearBlockGS(maxiter=200, atol=1e-14, rtol=1e-14)
    sub.nonlinear_solver = om.NonlinearRunOnce()
    if jac_type is not None and solver == 'direct':
        sub.options['assembled_jac_type'] = jac_type
        sub.linear_solver.options['assemble_jac'] = True
    # responses are declared on the model: the redundant-adjoint analysis behind rhs_checking works from the driver's responses
    p.model.add_design_var('x')
    p.model.add_objective('f')
    for j in range(len(bvals)):
        p.model.add_constraint('g%d' % j, upper=100.0)
    p.model.add_constraint('h', upper=1000.0)
    if solver == 'lbgs':
        sub.imp.linear_solver = om.DirectSolver()        # block Gauss-Seidel needs the implicit block solved exactly
    p.setup(mode=mode)
    p.run_model()
    f = 0.3048 if units == ('ft', 'm') else 1.0         # y converted on the way into imp only
    y_to_s = np.linalg.solve(K, B) * f
    dfdx = (c @ y_to_s + d) @ A
    Jexp = {'f': dfdx, 'h': 2 * (A @ np.linspace(0.5, 1.5, n)) @ A}
    for j, b in enumerate(bvals):
        Jexp['g%d' % j] = b * dfdx
    return p, Jexp


def run_one(case):
    import openmdao.api as om
    n, solver, rhs, jt, bvals, units = case
    desc = dict(n=n, solver=solver, rhs_checking=rhs, assembled_jac_type=jt, g_coefficients=list(bvals), units=list(units))
    try:
        of = ['f'] + ['g%d' % j for j in range(len(bvals))] + ['h']
        J = {}
        for mode in ('fwd', 'rev'):
            p, Jexp = build(om, n, solver, rhs, jt, mode, bvals, units)
            for rep in (1, 2):
                tot = p.compute_totals(of=of, wrt=['x'], return_format='array')
                exp = np.vstack([Jexp[o] for o in of])
                if not np.allclose(tot, exp, rtol=1e-8, atol=1e-9):
                    bad = int(np.argmax(np.max(np.abs(tot - exp), axis=1)))
                    return dict(desc, kind='%s-mode totals differ from the analytic jacobian' % mode, evaluation=rep, response=of[bad], got=tot[bad].tolist(), expected=exp[bad].tolist())
            J[mode] = tot
        if not np.allclose(J['fwd'], J['rev'], rtol=1e-8, atol=1e-9):
            return dict(desc, kind='fwd and rev totals differ (operators are not adjoint)', max_abs_diff=float(np.max(np.abs(J['fwd'] - J['rev']))))
        return dict(ok=True)
    except Exception as e:      # noqa
        return dict(desc, kind='exception', error='%s: %s' % (type(e).__name__, str(e)[:200]))


# ---- histories with sparse partials: the linearization point (and complex-step mode) changes between products ----
SN = 4
SROWS = np.array([0, 1, 1, 2, 2, 3, 3])
SCOLS = np.array([0, 0, 1, 1, 2, 2, 3])


def sparse_history(case):
    """y[i] = x[i]**3 + a x[i] x[i-1] with dy/dx declared as fmt (csr / csc / coo / rows_cols / dense) and refreshed by
    `update` (inplace_data: partials[...].data[:] = ..., assign_sparse: a new sparse matrix, assign_data: the nonzeros,
    fd / cs: approximated into the declared pattern); history: point 0, [a pass under complex step], point 1, point 2.
    At every point: <w, J v> == <J^T w, v> for the component's and the model's apply_linear, and rev totals == fwd totals
    == analytic."""
    import openmdao.api as om
    import scipy.sparse as sp
    fmt, update, with_cs, flow = case
    desc = dict(partial_format=fmt, update=update, complex_step_pass_between=with_cs, flow=flow)
    pat = sp.coo_matrix((np.ones(SROWS.size), (SROWS, SCOLS)), shape=(SN, SN))

    def dense_jac(x, a):
        d = np.zeros((SN, SN), dtype=x.dtype)
        idx = np.arange(SN)
        d[idx, idx] = 3.0 * x ** 2
        d[idx[1:], idx[1:]] += a * x[:-1]
        d[idx[1:], idx[:-1]] = a * x[1:]
        return d

    class Banded(om.ExplicitComponent):
        def setup(self):
            self.add_input('x', np.ones(SN))
            self.add_input('a', 1.0)
            self.add_output('y', np.ones(SN))
            kw = {}
            if update in ('fd', 'cs'):
                kw['method'] = update
            if fmt == 'rows_cols':
                self.declare_partials('y', 'x', rows=SROWS, cols=SCOLS, **kw)
            elif fmt == 'dense':
                self.declare_partials('y', 'x', **kw)
            else:
                self.declare_partials('y', 'x', val=getattr(pat, 'to' + fmt)(), **kw)
            self.declare_partials('y', 'a', **kw)

        def compute(self, inputs, outputs):
            x, a = inputs['x'], inputs['a']
            y = x ** 3
            y[1:] += a * x[1:] * x[:-1]
            outputs['y'] = y

        def compute_partials(self, inputs, partials):
            if update in ('fd', 'cs'):
                return
            x, a = inputs['x'], inputs['a']
            d = dense_jac(x, a)
            if fmt == 'dense':
                partials['y', 'x'] = d
            elif fmt == 'rows_cols' or update == 'assign_data':
                if fmt in ('rows_cols', 'coo'):
                    partials['y', 'x'] = d[SROWS, SCOLS]
                else:
                    m = getattr(sp.coo_matrix((np.arange(1.0, SROWS.size + 1), (SROWS, SCOLS)), shape=(SN, SN)), 'to' + fmt)()
                    order = (m.data - 1).astype(int)                     # storage order of the format
                    partials['y', 'x'] = d[SROWS, SCOLS][order]
            elif update == 'inplace_data':
                cur = partials['y', 'x']
                coo = cur.tocoo()
                cur.data[:] = d[coo.row, coo.col] if fmt != 'coo' else d[cur.row, cur.col]
            else:       # assign_sparse
                partials['y', 'x'] = getattr(sp.coo_matrix((d[SROWS, SCOLS], (SROWS, SCOLS)), shape=(SN, SN)), 'to' + fmt)()
            dyda = np.zeros(SN, dtype=x.dtype)
            dyda[1:] = x[1:] * x[:-1]
            partials['y', 'a'] = dyda

    class Post(om.ExplicitComponent):
        def setup(self):
            self.add_input('y', np.ones(SN))
            self.add_output('z', np.ones(SN))
            self.declare_partials('z', 'y', rows=np.arange(SN), cols=np.arange(SN), val=2.0)

        def compute(self, inputs, outputs):
            outputs['z'] = 2.0 * inputs['y']

    def build(mode):
        p = om.Problem(reports=False)
        p.model.add_subsystem('ivc', om.IndepVarComp('x', np.linspace(0.5, 2.0, SN)), promotes=['*'])
        p.model.add_subsystem('ivc_a', om.IndepVarComp('a', 0.7), promotes=['*'])
        p.model.add_subsystem('band', Banded(), promotes=['*'])
        p.model.add_subsystem('post', Post(), promotes=['*'])
        p.model.add_design_var('x')
        p.model.add_design_var('a')
        p.model.add_constraint('z', upper=1000.0)
        p.setup(mode=mode, force_alloc_complex=True)
        return p

    def gap(system, rng, is_model):
        d_inputs, d_outputs, d_residuals = system.get_linear_vectors()
        v_in, v_out, w = rng.standard_normal(len(d_inputs)), rng.standard_normal(len(d_outputs)), rng.standard_normal(len(d_residuals))
        d_inputs.set_val(v_in); d_outputs.set_val(v_out); d_residuals.set_val(0.0)
        system.run_apply_linear('fwd')
        Jv = d_residuals.asarray(copy=True)
        d_inputs.set_val(0.0); d_outputs.set_val(0.0); d_residuals.set_val(w)
        system.run_apply_linear('rev')
        lhs = w.dot(Jv)
        rhs = d_outputs.asarray().dot(v_out) + (0.0 if is_model else d_inputs.asarray().dot(v_in))
        return abs(lhs - rhs) / max(abs(lhs), abs(rhs), 1.0)
    try:
        rng = np.random.default_rng(5)
        probs = {m: build(m) for m in ('rev', 'fwd')}
        points = [(np.linspace(0.5, 2.0, SN), 0.7), (np.array([-1.2, 0.4, 2.5, 1.1]), -1.9), (np.array([0.3, -0.7, 1.5, 2.2]), 0.45)]
        tol = 1e-4 if update == 'fd' else 1e-9
        for k, (x, a) in enumerate(points):
            J = {}
            for m, p in probs.items():
                p.set_val('x', x)
                p.set_val('a', a)
                p.run_model()
                if m == 'rev' and flow != 'totals':          # (a rev-mode set-up has the transfers of both directions)
                    p.model.run_linearize()
                    for system, is_model in ((p.model.band, False), (p.model, True)):
                        g = gap(system, rng, is_model)
                        if g > 1e-10:
                            return dict(desc, kind='<w, J v> != <J^T w, v> for apply_linear', system=system.pathname or '<model>', point=k, setup_mode=m, rel_gap=float(g))
                if flow != 'ops':
                    J[m] = p.compute_totals(of=['z'], wrt=['x', 'a'], return_format='array')
            exp = 2.0 * np.hstack([dense_jac(x, a), np.concatenate([[0.0], x[1:] * x[:-1]])[:, None]])
            for m in J:
                if not np.allclose(J[m], exp, rtol=tol, atol=tol):
                    return dict(desc, kind='%s-mode totals differ from the analytic jacobian' % m, point=k, max_abs_err=float(np.max(np.abs(J[m] - exp))))
            if J and not np.allclose(J['fwd'], J['rev'], rtol=1e-9 if update != 'fd' else 1e-6, atol=1e-9 if update != 'fd' else 1e-6):
                return dict(desc, kind='fwd and rev totals differ (operators are not adjoint)', point=k, max_abs_diff=float(np.max(np.abs(J['fwd'] - J['rev']))))
            if with_cs and k == 0:
                for p in probs.values():
                    p.set_complex_step_mode(True)
                    p.run_model()
                    p.model.run_linearize()
                    p.set_complex_step_mode(False)
        return dict(ok=True)
    except Exception as e:      # noqa
        return dict(desc, kind='exception', error='%s: %s' % (type(e).__name__, str(e)[:200]))


def main(tier):
    big = tier != 'quick'
    cases = []
    bsets = [(1.0,), (-0.4,), (-1.0, 2.5), (0.0, -0.4), (2.5, -0.4, 1.0)]
    for n in ((2, 3) if big else (3,)):
        for solver, rhss, jts in (('direct', (None, False, True, {'check_zero': True}), (None, 'csc', 'dense')), ('krylov', (None, True), (None,)), ('lbgs', (None,), (None,))):
            for rhs in rhss:
                for jt in jts:
                    for bvals in bsets:
                        for units in ((None, None), ('ft', 'm')):
                            if not big and units[0] and (jt is not None or len(bvals) == 1):
                                continue
                            cases.append((n, solver, rhs, jt, bvals, units))
    import multiprocessing as mp
    with mp.get_context('fork').Pool(16) as pool:
        res = pool.map(run_one, cases, chunksize=2)
    hcases = []
    for fmt in ('csr', 'csc', 'coo', 'rows_cols', 'dense'):
        for update in ('inplace_data', 'assign_sparse', 'assign_data', 'fd', 'cs'):
            if fmt in ('rows_cols', 'dense') and update in ('inplace_data', 'assign_sparse'):
                continue
            if fmt in ('csr', 'csc', 'coo') and update == 'assign_data':
                continue        # refused by OpenMDAO (an ndarray cannot be assigned to a sparse sub-jacobian)
            for with_cs in (False, True):
                for flow in ('ops', 'totals', 'both'):       # operator products only / compute_totals only / interleaved
                    hcases.append((fmt, update, with_cs, flow))
    with mp.get_context('fork').Pool(16) as pool:
        hres = pool.map(sparse_history, hcases, chunksize=1)
    res = list(res) + list(hres)
    fails = [r for r in res if not r.get('ok')]
    print(json.dumps({'evaluations': len(cases) * 4 + len(hcases) * 4, 'sparse_partial_histories': len(hcases), 'distinct_nontrivial': sum(1 for r in res if r.get('ok')), 'n_failures': len(fails), 'failures': fails[:30],
                      'samples': [dict(n=c[0], solver=c[1], rhs_checking=c[2], assembled_jac_type=c[3], g_coefficients=list(c[4]), units=list(c[5])) for c in cases[5:8]]}, default=str))


if __name__ == '__main__':
    main(sys.argv[1] if len(sys.argv) > 1 else 'quick')
