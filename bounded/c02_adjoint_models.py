"""Bounded tier (C02, labelled bounded): forward and reverse operators of whole models are adjoints.

Small generated models   x -> [ sub: e1 (y = A x), imp (implicit state s:  K s - B y = 0) ] -> responses
     f = c.s + d.y,  g_j = a_j + b_j * f   (b_j in {1, -1, -0.4, 2.5, 0}: parallel / anti-parallel / zero adjoint
     right-hand sides), h = sum(y**2)
x   linear solver of `sub` in {DirectSolver, ScipyKrylov, LinearBlockGS (many iterations), PETSc-free} with
    rhs_checking in {False, True, {'check_zero': True}} where the solver offers it, assemble_jac / jacobian types
x   setup mode fwd and rev.
Oracle from the statement: the total Jacobian computed in fwd mode equals the one computed in rev mode (entry (i, j) is
<e_i, J e_j> resp. <J^T e_i, e_j>), both equal the analytic Jacobian, and a second evaluation gives the same values
(caches of linear solutions must not leak between right-hand sides).
"""
import sys
import json
import itertools
import numpy as np


def build(om, n, solver, rhs_checking, jac_type, mode, bvals, units):
    rng = np.random.default_rng(n * 11 + 3)
    A = rng.uniform(-1.0, 2.0, size=(n, n)) + 2.0 * np.eye(n)
    K = rng.uniform(0.0, 0.5, size=(n, n)) + 3.0 * np.eye(n)
    B = rng.uniform(-1.0, 1.0, size=(n, n))
    c = rng.uniform(0.5, 1.5, size=n)
    d = rng.uniform(-1.0, 1.0, size=n)

    class Imp(om.ImplicitComponent):
        def setup(self):
            self.add_input('y', np.ones(n), units=units[1])
            self.add_output('s', np.ones(n))
            self.declare_partials('s', 's', val=K)
            self.declare_partials('s', 'y', val=-B)

        def apply_nonlinear(self, inputs, outputs, residuals):
            residuals['s'] = K @ outputs['s'] - B @ inputs['y']

        def solve_nonlinear(self, inputs, outputs):
            outputs['s'] = np.linalg.solve(K, B @ inputs['y'])

    class Lin(om.ExplicitComponent):
        def setup(self):
            self.add_input('x', np.ones(n))
            self.add_output('y', np.ones(n), units=units[0])
            self.declare_partials('y', 'x', val=A)

        def compute(self, inputs, outputs):
            outputs['y'] = A @ inputs['x']

    class Resp(om.ExplicitComponent):
        def setup(self):
            self.add_input('s', np.ones(n))
            self.add_input('y', np.ones(n), units=units[0])
            self.add_output('f', 0.0)
            self.add_output('h', 0.0)
            self.declare_partials('*', '*')

        def compute(self, inputs, outputs):
            outputs['f'] = c @ inputs['s'] + d @ inputs['y']
            outputs['h'] = np.sum(inputs['y'] ** 2)

        def compute_partials(self, inputs, partials):
            partials['f', 's'] = c
            partials['f', 'y'] = d
            partials['h', 'y'] = 2 * inputs['y']
            partials['h', 's'] = np.zeros(n)
    p = om.Problem(reports=False)
    p.model.add_subsystem('ivc', om.IndepVarComp('x', np.linspace(0.5, 1.5, n)), promotes=['*'])
    sub = p.model.add_subsystem('sub', om.Group(), promotes=['*'])
    sub.add_subsystem('e1', Lin(), promotes=['*'])
    sub.add_subsystem('imp', Imp(), promotes=['*'])
    p.model.add_subsystem('r', Resp(), promotes=['*'])
    # g_j = a_j + b_j * f in components DOWNSTREAM of f: their adjoint right-hand sides at `sub` are multiples of f's
    for j, b in enumerate(bvals):
        p.model.add_subsystem('rg%d' % j, om.ExecComp('g%d = %r + %r * f' % (j, 10.0 + j, b)), promotes=['*'])
    kw = {}
    if rhs_checking is not None:
        kw['rhs_checking'] = rhs_checking
    if solver == 'direct':
        sub.linear_solver = om.DirectSolver(**kw)
    elif solver == 'krylov':
        sub.linear_solver = om.ScipyKrylov(atol=1e-14, rtol=1e-14, maxiter=200, **kw)
    elif solver == 'lbgs':
        sub.linear_solver = om.LinearBlockGS(maxiter=200, atol=1e-14, rtol=1e-14)
    sub.nonlinear_solver = om.NonlinearRunOnce()
    if jac_type is not None and solver == 'direct':
        sub.options['assembled_jac_type'] = jac_type
        sub.linear_solver.options['assemble_jac'] = True
    # responses are declared on the model: the redundant-adjoint analysis behind rhs_checking works from the driver's responses
    p.model.add_design_var('x')
    p.model.add_objective('f')
    for j in range(len(bvals)):
        p.model.add_constraint('g%d' % j, upper=100.0)
    p.model.add_constraint('h', upper=1000.0)
    if solver == 'lbgs':
        sub.imp.linear_solver = om.DirectSolver()        # block Gauss-Seidel needs the implicit block solved exactly
    p.setup(mode=mode)
    p.run_model()
    f = 0.3048 if units == ('ft', 'm') else 1.0         # y converted on the way into imp only
    y_to_s = np.linalg.solve(K, B) * f
    dfdx = (c @ y_to_s + d) @ A
    Jexp = {'f': dfdx, 'h': 2 * (A @ np.linspace(0.5, 1.5, n)) @ A}
    for j, b in enumerate(bvals):
        Jexp['g%d' % j] = b * dfdx
    return p, Jexp


def run_one(case):
    import openmdao.api as om
    n, solver, rhs, jt, bvals, units = case
    desc = dict(n=n, solver=solver, rhs_checking=rhs, assembled_jac_type=jt, g_coefficients=list(bvals), units=list(units))
    try:
        of = ['f'] + ['g%d' % j for j in range(len(bvals))] + ['h']
        J = {}
        for mode in ('fwd', 'rev'):
            p, Jexp = build(om, n, solver, rhs, jt, mode, bvals, units)
            for rep in (1, 2):
                tot = p.compute_totals(of=of, wrt=['x'], return_format='array')
                exp = np.vstack([Jexp[o] for o in of])
                if not np.allclose(tot, exp, rtol=1e-8, atol=1e-9):
                    bad = int(np.argmax(np.max(np.abs(tot - exp), axis=1)))
                    return dict(desc, kind='%s-mode totals differ from the analytic jacobian' % mode, evaluation=rep, response=of[bad], got=tot[bad].tolist(), expected=exp[bad].tolist())
            J[mode] = tot
        if not np.allclose(J['fwd'], J['rev'], rtol=1e-8, atol=1e-9):
            return dict(desc, kind='fwd and rev totals differ (operators are not adjoint)', max_abs_diff=float(np.max(np.abs(J['fwd'] - J['rev']))))
        return dict(ok=True)
    except Exception as e:      # noqa
        return dict(desc, kind='exception', error='%s: %s' % (type(e).__name__, str(e)[:200]))


def main(tier):
    big = tier != 'quick'
    cases = []
    bsets = [(1.0,), (-0.4,), (-1.0, 2.5), (0.0, -0.4), (2.5, -0.4, 1.0)]
    for n in ((2, 3) if big else (3,)):
        for solver, rhss, jts in (('direct', (None, False, True, {'check_zero': True}), (None, 'csc', 'dense')), ('krylov', (None, True), (None,)), ('lbgs', (None,), (None,))):
            for rhs in rhss:
                for jt in jts:
                    for bvals in bsets:
                        for units in ((None, None), ('ft', 'm')):
                            if not big and units[0] and (jt is not None or len(bvals) == 1):
                                continue
                            cases.append((n, solver, rhs, jt, bvals, units))
    import multiprocessing as mp
    with mp.get_context('fork').Pool(16) as pool:
        res = pool.map(run_one, cases, chunksize=2)
    fails = [r for r in res if not r.get('ok')]
    print(json.dumps({'evaluations': len(cases) * 4, 'distinct_nontrivial': sum(1 for r in res if r.get('ok')), 'n_failures': len(fails), 'failures': fails[:30],
                      'samples': [dict(n=c[0], solver=c[1], rhs_checking=c[2], assembled_jac_type=c[3], g_coefficients=list(c[4]), units=list(c[5])) for c in cases[5:8]]}, default=str))


if __name__ == '__main__':
    main(sys.argv[1] if len(sys.argv) > 1 else 'quick')
