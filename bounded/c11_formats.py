"""Bounded tier (C11, labelled bounded): dense, CSC and CSR assembled matrices and the matrix-free
dictionary application compute the same totals in forward and reverse mode, for every combination of
sub-jacobian declaration formats (dense, rows/cols, diagonal, scipy
coo/csr/csc), with src_indices (repeated ones included), two inputs fed by the same source with different unit
factors (duplicate entries across and within sub-jacobians in the assembled matrix), after a second update with new
values and after a complex-step dtype switch.  Reference = explicit NumPy chain rule.
"""
import sys
import json
import itertools
import numpy as np


def main(tier):
    import openmdao.api as om
    import scipy.sparse as sp
    ev = 0
    nontrivial = set()
    fails = []
    samples = []

    def fail(**kw):
        fails.append(kw if len(fails) < 20 else None)
    n = 3
    # y1 = A1 x (declared in format f1), y2 = A2 z (format f2) where z = x[src] converted km -> m
    fmts = ['dense', 'rowscols', 'diagonal', 'coo', 'csr', 'csc']
    src_opts = [None, [2, 0, 1], [1, 1, 0]]
    combos = list(itertools.product(fmts, fmts, src_opts))
    if tier == 'quick':
        combos = combos[::7]
    rng = np.random.RandomState(0)
    W = np.array([[2.0, 0, 0], [0, -3.0, 0], [0.5, 0, 4.0]])
    wsrc = [0, 0, 2]

    def pattern(fmt):
        if fmt == 'diagonal':
            return [(i, i) for i in range(n)]
        if fmt == 'dense':
            return [(i, j) for i in range(n) for j in range(n)]
        return [(0, 0), (0, 2), (1, 1), (2, 0), (2, 2)]

    for f1, f2, src in combos:
        A = {}

        def make(name, fmt, inp):
            pat = pattern(fmt)

            class C(om.ExplicitComponent):
                def setup(self):
                    self.add_input(inp, np.ones(n), units='m' if name == 'c2' else None)
                    self.add_output('y', np.ones(n))
                    if name == 'c2':
                        # a second input fed by the SAME source (other unit, repeated src_indices): its columns
                        # coincide with those of z in the assembled d(residual)/d(source) matrix
                        self.add_input('w', np.ones(n), units='cm')
                        self.declare_partials('y', 'w', rows=[0, 1, 2, 2], cols=[0, 1, 2, 0])
                    rows = np.array([r for r, _ in pat])
                    cols = np.array([c for _, c in pat])
                    if fmt == 'dense':
                        self.declare_partials('y', inp)
                    elif fmt == 'diagonal':
                        self.declare_partials('y', inp, diagonal=True)
                    elif fmt == 'rowscols':
                        self.declare_partials('y', inp, rows=rows, cols=cols)
                    else:
                        M = sp.coo_matrix((np.ones(len(pat)), (rows, cols)), shape=(n, n))
                        self.declare_partials('y', inp, val={'coo': M, 'csr': M.tocsr(), 'csc': M.tocsc()}[fmt])

                def compute(self, inputs, outputs):
                    outputs['y'] = A[name] @ inputs[inp]
                    if name == 'c2':
                        outputs['y'] += W @ inputs['w']

                def compute_partials(self, inputs, partials):
                    M = A[name]
                    if name == 'c2':
                        partials['y', 'w'] = W[[0, 1, 2, 2], [0, 1, 2, 0]]
                    rows = np.array([r for r, _ in pat])
                    cols = np.array([c for _, c in pat])
                    if fmt == 'dense':
                        partials['y', inp] = M
                    elif fmt == 'diagonal':
                        partials['y', inp] = np.diag(M).copy()
                    elif fmt == 'rowscols':
                        partials['y', inp] = M[rows, cols].copy()
                    else:
                        S = sp.coo_matrix((M[rows, cols], (rows, cols)), shape=(n, n))
                        partials['y', inp] = {'coo': S, 'csr': S.tocsr(), 'csc': S.tocsc()}[fmt]
            return C()

        def fill(seed):
            r = np.random.RandomState(seed)
            for name, fmt in (('c1', f1), ('c2', f2)):
                M = np.zeros((n, n))
                for (i, j) in pattern(fmt):
                    M[i, j] = r.randint(1, 9) * 0.5
                A[name] = M

        def build(jac, mode):
            p = om.Problem(reports=False)
            p.model.add_subsystem('ivc', om.IndepVarComp('x', np.arange(1.0, n + 1), units='km'))
            p.model.add_subsystem('c1', make('c1', f1, 'x'))
            p.model.add_subsystem('c2', make('c2', f2, 'z'))
            p.model.connect('ivc.x', 'c1.x')
            if src is None:
                p.model.connect('ivc.x', 'c2.z')
            else:
                p.model.connect('ivc.x', 'c2.z', src_indices=src)
            p.model.connect('ivc.x', 'c2.w', src_indices=wsrc)
            if jac == 'dict':
                p.model.linear_solver = om.LinearRunOnce()
            elif jac == 'csr':
                # DirectSolver does not take CSR; a Krylov solve applies the assembled matrix as operator
                p.model.options['assembled_jac_type'] = jac
                p.model.linear_solver = om.ScipyKrylov(assemble_jac=True, atol=1e-14, rtol=1e-14)
            else:
                p.model.options['assembled_jac_type'] = jac
                p.model.linear_solver = om.DirectSolver(assemble_jac=True)
            p.setup(mode=mode, force_alloc_complex=True)
            return p
        results = {}
        for jac in ('dict', 'dense', 'csc', 'csr'):
            for mode in ('fwd', 'rev'):
                ev += 1
                try:
                    p = build(jac, mode)
                    out = []
                    for seed in (1, 2):                       # repeated update with new values
                        fill(seed)
                        p.run_model()
                        J = p.compute_totals(of=['c1.y', 'c2.y'], wrt=['ivc.x'], return_format='array')
                        out.append(J)
                    # complex-step dtype switch and back
                    p.set_complex_step_mode(True)
                    p.run_model()
                    p.set_complex_step_mode(False)
                    p.run_model()
                    out.append(p.compute_totals(of=['c1.y', 'c2.y'], wrt=['ivc.x'], return_format='array'))
                    results[(jac, mode)] = out
                except Exception as e:     # noqa
                    fail(kind='exception', f1=f1, f2=f2, src=src, jac=jac, mode=mode, error='%s: %s' % (type(e).__name__, e))
        # reference by the chain rule
        ref = []
        for seed in (1, 2, 2):
            fill(seed)
            P = np.eye(n) if src is None else np.eye(n)[src]
            ref.append(np.vstack([A['c1'], A['c2'] @ P * 1000.0 + W @ np.eye(n)[wsrc] * 1.0e5]))
        nontrivial.add((f1, f2, str(src)))
        for key, out in results.items():
            for k, (J, R) in enumerate(zip(out, ref)):
                if J.shape != R.shape or np.max(np.abs(J - R)) > 1e-9 * max(1.0, np.max(np.abs(R))):
                    fail(kind='totals-differ', f1=f1, f2=f2, src=src, jac=key[0], mode=key[1], update=k,
                         got=np.round(J, 6).tolist(), want=R.tolist(), maxdiff=float(np.max(np.abs(J - R))) if J.shape == R.shape else None)
        if len(samples) < 2:
            samples.append({'formats': [f1, f2], 'src_indices': src, 'reference_totals': ref[0].tolist()})
    print(json.dumps({'evaluations': ev, 'distinct_nontrivial': len(nontrivial), 'n_failures': len(fails),
                      'failures': [f for f in fails if f], 'samples': samples}))


if __name__ == '__main__':
    main(sys.argv[1] if len(sys.argv) > 1 else 'quick')
