"""Bounded tier (C30, labelled bounded): cs_safe helpers on n-d arrays (the proofs cover scalars and 1-d arrays).

abs / norm / arctan2 on arrays of shapes (3,), (2,2), (2,3), (1,2,2) with entries from {-2, -0.5, 0, 0.5, 3} (exhaustive
for up to 4 entries, a deterministic slice beyond), real evaluation == NumPy, and complex-step derivative == analytic
derivative (perturbing every entry at once with distinct directions, and one entry at a time), incl. exact zeros
(abs: one-sided derivative |d| at 0, as documented)."""
import sys
import json
import itertools
import numpy as np


def main(tier):
    from openmdao.utils import cs_safe
    vals = [-2.0, -0.5, 0.0, 0.5, 3.0]
    h = 1e-40
    ev = 0
    nontrivial = 0
    fails = []
    samples = []

    def fail(**kw):
        fails.append(kw if len(fails) < 30 else None)
    shapes = [(3,), (2, 2), (2, 3), (1, 2, 2)]
    for shape in shapes:
        n = int(np.prod(shape))
        combos = itertools.product(vals, repeat=n)
        if n > 4:
            combos = (c for k, c in enumerate(itertools.product(vals, repeat=n)) if k % (37 if tier == 'quick' else 5) == 0)
        elif tier == 'quick' and n == 4:
            combos = (c for k, c in enumerate(itertools.product(vals, repeat=n)) if k % 3 == 0)
        for c in combos:
            x = np.array(c).reshape(shape)
            ev += 1
            # ---- abs ----
            r = cs_safe.abs(x.copy())
            if not np.array_equal(r, np.abs(x)):
                fail(kind='abs: real value differs from numpy.abs', x=x.tolist(), got=np.asarray(r).tolist())
                continue
            dirs = (np.arange(1, n + 1) * 0.5 * np.where(np.arange(n) % 2, -1.0, 1.0)).reshape(shape)
            patterns = [dirs] + [np.where(np.arange(n).reshape(shape) == k, 1.0, 0.0) * (-1.0 if k % 2 else 1.0) for k in range(min(n, 3))]
            bad = False
            for d in patterns:
                z = x + 1j * h * d
                out = cs_safe.abs(z)
                want_re = np.abs(x)
                want_d = np.where(x > 0, d, np.where(x < 0, -d, np.abs(d)))
                if not np.allclose(out.real, want_re, rtol=0, atol=0) or not np.allclose(out.imag / h, want_d, rtol=1e-12, atol=1e-12):
                    fail(kind='abs: complex-step value/derivative wrong', x=x.tolist(), direction=d.tolist(), real=out.real.tolist(), deriv=(out.imag / h).tolist(), expected_deriv=want_d.tolist())
                    bad = True
                    break
            if bad:
                continue
            # ---- norm (whole array and along the last axis) ----
            if np.any(x != 0):
                z = x + 1j * h * dirs
                out = cs_safe.norm(z)
                nv = np.sqrt(np.sum(x ** 2))
                if abs(out.real - nv) > 1e-12 * max(1, nv) or abs(out.imag / h - np.sum(x * dirs) / nv) > 1e-10 * max(1.0, abs(np.sum(x * dirs) / nv)):
                    fail(kind='norm: complex-step value/derivative wrong', x=x.tolist(), got=[float(out.real), float(out.imag / h)], expected=[float(nv), float(np.sum(x * dirs) / nv)])
                    continue
                if len(shape) >= 2 and np.all(np.sum(x ** 2, axis=-1) > 0):
                    outa = cs_safe.norm(z, axis=-1)
                    nva = np.sqrt(np.sum(x ** 2, axis=-1))
                    da = np.sum(x * dirs, axis=-1) / nva
                    if not np.allclose(outa.real, nva, rtol=1e-12) or not np.allclose(outa.imag / h, da, rtol=1e-10, atol=1e-12):
                        fail(kind='norm(axis=-1): complex-step value/derivative wrong', x=x.tolist())
                        continue
            # ---- arctan2(y, x) elementwise with y = reversed entries ----
            y = x.ravel()[::-1].reshape(shape) + 0.25
            ok = (x ** 2 + y ** 2) > 0
            zx, zy = x + 1j * h * dirs, y + 1j * h * (dirs * 0.5 + 1.0)
            out = cs_safe.arctan2(zy, zx)
            want = np.arctan2(y, x)
            wd = (x * (dirs * 0.5 + 1.0) - y * dirs) / np.where(ok, x ** 2 + y ** 2, 1.0)
            if not np.allclose(np.asarray(out.real)[ok], want[ok], rtol=1e-13, atol=1e-13) or not np.allclose((np.asarray(out.imag) / h)[ok], wd[ok], rtol=1e-10, atol=1e-12):
                fail(kind='arctan2: complex-step value/derivative wrong', x=x.tolist(), y=y.tolist())
                continue
            nontrivial += 1
            if len(samples) < 3 and 0.0 in c and len(shape) > 1:
                samples.append({'shape': list(shape), 'x': x.tolist()})
    # ---- histories: several results alive at once (an expression such as abs(a) - abs(b) keeps the first result while the
    # second is computed): every result keeps its value, no two results and no result and argument share memory, and the
    # argument is not modified
    funcs = [('abs', lambda z: cs_safe.abs(z), lambda x: np.abs(x), lambda x, d: np.where(x > 0, d, np.where(x < 0, -d, np.abs(d)))),
             ('arctan2(., 1.5)', lambda z: cs_safe.arctan2(z, np.full(z.shape, 1.5)), lambda x: np.arctan2(x, 1.5), lambda x, d: 1.5 * d / (x ** 2 + 2.25))]
    for shape in [(3,), (2, 2), (1, 2, 2), ()]:
        n = int(np.prod(shape)) if shape else 1
        xs = [np.array([vals[(k * 3 + j) % len(vals)] for j in range(n)]).reshape(shape) for k in range(4)]
        dirs = (np.arange(1, n + 1) * 0.5 * np.where(np.arange(n) % 2, -1.0, 1.0)).reshape(shape)
        for fname, f, fval, fder in funcs:
            for cplx in (False, True):
                ev += 1
                args = [(x + 1j * h * dirs) if cplx else x.copy() for x in xs]
                keep = [a.copy() for a in args]
                outs = [f(a) for a in args]                     # all results stay alive
                desc = dict(function=fname, shape=list(shape), complex_step=cplx, history='%d same-shaped calls, all results kept' % len(xs))
                bad = False
                for k, (x, o) in enumerate(zip(xs, outs)):
                    o = np.asarray(o)
                    if not np.allclose(o.real, fval(x), rtol=1e-13, atol=1e-13) or (cplx and not np.allclose(o.imag / h, fder(x, dirs), rtol=1e-10, atol=1e-12)):
                        fail(kind='a result changed after later calls', call=k, x=x.tolist(), got=o.real.tolist(), expected=np.asarray(fval(x)).tolist(), **desc)
                        bad = True
                        break
                if not bad and shape:
                    for i in range(len(outs)):
                        for j in range(len(outs)):
                            if (i < j and np.shares_memory(outs[i], outs[j])) or np.shares_memory(outs[i], args[j]):
                                fail(kind='results / arguments share memory', calls=[i, j], **desc)
                                bad = True
                                break
                        if bad:
                            break
                if not bad and any(not np.array_equal(a, k0) for a, k0 in zip(args, keep)):
                    fail(kind='argument modified', **desc)
                    bad = True
                if not bad:
                    nontrivial += 1
    print(json.dumps({'evaluations': ev, 'distinct_nontrivial': nontrivial, 'n_failures': len(fails), 'failures': [f for f in fails if f], 'samples': samples}))


if __name__ == '__main__':
    main(sys.argv[1] if len(sys.argv) > 1 else 'quick')
