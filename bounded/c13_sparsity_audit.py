"""Bounded tier (C13, labelled bounded — never counted as proved): check_partials must flag every
approximated nonzero outside a partial's declared sparsity pattern.

Contract on Subjac.set_col family (all formats), checked natively through the real check_partials:
  reported uncovered set == { (r, c) : |dy_r/dx_c| > threshold and (r, c) not in declared pattern }.
Domain (exhaustive): every non-empty declared pattern P and every true dependency pattern T of an
R x C linear map y = A x (A[r, c] = 1 + r + 2c on T), for each storage format.
Usage (under /venv/bin/python): c13_sparsity_audit.py R C  -> JSON on stdout
"""
import sys
import json
import itertools
import warnings

import numpy as np


def run(R, C, formats):
    import openmdao.api as om
    import scipy.sparse as sp
    warnings.simplefilter('ignore')
    cells = [(r, c) for r in range(R) for c in range(C)]
    evaluations = 0
    nontrivial = set()
    failures = []
    samples = []
    for fmt in formats:
        for pbits in range(1, 2 ** len(cells)):
            P = [cells[k] for k in range(len(cells)) if pbits >> k & 1]
            if fmt == 'diagonal':
                if R != C or sorted(P) != [(i, i) for i in range(R)]:
                    continue
            for tbits in range(2 ** len(cells)):
                T = [cells[k] for k in range(len(cells)) if tbits >> k & 1]
                A = np.zeros((R, C))
                for (r, c) in T:
                    A[r, c] = 1.0 + r + 2 * c

                class Comp(om.ExplicitComponent):
                    def setup(self):
                        self.add_input('x', np.ones(C))
                        self.add_output('y', np.ones(R))
                        rows = np.array([r for r, _ in P])
                        cols = np.array([c for _, c in P])
                        if fmt == 'rowscols':
                            self.declare_partials('y', 'x', rows=rows, cols=cols)
                        elif fmt == 'diagonal':
                            self.declare_partials('y', 'x', diagonal=True)
                        else:
                            M = sp.coo_matrix((np.ones(len(P)), (rows, cols)), shape=(R, C))
                            M = {'coo': M, 'csr': M.tocsr(), 'csc': M.tocsc()}[fmt]
                            self.declare_partials('y', 'x', val=M)

                    def compute(self, inputs, outputs):
                        outputs['y'] = A @ inputs['x']

                    def compute_partials(self, inputs, partials):
                        if fmt == 'rowscols':
                            partials['y', 'x'] = np.array([A[r, c] for r, c in P])
                        elif fmt == 'diagonal':
                            partials['y', 'x'] = np.array([A[i, i] for i in range(R)])
                        else:
                            M = sp.coo_matrix((np.array([A[r, c] for r, c in P]),
                                               (np.array([r for r, _ in P]), np.array([c for _, c in P]))), shape=(R, C))
                            partials['y', 'x'] = {'coo': M, 'csr': M.tocsr(), 'csc': M.tocsc()}[fmt]
                p = om.Problem(reports=False)
                p.model.add_subsystem('comp', Comp())
                p.setup(force_alloc_complex=True)
                p.run_model()
                err = None
                try:
                    data = p.check_partials(out_stream=None, method='cs')
                    d = data['comp'][('y', 'x')]
                    got = sorted((int(r), int(c)) for r, c in d.get('uncovered_nz', []))
                    thr_ok = ('uncovered_nz' not in d) or ('uncovered_threshold' in d)
                except Exception as e:     # noqa
                    got = None
                    thr_ok = False
                    err = '%s: %s' % (type(e).__name__, e)
                want = sorted(set(T) - set(P))
                evaluations += 1
                if want:
                    nontrivial.add((fmt, pbits, tbits))
                case = {'format': fmt, 'shape': [R, C], 'declared': P, 'true_nonzeros': T,
                        'expected_uncovered': want, 'reported_uncovered': got, 'error': err}
                if len(samples) < 3 and want:
                    samples.append(case)
                if got != want or not thr_ok:
                    if len(failures) < 20:
                        failures.append(case)
                    else:
                        failures.append(None)
    return {'evaluations': evaluations, 'distinct_nontrivial': len(nontrivial),
            'failures': [f for f in failures if f], 'n_failures': len(failures), 'samples': samples}


if __name__ == '__main__':
    R, C = int(sys.argv[1]), int(sys.argv[2])
    fmts = sys.argv[3].split(',') if len(sys.argv) > 3 else ['rowscols', 'coo', 'csr', 'csc', 'diagonal']
    print(json.dumps(run(R, C, fmts)))
