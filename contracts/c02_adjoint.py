"""C02 — forward and reverse linear operators are exact adjoints (kernel level).

Every kernel has a ghost matrix M.  The forward contract says  res += M v, the reverse contract says
v += M^T res with THE SAME coefficients (read off the same array), each with a full frame; the
identity <w, M v> = <M^T w, v> for such pairs is the Lean lemma adjoint_exchange / coo_adjoint_ind /
transfer_adjoint in lean/OmLemmas.lean (exchange of finite sums)."""
from pyvc.spec import *   # noqa

SJ = 'openmdao/jacobians/subjac.py'
DT = 'openmdao/vectors/default_transfer.py'
VEC_INL = {'get_slice', 'asarray', '_get_data', 'set_val', 'iadd'}


def vecs():
    return dict(d_inputs=Vec('ni'), d_outputs=Vec('no'), d_residuals=Vec('nr'))


SL = ['c0 + c <= (ni if %s else no)', 'r0 + r <= nr']


def frame_other(vec, n, lo, ln):
    return 'all(implies(not (%s <= i and i < %s + %s), %s._data[i] == old(%s._data[i])) for i in range(%s))' % (lo, lo, ln, vec, vec, n)



def native_subjac(kind):
    """Real sub-jacobian object built by the real constructor + light real vectors."""
    def build(vals, np, om):
        from pyvc.native_helpers import A, light_vector
        from openmdao.jacobians import subjac as SJm
        sv = vals['self']
        rs, cs = sv['row_slice'], sv['col_slice']
        r0, r1, c0, c1 = int(rs.start), int(rs.stop), int(cs.start), int(cs.stop)
        val = A(sv['info']['val'], float)
        info = {'rows': None, 'cols': None, 'val': val, 'diagonal': False, 'dependent': True}
        if kind == 'dense':
            cls, info['shape'] = SJm.DenseSubjac, val.shape
            r, c = val.shape
            sizes = dict(r=r, c=c)
        elif kind == 'coo':
            r, c = int(sv['nrows']), int(sv['parent_ncols'])
            cls, info['shape'] = SJm.OMCOOSubjac, (r, c)
            info['rows'], info['cols'] = A(sv['rows'], int), A(sv['cols'], int)
            sizes = dict(r=r, c=c, nnz=len(val))
        else:
            r = len(val)
            cls, info['shape'], info['diagonal'] = SJm.DiagonalSubjac, (r, r), True
            sizes = dict(r=r)
        obj = cls(('y', 'x'), info, slice(r0, r1), slice(c0, c1), True, np.dtype(float))
        kw = dict(self=obj, randgen=None)
        for nm, sz in (('d_inputs', 'ni'), ('d_outputs', 'no'), ('d_residuals', 'nr')):
            kw[nm] = light_vector(A(vals[nm]['_data'], float))
            sizes[sz] = len(kw[nm]._data)
        sizes.update(r0=r0, r1=r1, c0=c0, c1=c1)
        return kw, sizes
    return build


def sample_subjac(kind, which):
    def samp(rng):
        from pyvc.sample import frac
        r, c = rng.randint(1, 3), rng.randint(1, 3)
        if kind == 'diag':
            c = r
        r0, c0 = rng.randint(0, 2), rng.randint(0, 2)
        nr = r0 + r + rng.randint(0, 1)
        nwrt = c0 + c + rng.randint(0, 1)
        nother = rng.randint(0, 3)

        def arr(n, shape=None):
            return {'__arr__': [frac(rng) for _ in range(n)], 'shape': shape or [n], 'dtype': 'real'}

        def vec(n):
            return {'__obj__': 'DefaultVector', 'id': rng.randint(10, 10 ** 6), 'attrs': {'_data': arr(n), '_under_complex_step': False}}
        attrs = {'_in_view': None, '_out_view': None, '_res_view': None,
                 'row_slice': {'__slice__': [r0, r0 + r, None]}, 'col_slice': {'__slice__': [c0, c0 + c, None]}}
        if kind == 'dense':
            cls, attrs['info'] = 'DenseSubjac', {'__dict__': [['val', arr(r * c, [r, c])]]}
        elif kind == 'coo':
            # nnz == ncols with repeated columns is the interesting corner (scatter-add vs fancy +=)
            nnz = rng.choice([0, 1, 2, c, c, r * c, 5])
            cls, attrs['info'] = 'OMCOOSubjac', {'__dict__': [['val', arr(nnz)]]}
            attrs['rows'] = {'__arr__': [rng.randrange(r) for _ in range(nnz)], 'shape': [nnz], 'dtype': 'int'}
            attrs['cols'] = {'__arr__': [rng.randrange(c) for _ in range(nnz)], 'shape': [nnz], 'dtype': 'int'}
            attrs['nrows'], attrs['parent_ncols'] = r, c
        else:
            cls, attrs['info'] = 'DiagonalSubjac', {'__dict__': [['val', arr(r)]]}
        return {'self': {'__obj__': cls, 'id': 1, 'attrs': attrs}, 'randgen': None,
                'd_inputs': vec(nwrt if which == 'input' else nother), 'd_outputs': vec(nwrt if which == 'output' else nother),
                'd_residuals': vec(nr)}
    return samp


# ---------------------------------------------------------------------------------------------
# dense sub-jacobian: M[i, j] = val[i, j]
def dense_self():
    return Obj('DenseSubjac', info=DictT({'val': Arr('r', 'c')}), _in_view=None, _out_view=None, _res_view=None,
               row_slice=SliceT('r0', 'r1'), col_slice=SliceT('c0', 'c1'))


for which, vec, n in (('input', 'd_inputs', 'ni'), ('output', 'd_outputs', 'no')):
    req = ['r1 == r0 + r and r1 <= nr', 'c1 == c0 + c and c1 <= %s' % n]
    contract(SJ + '::Subjac._apply_fwd_' + which, ['C02', 'C11'], dict(self=dense_self(), randgen=None, **vecs()),
             requires=req,
             ensures=['all(approx(d_residuals._data[r0 + i], old(d_residuals._data[r0 + i]) + Sum(c, lambda j: self.info["val"][i, j] * %s._data[c0 + j])) for i in range(r))' % vec,
                      frame_other('d_residuals', 'nr', 'r0', 'r')],
             modifies=['d_residuals._data', 'self._in_view', 'self._out_view', 'self._res_view'], inline=VEC_INL,
             name=SJ + '::Subjac._apply_fwd_%s[dense]' % which, native=native_subjac('dense'), sampler=sample_subjac('dense', which),
             canaries=[('forward product uses the transpose', ('self._res_view += val @ self._%s_view' % ('in' if which == 'input' else 'out'), 'self._res_view += val.T @ self._%s_view' % ('in' if which == 'input' else 'out')), 'post')] if which == 'input' else [])
    contract(SJ + '::Subjac._apply_rev_' + which, ['C02', 'C11'], dict(self=dense_self(), randgen=None, **vecs()),
             requires=req,
             ensures=['all(approx(%s._data[c0 + j], old(%s._data[c0 + j]) + Sum(r, lambda i: self.info["val"][i, j] * d_residuals._data[r0 + i])) for j in range(c))' % (vec, vec),
                      frame_other(vec, n, 'c0', 'c')],
             modifies=[vec + '._data', 'self._in_view', 'self._out_view', 'self._res_view'], inline=VEC_INL,
             name=SJ + '::Subjac._apply_rev_%s[dense]' % which, native=native_subjac('dense'), sampler=sample_subjac('dense', which),
             canaries=[('reverse product forgets the transpose', ("val = self.info['val'].T if randgen is None", "val = self.info['val'] if randgen is None"), 'shape')] if which == 'input' else [])


# ---------------------------------------------------------------------------------------------
# rows/cols sub-jacobian (duplicates allowed): M[i, j] = sum_k [rows_k = i and cols_k = j] val_k
def coo_self():
    return Obj('OMCOOSubjac', info=DictT({'val': Arr('nnz')}), rows=Arr('nnz', dtype='int'), cols=Arr('nnz', dtype='int'),
               nrows=Size('r'), parent_ncols=Size('c'), _in_view=None, _out_view=None, _res_view=None,
               row_slice=SliceT('r0', 'r1'), col_slice=SliceT('c0', 'c1'))


INB = ['all(0 <= self.rows[k] and self.rows[k] < r and 0 <= self.cols[k] and self.cols[k] < c for k in range(nnz))']
for which, vec, n in (('input', 'd_inputs', 'ni'), ('output', 'd_outputs', 'no')):
    req = ['r1 == r0 + r and r1 <= nr', 'c1 == c0 + c and c1 <= %s' % n] + INB
    contract(SJ + '::OMCOOSubjac._apply_fwd_' + which, ['C02', 'C11'], dict(self=coo_self(), randgen=None, **vecs()),
             requires=req,
             ensures=['all(approx(d_residuals._data[r0 + i], old(d_residuals._data[r0 + i]) + Sum(nnz, lambda k: ite(self.rows[k] == i, %s._data[c0 + self.cols[k]] * self.info["val"][k], 0))) for i in range(r))' % vec,
                      frame_other('d_residuals', 'nr', 'r0', 'r')],
             modifies=['d_residuals._data', 'self._in_view', 'self._out_view', 'self._res_view'], inline=VEC_INL,
             name=SJ + '::OMCOOSubjac._apply_fwd_%s' % which, native=native_subjac('coo'), sampler=sample_subjac('coo', which),
             canaries=[('rows and cols swapped in the forward product', ('bincount(self.rows, self._in_view[self.cols] * val, minlength=self.nrows)', 'bincount(self.cols, self._in_view[self.rows] * val, minlength=self.nrows)'), 'post')] if which == 'input' else [])
    contract(SJ + '::OMCOOSubjac._apply_rev_' + which, ['C02', 'C11'], dict(self=coo_self(), randgen=None, **vecs()),
             requires=req,
             ensures=['all(approx(%s._data[c0 + j], old(%s._data[c0 + j]) + Sum(nnz, lambda k: ite(self.cols[k] == j, d_residuals._data[r0 + self.rows[k]] * self.info["val"][k], 0))) for j in range(c))' % (vec, vec),
                      frame_other(vec, n, 'c0', 'c')],
             modifies=[vec + '._data', 'self._in_view', 'self._out_view', 'self._res_view'], inline=VEC_INL,
             name=SJ + '::OMCOOSubjac._apply_rev_%s' % which, native=native_subjac('coo'), sampler=sample_subjac('coo', which),
             canaries=[('reverse product scatters by rows', ('bincount(self.cols, self._res_view[self.rows] * val,\n                                  minlength=self.parent_ncols)', 'bincount(self.rows, self._res_view[self.rows] * val,\n                                  minlength=self.parent_ncols)'), 'post')] if which == 'input' else [])


# ---------------------------------------------------------------------------------------------
# diagonal sub-jacobian: M = diag(val)
def diag_self():
    return Obj('DiagonalSubjac', info=DictT({'val': Arr('r')}), _in_view=None, _out_view=None, _res_view=None,
               row_slice=SliceT('r0', 'r1'), col_slice=SliceT('c0', 'c1'))


for which, vec, n in (('input', 'd_inputs', 'ni'), ('output', 'd_outputs', 'no')):
    req = ['r1 == r0 + r and r1 <= nr', 'c1 == c0 + r and c1 <= %s' % n]
    contract(SJ + '::DiagonalSubjac._apply_fwd_' + which, ['C02', 'C11'], dict(self=diag_self(), randgen=None, **vecs()),
             requires=req,
             ensures=['all(approx(d_residuals._data[r0 + i], old(d_residuals._data[r0 + i]) + self.info["val"][i] * %s._data[c0 + i]) for i in range(r))' % vec,
                      frame_other('d_residuals', 'nr', 'r0', 'r')],
             modifies=['d_residuals._data', 'self._in_view', 'self._out_view', 'self._res_view'], inline=VEC_INL,
             name=SJ + '::DiagonalSubjac._apply_fwd_%s' % which, native=native_subjac('diag'), sampler=sample_subjac('diag', which))
    contract(SJ + '::DiagonalSubjac._apply_rev_' + which, ['C02', 'C11'], dict(self=diag_self(), randgen=None, **vecs()),
             requires=req,
             ensures=['all(approx(%s._data[c0 + i], old(%s._data[c0 + i]) + self.info["val"][i] * d_residuals._data[r0 + i]) for i in range(r))' % (vec, vec),
                      frame_other(vec, n, 'c0', 'r')],
             modifies=[vec + '._data', 'self._in_view', 'self._out_view', 'self._res_view'], inline=VEC_INL,
             name=SJ + '::DiagonalSubjac._apply_rev_%s' % which, native=native_subjac('diag'), sampler=sample_subjac('diag', which),
             canaries=[('reverse diagonal product assigns instead of accumulating', ('self._in_view += self._res_view * val', 'self._in_view[:] = self._res_view * val'), 'post')] if which == 'input' else [])


# ---------------------------------------------------------------------------------------------
# data transfer: T[i, j] = exists k. in_inds[k] = i and out_inds[k] = j
def transfer_self():
    return Obj('DefaultTransfer', _in_inds=Arr('m', dtype='int'), _out_inds=Arr('m', dtype='int'))


TREQ = ['all(0 <= self._in_inds[k] and self._in_inds[k] < ni and 0 <= self._out_inds[k] and self._out_inds[k] < no for k in range(m))',
        # each input entry has exactly one source (established by _setup_transfers)
        'all(all(implies(k1 != k2, self._in_inds[k1] != self._in_inds[k2]) for k2 in range(m)) for k1 in range(m))']

contract(DT + '::DefaultTransfer._transfer', ['C02', 'C04'], dict(self=transfer_self(), in_vec=Vec('ni'), out_vec=Vec('no'), mode='fwd'),
         requires=TREQ,
         ensures=['all(in_vec._data[self._in_inds[k]] == out_vec._data[self._out_inds[k]] for k in range(m))',
                  'all(implies(all(self._in_inds[k] != i for k in range(m)), in_vec._data[i] == old(in_vec._data[i])) for i in range(ni))'],
         modifies=['in_vec._data'], inline=VEC_INL, name=DT + '::DefaultTransfer._transfer[fwd]',
         canaries=[('gathered with the input indices', ('out_vec.asarray()[self._out_inds.flat]', 'out_vec.asarray()[self._in_inds.flat]'), 'post')])

contract(DT + '::DefaultTransfer._transfer', ['C02'], dict(self=transfer_self(), in_vec=Vec('ni'), out_vec=Vec('no'), mode='rev'),
         requires=TREQ,
         ensures=['all(approx(out_vec._data[j], old(out_vec._data[j]) + Sum(m, lambda k: ite(self._out_inds[k] == j, in_vec._data[self._in_inds[k]], 0))) for j in range(no))'],
         modifies=['out_vec._data'], inline=VEC_INL, name=DT + '::DefaultTransfer._transfer[rev]',
         canaries=[('reverse transfer overwrites instead of accumulating', ('out_vec.iadd(np.bincount(', 'out_vec.set_val(np.bincount('), 'post')])


# ---------------------------------------------------------------------------------------------
# jacobian level: ExplicitDictionaryJacobian._apply = (-I on outputs) + sum of the selected
# sub-jacobian kernels; fwd and rev select the same key set
DJ = 'openmdao/jacobians/dictionary_jacobian.py'


def dsub(rs, cs, R, C):
    return Obj('DenseSubjac', info=DictT({'val': Arr(R, C)}), _in_view=None, _out_view=None, _res_view=None,
               row_slice=SliceT(rs[0], rs[1]), col_slice=SliceT(cs[0], cs[1]),
               apply_fwd=BoundTo('_apply_fwd_input'), apply_rev=BoundTo('_apply_rev_input'))


def names_vec(size, names):
    return Obj('DefaultVector', _data=Arr(size), _under_complex_step=False, _names=names)


SUB1, SUB2 = "self._subjacs[('y', 'x1')]", "self._subjacs[('y', 'x2')]"
JREQ = ['r1 == r0 + r and r1 <= nr', 'c1 == c0 + c and c1 <= ni', 'e1 == e0 + e and e1 <= ni', 'c1 <= e0 or e1 <= c0', 'nr == no']
for mode in ('fwd', 'rev'):
    for inp in (('x1', 'x2'), ('x1',), ()):
        for has_out in (True, False):
            params = dict(self=Obj('ExplicitDictionaryJacobian', _randgen=None,
                                   _subjacs=DictT({('y', 'x1'): dsub(('r0', 'r1'), ('c0', 'c1'), 'r', 'c'),
                                                   ('y', 'x2'): dsub(('r0', 'r1'), ('e0', 'e1'), 'r', 'e')})),
                          system=OpaqueT('system'),
                          d_inputs=names_vec('ni', set(inp)), d_outputs=names_vec('no', {'y'} if has_out else set()),
                          d_residuals=names_vec('nr', {'y'}), mode=mode)
            S1 = 'Sum(c, lambda j: %s.info["val"][i, j] * d_inputs._data[c0 + j])' % SUB1 if 'x1' in inp else '0'
            S2 = 'Sum(e, lambda j: %s.info["val"][i, j] * d_inputs._data[e0 + j])' % SUB2 if 'x2' in inp else '0'
            if mode == 'fwd':
                ens = ['all(approx(d_residuals._data[r0 + i], old(d_residuals._data[r0 + i]) - %s + %s + %s) for i in range(r))' % (
                    'old(d_outputs._data[r0 + i])' if has_out else '0', S1, S2),
                    'all(implies(not (r0 <= i and i < r1), d_residuals._data[i] == old(d_residuals._data[i]) - %s) for i in range(nr))' % ('d_outputs._data[i]' if has_out else '0')]
                mods = ['d_residuals._data']
            else:
                ens = ['all(approx(d_outputs._data[i], old(d_outputs._data[i]) - %s) for i in range(no))' % ('d_residuals._data[i]' if has_out else '0')]
                if 'x1' in inp:
                    ens.append('all(approx(d_inputs._data[c0 + j], old(d_inputs._data[c0 + j]) + Sum(r, lambda i: %s.info["val"][i, j] * d_residuals._data[r0 + i])) for j in range(c))' % SUB1)
                if 'x2' in inp:
                    ens.append('all(approx(d_inputs._data[e0 + j], old(d_inputs._data[e0 + j]) + Sum(r, lambda i: %s.info["val"][i, j] * d_residuals._data[r0 + i])) for j in range(e))' % SUB2)
                ens.append('all(implies(not (%s) and not (%s), d_inputs._data[i] == old(d_inputs._data[i])) for i in range(ni))' % (
                    'c0 <= i and i < c1' if 'x1' in inp else 'False', 'e0 <= i and i < e1' if 'x2' in inp else 'False'))
                mods = ['d_outputs._data', 'd_inputs._data']
            contract(DJ + '::ExplicitDictionaryJacobian._apply', ['C02', 'C11'], params, requires=JREQ, ensures=ens,
                     modifies=mods + [SUB1 + '._in_view', SUB1 + '._res_view', SUB1 + '._out_view', SUB2 + '._in_view', SUB2 + '._res_view', SUB2 + '._out_view'],
                     inline={'asarray'}, defs={'canary_timeout_ms': 30000},
                     assumed={'with system._unscaled_context': (Assumed(), Assumed()),
                              'self._get_subjacs': Assumed(returns_expr='self._subjacs', note='returns self._subjacs (built in setup)')},
                     name=DJ + '::ExplicitDictionaryJacobian._apply[%s,inputs=%s,outputs=%s]' % (mode, '+'.join(inp) or 'none', has_out),
                     canaries=([('-I block added instead of subtracted', ('dresids -= d_outputs.asarray()', 'dresids += d_outputs.asarray()'), 'post')]
                               if (mode, inp, has_out) == ('fwd', ('x1', 'x2'), True) else
                               ([('reverse mode skips the sub-jacobians', ('subjac.apply_rev(d_inputs, d_outputs, d_residuals, randgen)', 'pass'), 'post')]
                                if (mode, inp, has_out) == ('rev', ('x1', 'x2'), True) else [])))


# ---------------------------------------------------------------------------------------------
# DictionaryJacobian._apply (implicit components / groups, single process): the residual rows of 'y' get
#   J_ys d_outputs[s] + J_yx d_inputs[x]   in fwd mode, and d_outputs[s] += J_ys^T d_res, d_inputs[x] += J_yx^T d_res
# in rev mode, over the SAME key set (a key is skipped in both modes exactly when its wrt or of variable is not in the
# vectors' name sets).
def dsub2(rs, cs, R, C, which):
    return Obj('DenseSubjac', info=DictT({'val': Arr(R, C)}), _in_view=None, _out_view=None, _res_view=None,
               row_slice=SliceT(rs[0], rs[1]), col_slice=SliceT(cs[0], cs[1]),
               apply_fwd=BoundTo('_apply_fwd_' + which), apply_rev=BoundTo('_apply_rev_' + which))


SUBS, SUBX = "self._subjacs[('y', 's')]", "self._subjacs[('y', 'x')]"
IREQ = ['r1 == r0 + r and r1 <= nr', 'c1 == c0 + c and c1 <= no', 'e1 == e0 + e and e1 <= ni']
for mode in ('fwd', 'rev'):
    for has_s, has_x, has_y in ((True, True, True), (True, False, True), (False, True, True), (True, True, False)):
        params = dict(self=Obj('DictionaryJacobian', _randgen=None, _has_children=False,
                               _subjacs=DictT({('y', 's'): dsub2(('r0', 'r1'), ('c0', 'c1'), 'r', 'c', 'output'),
                                               ('y', 'x'): dsub2(('r0', 'r1'), ('e0', 'e1'), 'r', 'e', 'input')})),
                      system=OpaqueT('system'),
                      d_inputs=names_vec('ni', {'x'} if has_x else set()), d_outputs=names_vec('no', {'s'} if has_s else set()),
                      d_residuals=names_vec('nr', {'y'} if has_y else set()), mode=mode)
        TS = 'Sum(c, lambda j: %s.info["val"][i, j] * d_outputs._data[c0 + j])' % SUBS if (has_s and has_y) else '0'
        TX = 'Sum(e, lambda j: %s.info["val"][i, j] * d_inputs._data[e0 + j])' % SUBX if (has_x and has_y) else '0'
        if mode == 'fwd':
            ens = ['all(approx(d_residuals._data[r0 + i], old(d_residuals._data[r0 + i]) + %s + %s) for i in range(r))' % (TS, TX),
                   'all(implies(not (r0 <= i and i < r1), d_residuals._data[i] == old(d_residuals._data[i])) for i in range(nr))']
            mods = ['d_residuals._data']
        else:
            ens = []
            if has_s and has_y:
                ens.append('all(approx(d_outputs._data[c0 + j], old(d_outputs._data[c0 + j]) + Sum(r, lambda i: %s.info["val"][i, j] * d_residuals._data[r0 + i])) for j in range(c))' % SUBS)
            ens.append('all(implies(not (%s), d_outputs._data[i] == old(d_outputs._data[i])) for i in range(no))' % ('c0 <= i and i < c1' if (has_s and has_y) else 'False'))
            if has_x and has_y:
                ens.append('all(approx(d_inputs._data[e0 + j], old(d_inputs._data[e0 + j]) + Sum(r, lambda i: %s.info["val"][i, j] * d_residuals._data[r0 + i])) for j in range(e))' % SUBX)
            ens.append('all(implies(not (%s), d_inputs._data[i] == old(d_inputs._data[i])) for i in range(ni))' % ('e0 <= i and i < e1' if (has_x and has_y) else 'False'))
            mods = ['d_outputs._data', 'd_inputs._data']
        contract(DJ + '::DictionaryJacobian._apply', ['C02', 'C11'], params, requires=IREQ, ensures=ens,
                 modifies=mods + [SUBS + '._in_view', SUBS + '._res_view', SUBS + '._out_view', SUBX + '._in_view', SUBX + '._res_view', SUBX + '._out_view'],
                 inline={'asarray'},
                 assumed={'with system._unscaled_context': (Assumed(), Assumed()),
                          'self._get_subjacs': Assumed(returns_expr='self._subjacs', note='returns self._subjacs (built in setup)'),
                          'self._get_ordered_subjac_keys': Assumed(returns_expr="[('y', 's'), ('y', 'x')]", note='the keys of self._subjacs in a fixed order'),
                          'system._get_subjac_owners': Assumed(returns_expr='{}', note='single process: no key has a remote owner'),
                          'abs_resids': Assumed(returns=OpaqueT('view'), note='a view of the variable (only tested against None here)'),
                          'abs_outs': Assumed(returns=OpaqueT('view'), note='a view of the variable (only tested against None here)'),
                          'abs_ins': Assumed(returns=OpaqueT('view'), note='a view of the variable (only tested against None here)')},
                 name=DJ + '::DictionaryJacobian._apply[%s,outputs=%s,inputs=%s,residuals=%s]' % (mode, has_s, has_x, has_y),
                 canaries=([('reverse mode skips the sub-jacobians', ('subjacs[abs_key].apply_rev(d_inputs, d_outputs, d_residuals, randgen)', 'pass'), 'post')]
                           if (mode, has_s, has_x, has_y) == ('rev', True, True, True) else
                           [('forward mode skips keys whose wrt variable is an input', ('elif other_name in d_inp_names:\n                    wrtvec = abs_ins(other_name)', 'elif False:\n                    wrtvec = abs_ins(other_name)'), 'post')]
                           if (mode, has_s, has_x, has_y) == ('fwd', True, True, True) else []))
