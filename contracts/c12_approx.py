"""C12 — FD approximations are faithful (exact on the polynomial degree of the scheme) and
side-effect free."""
from pyvc.spec import *   # noqa

FD = 'openmdao/approximation_schemes/finite_difference.py'
VEC_INL = {'asarray', 'set_val', 'iadd'}


def SUMJ(expr):
    return 'sum(%s for j in range(len(result[1])))' % expr


SYS_FD = Obj('System', msginfo=OpaqueT('msginfo'),
             _outputs=Obj('Vector', _contains_abs=OpaqueT('c1'), _abs_get_val=OpaqueT('g1')),
             _inputs=Obj('Vector', _contains_abs=OpaqueT('c2'), _abs_get_val=OpaqueT('g2')))

contract(FD + '::FiniteDifference._get_approx_data', ['C12'],
         dict(self=Obj('FiniteDifference'), system=SYS_FD, wrt='x',
              meta=DictT({'form': OneOf('forward', 'backward', 'central'), 'order': OneOf(1, 2),
                          'step': Real(), 'step_calc': OneOf('abs', 'rel', 'rel_avg', 'rel_legacy'),
                          'minimum_step': Real()})),
         requires=['meta["step"] > 0', 'meta["minimum_step"] > 0'],
         raises_iff={'ValueError': "(meta['form'] == 'central') != (meta['order'] == 2)"},
         ensures=[
             # consistency (exactness on affine functions):  c0 + sum c_j = 0,  sum c_j d_j = 1
             'len(result[0]) == len(result[1])',
             'approx(result[2] + %s, 0)' % SUMJ('result[1][j]'),
             'approx(%s, 1)' % SUMJ('result[1][j] * result[0][j]'),
             # central scheme is second order: exact on quadratics
             "implies(meta['form'] == 'central', approx(%s, 0))" % SUMJ('result[1][j] * result[0][j] * result[0][j]'),
             # every perturbation is a non-zero multiple of a positive step
             'all(result[0][j] != 0 for j in range(len(result[0])))'],
         modifies=[], inline={'_generate_fd_coeff'},
         assumed={'system._outputs._contains_abs': Assumed(returns=Bool()), 'system._inputs._contains_abs': Assumed(returns=Bool()),
                  'system._outputs._abs_get_val': Assumed(returns=Arr('m')), 'system._inputs._abs_get_val': Assumed(returns=Arr('m')),
                  'np.linalg.norm': Assumed(returns=Real(), ensures=['result >= 0'])},
         canaries=[('backward coefficient sign', ("coeffs=np.array([-1.0]),\n                                current_coeff=1.0)", "coeffs=np.array([1.0]),\n                                current_coeff=1.0)"), 'post', FD + '::_generate_fd_coeff'),
                   ('central weights not halved', ('coeffs=np.array([0.5, -0.5])', 'coeffs=np.array([1.0, -1.0])'), 'post', FD + '::_generate_fd_coeff'),
                   ('coefficients multiplied by the step', ('coeffs = fd_form.coeffs / step', 'coeffs = fd_form.coeffs * step'), 'post')])


# step_calc='rel_element': one step PER ELEMENT of wrt (|x_e| * step, at least minimum_step); deltas and coefficients are
# (points x elements) arrays and the consistency conditions hold element by element
SUMK = lambda expr: 'sum(%s for j in range(len(result[1])))' % expr
NE = '(1 if is_scalar(result[2]) else len(result[2]))'          # (wrt not local to this system: one scalar step)
C0E = '(result[2] if is_scalar(result[2]) else result[2][e])'
contract(FD + '::FiniteDifference._get_approx_data', ['C12'],
         dict(self=Obj('FiniteDifference'), system=SYS_FD, wrt='x',
              meta=DictT({'form': OneOf('forward', 'backward', 'central'), 'order': OneOf(1, 2),
                          'step': Real(), 'step_calc': 'rel_element', 'minimum_step': Real()})),
         requires=['meta["step"] > 0', 'meta["minimum_step"] > 0'],
         raises_iff={'ValueError': "(meta['form'] == 'central') != (meta['order'] == 2)"},
         ensures=['len(result[0]) == len(result[1])',
                  'all(approx(%s + %s, 0) for e in range(%s))' % (C0E, SUMK('result[1][j, e]'), NE),
                  'all(approx(%s, 1) for e in range(%s))' % (SUMK('result[1][j, e] * result[0][j, e]'), NE),
                  "implies(meta['form'] == 'central', all(approx(%s, 0) for e in range(%s)))" % (SUMK('result[1][j, e] * result[0][j, e] * result[0][j, e]'), NE),
                  'all(all(result[0][j, e] != 0 for e in range(%s)) for j in range(len(result[0])))' % NE],
         modifies=[], inline={'_generate_fd_coeff'},
         assumed={'system._outputs._contains_abs': Assumed(returns=Bool()), 'system._inputs._contains_abs': Assumed(returns=Bool()),
                  'system._outputs._abs_get_val': Assumed(returns=Arr('m'), ensures=['len(result) >= 1']),
                  'system._inputs._abs_get_val': Assumed(returns=Arr('m'), ensures=['len(result) >= 1'])},
         name=FD + '::FiniteDifference._get_approx_data[rel_element]',
         canaries=[('element steps below minimum_step are not raised to it', ('step[idx_zero] = minimum_step', 'pass'), 'post')])


# ---------------------------------------------------------------------------------------------
# side-effect freedom: after a sub-point the three vectors hold exactly the saved starting values
def fd_self():
    return Obj('FiniteDifference', _starting_ins=Arr('ni'), _starting_outs=Arr('no'), _starting_resids=Arr('no'),
               _results_tmp=Arr('no'))


def fd_system():
    return Obj('System', _inputs=Vec('ni'), _outputs=Vec('no'), _residuals=Vec('no'))


RUN = {'system.run_apply_nonlinear': Assumed(modifies=['system._residuals._data', 'system._outputs._data'],
                                             note='user apply_nonlinear: may write outputs/residuals, not inputs'),
       'system.run_solve_nonlinear': Assumed(modifies=['system._residuals._data', 'system._outputs._data'])}

contract(FD + '::FiniteDifference._run_sub_point', ['C12'],
         dict(self=fd_self(), system=fd_system(),
              idx_info=ListT(TupleT(Shared('system._inputs'), OneOf(None, Arr('k', dtype='int')))),
              delta=Real(), total=OneOf(False, True)),
         requires=['implies(idx_info[0][1] is not None, all(0 <= idx_info[0][1][j] and idx_info[0][1][j] < ni for j in range(k)))',
                   # index sets handed to the approximation scheme are sets (no duplicates)
                   'implies(idx_info[0][1] is not None, all(all(implies(j1 != j2, idx_info[0][1][j1] != idx_info[0][1][j2]) for j2 in range(k)) for j1 in range(k)))'],
         ensures=['all(system._inputs._data[i] == self._starting_ins[i] for i in range(ni))',
                  'all(system._outputs._data[i] == self._starting_outs[i] for i in range(no))',
                  'all(system._residuals._data[i] == self._starting_resids[i] for i in range(no))',
                  'same_object(result, self._results_tmp)'],
         modifies=['system._inputs._data', 'system._outputs._data', 'system._residuals._data', 'self._results_tmp'],
         assumed=RUN, inline=VEC_INL,
         canaries=[('inputs not restored', ('system._inputs.set_val(self._starting_ins)', 'pass'), 'post')])

contract('verif:contracts/harness.py::fd_sub_point_is_side_effect_free', ['C12'],
         dict(self=fd_self(), system=fd_system(),
              idx_info=ListT(TupleT(Shared('system._inputs'), OneOf(None, Arr('k', dtype='int')))),
              delta=Real(), total=OneOf(False, True)),
         requires=['implies(idx_info[0][1] is not None, all(0 <= idx_info[0][1][j] and idx_info[0][1][j] < ni for j in range(k)))',
                   # index sets handed to the approximation scheme are sets (no duplicates)
                   'implies(idx_info[0][1] is not None, all(all(implies(j1 != j2, idx_info[0][1][j1] != idx_info[0][1][j2]) for j2 in range(k)) for j1 in range(k)))'],
         ensures=['all(system._inputs._data[i] == old(system._inputs._data[i]) for i in range(ni))',
                  'all(system._outputs._data[i] == old(system._outputs._data[i]) for i in range(no))',
                  'all(system._residuals._data[i] == old(system._residuals._data[i]) for i in range(no))'],
         modifies=['self._starting_ins', 'self._starting_outs', 'self._starting_resids', 'self._results_tmp'],
         assumed=RUN, inline=VEC_INL, name='lemma:fd_sub_point_is_side_effect_free')


# ---------------------------------------------------------------------------------------------
# the difference formula itself: result = c0 * f(x) + sum_k c_k * f(x + d_k e)
def sub_ghost(it, env, res):
    from pyvc.interp import snapshot
    it.ctx.ghost['subs'] = list(it.ctx.ghost.get('subs', [])) + [snapshot(res, {})]
    it.ctx.ghost['deltas_used'] = list(it.ctx.ghost.get('deltas_used', [])) + [it.last_assumed_args[2]]


for K in (1, 2):
    contract(FD + '::FiniteDifference._run_point', ['C12'],
             dict(self=Obj('FiniteDifference'), system=Obj('System', _outputs=Vec('no'), _residuals=Vec('no')),
                  idx_info=OpaqueT('idx_info'), data=TupleT(Arr(K), Arr(K), Real()), results_array=Arr('no'),
                  total=OneOf(False, True), loc_idx=0),
             ensures=['all(approx(result[i], data[2] * (system._outputs._data[i] if total else system._residuals._data[i]) + '
                      + ' + '.join("data[1][%d] * ghost('subs')[%d][i]" % (k, k) for k in range(K)) + ') for i in range(no))',
                      'same_object(result, results_array)', "len(ghost('subs')) == %d" % K]
             + ["same_fp(ghost('deltas_used')[%d], data[0][%d])" % (k, k) for k in range(K)],
             modifies=['results_array'], inline={'asarray'},
             assumed={'self._run_sub_point': Assumed(returns=Arr('no'), ghost=sub_ghost,
                                                     note='proved separately: returns f at the perturbed point and restores the vectors')},
             ghost_init={'subs': [], 'deltas_used': []}, name=FD + '::FiniteDifference._run_point[%d-point]' % K,
             canaries=[('sub-point results not weighted', ('                results *= coeff\n', '                results *= 1.0\n'), 'post'),
                       ('current point contribution dropped', ('            results_array *= current_coeff\n        else:', '            results_array *= 0.0\n        else:'), 'post')] if K == 2 else [])


# ---------------------------------------------------------------------------------------------
# complex step: the perturbed entries of the input vector are restored after the point
CS = 'openmdao/approximation_schemes/complex_step.py'


def csvec(size):
    return Obj('DefaultVector', _data=Arr(size, dtype='complex'), _under_complex_step=True)


contract(CS + '::ComplexStep._run_point', ['C12'],
         dict(self=Obj('ComplexStep'), system=Obj('System', _inputs=csvec('ni'), _outputs=csvec('no'), _residuals=csvec('no')),
              idx_info=ListT(TupleT(Shared('system._inputs'), OneOf(None, Arr('k', dtype='int')))),
              delta=Complex(), result_array=Arr('no', dtype='complex'), total=OneOf(False, True)),
         requires=['implies(idx_info[0][1] is not None, all(0 <= idx_info[0][1][j] and idx_info[0][1][j] < ni for j in range(k)))',
                   'implies(idx_info[0][1] is not None, all(all(implies(j1 != j2, idx_info[0][1][j1] != idx_info[0][1][j2]) for j2 in range(k)) for j1 in range(k)))'],
         ensures=['all(system._inputs._data[i] == old(system._inputs._data[i]) for i in range(ni))',
                  'all(result[i] == (system._outputs._data[i] if total else system._residuals._data[i]) for i in range(no))',
                  'same_object(result, result_array)'],
         modifies=['system._outputs._data', 'system._residuals._data', 'result_array'],
         assumed=RUN, inline={'asarray', 'iadd', 'isub'},
         canaries=[('perturbation removed with the wrong sign', ('vec.isub(delta, idxs)', 'vec.iadd(delta, idxs)'), 'post')])
