"""C06 — unit conversion is a consistent affine algebra (PhysicalUnit)."""
from pyvc.spec import *   # noqa

U = 'openmdao/utils/units.py'
NB = 9   # number of base units in the shipped library (checked natively by the bounded tier)


def unit(name):
    return Obj('PhysicalUnit', _names=OpaqueT(name + '_names'), _factor=Real(), _offset=Real(),
               _powers=ListT(*[Int() for _ in range(NB)]))


def wf(u):
    return '%s._factor > 0' % u


def native_units(*names):
    def build(vals, np, om):
        from openmdao.utils.units import PhysicalUnit, NumberDict
        from pyvc.native_helpers import Fl
        kw = {}
        for k, v in vals.items():
            if isinstance(v, dict) and v.get('__cls__') == 'PhysicalUnit':
                kw[k] = PhysicalUnit(NumberDict({k: 1}), Fl(v['_factor']), [int(p) for p in v['_powers']], Fl(v['_offset']))
            elif k.startswith('__'):
                continue
            elif isinstance(v, int):
                kw[k] = v
            else:
                kw[k] = Fl(v)
        return kw, {}
    return build


SAME_DIM = lambda a, b: 'all(%s._powers[k] == %s._powers[k] for k in range(%d))' % (a, b, NB)

contract(U + '::PhysicalUnit.conversion_tuple_to', ['C06'],
         dict(self=unit('a'), other=unit('b'), x=Real()),
         requires=[wf('self'), wf('other')],
         # compatibility (equal dimension vectors) exactly decides whether conversion succeeds
         raises_iff={'TypeError': 'not ' + SAME_DIM('self', 'other')},
         returns=TupleT(Real(), Real()),
         ensures=['result[0] == self._factor / other._factor',
                  'result[1] == self._offset - other._offset * other._factor / self._factor'],
         ensures_check_only=[
             # from the statement: (x + offset) * factor is "x in self units" expressed in other units,
             # i.e. to base units with self's map and back with other's map, for every x
             'approx((x + result[1]) * result[0], ((x + self._offset) * self._factor) / other._factor - other._offset)'],
         modifies=[], native=native_units(), defs={'opaque_arith': True},
         canaries=[('offset term uses the wrong factor ratio', ('other._offset * other._factor / self._factor', 'other._offset * self._factor / other._factor'), 'post'),
                   ('factor inverted', ('factor = self._factor / other._factor', 'factor = other._factor / self._factor'), 'post'),
                   ('dimension check dropped', ('if self._powers != other._powers:', 'if False:'), 'exc')])

contract(U + '::PhysicalUnit.is_compatible', ['C06'], dict(self=unit('a'), other=unit('b')), returns=Bool(),
         ensures=['iff(result, %s)' % SAME_DIM('self', 'other')], modifies=[], native=native_units())

NOOFF = ['self._offset == 0', 'other._offset == 0']
contract(U + '::PhysicalUnit.__mul__', ['C06'], dict(self=unit('a'), other=unit('b')),
         requires=[wf('self'), wf('other')],
         raises_iff={'TypeError': 'self._offset != 0 or other._offset != 0'},
         ensures=['result._factor == self._factor * other._factor', 'result._offset == 0', 'result._factor > 0',
                  'all(result._powers[k] == self._powers[k] + other._powers[k] for k in range(%d))' % NB],
         modifies=[], inline={'PhysicalUnit'}, defs={'opaque_arith': True, 'opaque_classes': {'NumberDict'}}, native=native_units(), returns=unit('r'),
         canaries=[('powers subtracted in a product', ('[a + b for a, b in zip(self._powers, other._powers)]', '[a - b for a, b in zip(self._powers, other._powers)]'), 'post')])

contract(U + '::PhysicalUnit.__div__', ['C06'], dict(self=unit('a'), other=unit('b')),
         requires=[wf('self'), wf('other')],
         raises_iff={'TypeError': 'self._offset != 0 or other._offset != 0'},
         ensures=['result._factor == self._factor / other._factor', 'result._offset == 0', 'result._factor > 0',
                  'all(result._powers[k] == self._powers[k] - other._powers[k] for k in range(%d))' % NB],
         modifies=[], inline={'PhysicalUnit'}, defs={'opaque_arith': True, 'opaque_classes': {'NumberDict'}}, native=native_units(), returns=unit('r'))

contract(U + '::PhysicalUnit.__pow__', ['C06'], dict(self=unit('a'), power=OneOf(0, 1, 2, 3, -1, -2)),
         requires=[wf('self')],
         raises_iff={'TypeError': 'self._offset != 0'},
         ensures=['result._factor == self._factor ** power', 'result._offset == 0',
                  'all(result._powers[k] == self._powers[k] * power for k in range(%d))' % NB],
         modifies=[], inline={'PhysicalUnit'}, defs={'opaque_arith': True, 'opaque_classes': {'NumberDict'}}, native=native_units(), returns=unit('r'),
         canaries=[('powers not multiplied by the exponent', ('[x * power for x in self._powers]', '[x for x in self._powers]'), 'post')])

# ---- algebra lemmas over the conversion contract (harness, modular) -----------------------------
H = 'verif:contracts/harness.py::'
contract(H + 'units_round_trip', ['C06'], dict(a=unit('a'), b=unit('b'), x=Real()),
         requires=[wf('a'), wf('b'), SAME_DIM('a', 'b')],
         ensures=['approx(result, x)'], modifies=[], name='lemma:units_round_trip', native=native_units())
contract(H + 'units_transitive', ['C06'], dict(a=unit('a'), b=unit('b'), c=unit('c'), x=Real()),
         requires=[wf('a'), wf('b'), wf('c'), SAME_DIM('a', 'b'), SAME_DIM('b', 'c')],
         ensures=['approx(result[0], result[1])'], modifies=[], name='lemma:units_transitive', native=native_units())
contract(H + 'units_compat_decides', ['C06'], dict(a=unit('a'), b=unit('b')),
         requires=[wf('a'), wf('b')],
         # compatible <=> conversion does not raise; and the relation is symmetric
         ensures=['result[0] == result[1]', 'result[0] == result[2]'], modifies=[],
         name='lemma:units_compat_decides', native=native_units())
contract(H + 'units_compat_transitive', ['C06'], dict(a=unit('a'), b=unit('b'), c=unit('c')),
         ensures=['implies(result[0] and result[1], result[2])', 'result[3]'], modifies=[],
         name='lemma:units_compat_transitive', native=native_units())
# product / quotient / power: "composite expressions get the factor implied by their parts"
contract(H + 'units_composite_conversion', ['C06'], dict(a=unit('a'), b=unit('b'), c=unit('c'), d=unit('d'), x=Real()),
         requires=[wf('a'), wf('b'), wf('c'), wf('d'), SAME_DIM('a', 'c'), SAME_DIM('b', 'd'),
                   'a._offset == 0 and b._offset == 0 and c._offset == 0 and d._offset == 0'],
         # converting x from a*b to c*d equals converting by the a->c factor and then by the b->d factor
         ensures=['approx(result[0], result[1])'], modifies=[], name='lemma:units_composite_conversion',
         native=native_units())


# ---- string-level API: parsing is an assumed contract (bounded tier checks it on the library) --
def fu_ghost(it, env, res):
    it.ctx.ghost.setdefault('u', [])
    it.ctx.ghost['u'] = list(it.ctx.ghost['u']) + [res]


FIND = {'_find_unit': Assumed(returns=unit('found'), ensures=['result._factor > 0'], ghost=fu_ghost,
                              may_raise=['ValueError'],
                              note='parser: returns the PhysicalUnit denoted by the string (checked on the whole shipped library in the bounded tier)')}
U0, U1 = "ghost('u')[0]", "ghost('u')[1]"
SAME01 = 'all(%s._powers[k] == %s._powers[k] for k in range(%d))' % (U0, U1, NB)

contract(U + '::unit_conversion', ['C06'], dict(old_units='m', new_units='ft'),
         may_raise=['ValueError', 'TypeError'],
         ensures=['result[0] == %s._factor / %s._factor' % (U0, U1),
                  'result[1] == %s._offset - %s._offset * %s._factor / %s._factor' % (U0, U1, U1, U0), SAME01],
         exc_ensures=["implies(raised == 'TypeError', len(ghost('u')) == 2 and not %s)" % SAME01],
         modifies=[], assumed=FIND, ghost_init={'u': []})

contract(U + '::convert_units', ['C06'], dict(val=Real(), old_units=OneOf(None, 'm'), new_units=OneOf(None, 'ft')),
         may_raise=['ValueError', 'TypeError'],
         ensures=['implies(old_units is None or new_units is None, result == val)',
                  'implies(old_units is not None and new_units is not None, '
                  'approx(result, ((val + %s._offset) * %s._factor) / %s._factor - %s._offset))' % (U0, U0, U1, U1)],
         exc_ensures=["implies(raised == 'TypeError', len(ghost('u')) == 2 and not %s)" % SAME01],
         modifies=[], assumed=FIND, ghost_init={'u': []},
         canaries=[('offset added after scaling', ('return (val + offset) * factor', 'return val * factor + offset'), 'post')])

contract(U + '::is_compatible', ['C06'], dict(old_units=OneOf(None, 'm'), new_units=OneOf(None, 'ft')),
         may_raise=['ValueError'],
         ensures=['implies(old_units is None and new_units is None, result == True)',
                  'implies(old_units is not None and new_units is not None, iff(result, %s))' % SAME01],
         modifies=[], assumed=FIND, ghost_init={'u': []}, name=U + '::is_compatible(module)')
