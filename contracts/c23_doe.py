"""C23 — DOEDriver evaluates the model at exactly the generated values (proved); the generators'
designs and bounds are the bounded tier bounded/c23_doe.py."""
from pyvc.spec import *   # noqa

DD = 'openmdao/drivers/doe_driver.py'


def set_ghost(it, env, res):
    # the ACTUAL arguments of the call (not the loop variables)
    a = it.last_assumed_args
    it.ctx.ghost['sets'] = list(it.ctx.ghost.get('sets', [])) + [(a[0], a[1])]
    it.ctx.ghost['ran_at'] = it.ctx.ghost.get('ran_at')


def run_ghost(it, env, res):
    it.ctx.ghost['ran_after'] = len(it.ctx.ghost.get('sets', []))


contract(DD + '::DOEDriver._run_case', ['C23'],
         dict(self=Obj('DOEDriver', iter_count=Int(), recording_options=DictT({'record_derivatives': False}),
                       _metadata=None),
              case=ListT(TupleT('x', Arr('n')), TupleT('y', Real()), TupleT('z', Arr('m')))),
         ensures=[
             # every generated (name, value) pair is assigned exactly once, in order, before the model runs
             "len(ghost('sets')) == 3 and ghost('ran_after') == 3",
             "ghost('sets')[0][0] == 'x' and ghost('sets')[1][0] == 'y' and ghost('sets')[2][0] == 'z'",
             "len(ghost('sets')[0][1]) == n and len(ghost('sets')[2][1]) == m",
             "all(ghost('sets')[0][1][i] == case[0][1][i] for i in range(n))",
             "ghost('sets')[1][1] == case[1][1]",
             "all(ghost('sets')[2][1][i] == case[2][1][i] for i in range(m))"],
         modifies=['self._metadata'], may_raise=[],
         assumed={'self._set_design_var': Assumed(ghost=set_ghost, note='Driver._set_design_var(name, value): assumed to store value (unit/scaling branches: C20 gap)'),
                  'self._run_solve_nonlinear': Assumed(ghost=run_ghost, may_raise=['AnalysisError']),
                  'with RecordingDebugging': (Assumed(), Assumed()),
                  'self._get_name': Assumed(returns=OpaqueT('name')),
                  'traceback.format_exc': Assumed(returns=OpaqueT('tb'))},
         ghost_init={'sets': [], 'ran_after': None},
         canaries=[('array values truncated before assignment', ('self._set_design_var(dv_name, dv_val.flatten())', 'self._set_design_var(dv_name, dv_val.flatten()[:1])'), 'post')])


# ---- per-factor level counts of the pyDOE-based generators (full factorial / generalized subset) ---------------
# "full-factorial designs enumerate exactly the product of the requested levels": the level count requested for a
# design variable is  levels (int) | levels[name] | levels['default'] | 2 , and _get_all_levels must list that
# count once per scalar entry of the variable, in design-variable order — the same function the value table in
# __call__ uses (_get_dv_levels), otherwise design indices and value table disagree.
DG = 'openmdao/drivers/doe_generators.py'
LV = lambda: Int(1, None)
LEVEL_DICTS = OneOf(DictT({'x': LV(), 'y': LV()}), DictT({'x': LV()}), DictT({'y': LV(), 'default': LV()}),
                    DictT({'default': LV()}), DictT({}))
REQ = "(self._levels if is_scalar(self._levels) else (self._levels[%r] if %r in self._levels else (self._levels['default'] if 'default' in self._levels else 2)))"

def _native_levels(vals, np, om):
    from collections import OrderedDict
    from openmdao.drivers.doe_generators import _pyDOE_Generator
    sv = vals['self']
    lv = sv['_levels']
    g = _pyDOE_Generator(levels=(int(lv) if not isinstance(lv, dict) else {k: int(v) for k, v in lv.items()}))
    if '_sizes' in sv:
        g._sizes = OrderedDict((k, int(v)) for k, v in sv['_sizes'].items())
    kw = dict(self=g)
    if 'name' in vals:
        kw['name'] = vals['name']
    return kw, {}


for nm in ('x', 'y'):
    contract(DG + '::_pyDOE_Generator._get_dv_levels', ['C23'],
             dict(self=Obj('_pyDOE_Generator', _levels=OneOf(LV(), LEVEL_DICTS)), name=nm),
             ensures=['result == ' + REQ % (nm, nm)], modifies=[], returns=Int(), native=_native_levels,
             name=DG + '::_pyDOE_Generator._get_dv_levels[%s]' % nm,
             canaries=[('"default" entry ignored', ('levels.get(name, levels.get("default", _LEVELS))', 'levels.get(name, _LEVELS)'), 'post')] if nm == 'x' else [])

contract(DG + '::_pyDOE_Generator._get_all_levels', ['C23'],
         dict(self=Obj('_pyDOE_Generator', _levels=OneOf(LV(), LEVEL_DICTS),
                       _sizes=DictT({'x': OneOf(1, 2, 3), 'y': OneOf(1, 2)}))),
         ensures=["len(result) == self._sizes['x'] + self._sizes['y']",
                  "all(result[i] == (%s if i < self._sizes['x'] else %s) for i in range(self._sizes['x'] + self._sizes['y']))" % (REQ % ('x', 'x'), REQ % ('y', 'y'))],
         modifies=[], name=DG + '::_pyDOE_Generator._get_all_levels', native=_native_levels,
         canaries=[('variable sizes ignored (one factor per variable)', ('v * [self._get_dv_levels(k)]', '[self._get_dv_levels(k)]'), 'post')])
