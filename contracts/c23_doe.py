"""C23 — DOEDriver evaluates the model at exactly the generated values (proved); the generators'
designs and bounds are the bounded tier bounded/c23_doe.py."""
from pyvc.spec import *   # noqa

DD = 'openmdao/drivers/doe_driver.py'


def set_ghost(it, env, res):
    # the ACTUAL arguments of the call (not the loop variables)
    a = it.last_assumed_args
    it.ctx.ghost['sets'] = list(it.ctx.ghost.get('sets', [])) + [(a[0], a[1])]
    it.ctx.ghost['ran_at'] = it.ctx.ghost.get('ran_at')


def run_ghost(it, env, res):
    it.ctx.ghost['ran_after'] = len(it.ctx.ghost.get('sets', []))


contract(DD + '::DOEDriver._run_case', ['C23'],
         dict(self=Obj('DOEDriver', iter_count=Int(), recording_options=DictT({'record_derivatives': False}),
                       _metadata=None),
              case=ListT(TupleT('x', Arr('n')), TupleT('y', Real()), TupleT('z', Arr('m')))),
         ensures=[
             # every generated (name, value) pair is assigned exactly once, in order, before the model runs
             "len(ghost('sets')) == 3 and ghost('ran_after') == 3",
             "ghost('sets')[0][0] == 'x' and ghost('sets')[1][0] == 'y' and ghost('sets')[2][0] == 'z'",
             "len(ghost('sets')[0][1]) == n and len(ghost('sets')[2][1]) == m",
             "all(ghost('sets')[0][1][i] == case[0][1][i] for i in range(n))",
             "ghost('sets')[1][1] == case[1][1]",
             "all(ghost('sets')[2][1][i] == case[2][1][i] for i in range(m))"],
         modifies=['self._metadata'], may_raise=[],
         assumed={'self._set_design_var': Assumed(ghost=set_ghost, note='Driver._set_design_var(name, value): assumed to store value (unit/scaling branches: C20 gap)'),
                  'self._run_solve_nonlinear': Assumed(ghost=run_ghost, may_raise=['AnalysisError']),
                  'with RecordingDebugging': (Assumed(), Assumed()),
                  'self._get_name': Assumed(returns=OpaqueT('name')),
                  'traceback.format_exc': Assumed(returns=OpaqueT('tb'))},
         ghost_init={'sets': [], 'ran_after': None},
         canaries=[('array values truncated before assignment', ('self._set_design_var(dv_name, dv_val.flatten())', 'self._set_design_var(dv_name, dv_val.flatten()[:1])'), 'post')])
