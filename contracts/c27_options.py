"""C27 — option declarations are enforced and temporary values always restored."""
from pyvc.spec import *   # noqa

F = 'openmdao/utils/options_dictionary.py'


def meta_spec(val_name='oldval', **over):
    m = {'val': OpaqueT(val_name), 'values': OneOf(None, OpaqueT('values')), 'types': OneOf(None, OpaqueT('types')),
         'desc': '', 'upper': OneOf(None, Real()), 'lower': OneOf(None, Real()),
         'check_valid': OneOf(None, OpaqueT('cv')), 'has_been_set': True, 'allow_none': OneOf(False, True),
         'recordable': True, 'set_function': None, 'deprecation': None}
    m.update(over)
    return DictT(m)


def valid(M):
    """the declaration, as a predicate on `value` (None with numeric bounds is a TypeError in
    Python, i.e. rejected)"""
    return ("((value is None and {M}['allow_none']) or ("
            "({M}['values'] is None or value in {M}['values']) and "
            "({M}['values'] is not None or {M}['types'] is None or isinstance(value, {M}['types'])) and "
            "({M}['upper'] is None or (value is not None and not exceeds(value, {M}['upper']))) and "
            "({M}['lower'] is None or (value is not None and not below(value, {M}['lower'])))))").format(M=M)


M0 = "self._dict['opt']"
CV = "meta['check_valid']"
EXC = ['ValueError', 'TypeError', 'KeyError', 'RuntimeError']

contract(F + '::OptionsDictionary._assert_valid', ['C27'],
         dict(self=Obj('OptionsDictionary', _dict=DictT({'opt': meta_spec()}), _parent_name=OneOf(None, 'comp')),
              name='opt', value=OneOf(None, Real(), OpaqueT('v'))),
         raises_iff={'*': "not %s or ghost(\"raised_by:meta['check_valid']\")" % valid(M0)}, may_raise=EXC,
         # a value is accepted only after the declared check_valid callback has seen it (None included: allow_none only
         # waives the values / types / bounds tests)
         ensures=["implies(self._dict['opt']['check_valid'] is not None, ghost('cv_called'))"], modifies=[], inline={'_raise'},
         assumed={CV: Assumed(may_raise=['ValueError'], note='user check_valid callback: may reject', ghost=lambda it, env, res: it.ctx.ghost.__setitem__('cv_called', True))},
         ghost_init={"raised_by:meta['check_valid']": False, 'cv_called': False},
         canaries=[('upper bound uses >= instead of >', ('if value > upper:', 'if value >= upper:'), 'exc'),
                   ('allow_none ignored', ("if not (value is None and meta['allow_none']):", "if True:"), 'exc'),
                   ('lower bound check dropped', ('if value < lower:', 'if False:'), 'exc'),
                   ('check_valid skipped for None on an allow_none option', ("        if meta['check_valid'] is not None:", "        if meta['check_valid'] is not None and not (value is None and meta['allow_none']):"), 'post')])


# ---------------------------------------------------------------------------------------------
# __setitem__: succeeds exactly when declared, writable and valid (through the deprecation
# alias); a rejected assignment leaves the previous value
def opts(name_alts, read_only=OneOf(False, True), set_function=None, cache=None):
    d = {'opt': meta_spec(set_function=set_function if set_function is not None else None),
         'old': meta_spec('oldval2', values=None, types=None, upper=None, lower=None, check_valid=None,
                          allow_none=False, deprecation=ListT('msg', OneOf('opt', 'gone', None), OneOf(True, False)))}
    attrs = dict(_dict=DictT(d), _parent_name=None, _read_only=read_only)
    if cache is not None:
        attrs['_context_cache'] = cache
    return Obj('OptionsDictionary', **attrs)


ALIAS = "self._dict['old']['deprecation'][1]"
# the meta that the assignment finally targets
TGT_OK = ("(name == 'opt' or (name == 'old' and (%s is None or %s == 'opt')))" % (ALIAS, ALIAS))
DECLARED = "(name == 'opt' or name == 'old')"
VALID_T = ("(%s if (name == 'opt' or %s == 'opt') else %s)" % (valid(M0), ALIAS, valid("self._dict['old']")))
SUCCESS = "(%s and not self._read_only and %s and %s and not ghost(\"raised_by:meta['check_valid']\"))" % (DECLARED, TGT_OK, VALID_T)
TV = "(self._dict['opt'] if (name == 'opt' or %s == 'opt') else self._dict['old'])" % ALIAS

contract(F + '::OptionsDictionary.__setitem__', ['C27'],
         dict(self=opts(None), name=OneOf('opt', 'old', 'missing'), value=OneOf(None, Real(), OpaqueT('v'))),
         raises_iff={'*': 'not ' + SUCCESS}, may_raise=EXC,
         ensures=["same_object(%s['val'], value)" % TV, "%s['has_been_set'] == True" % TV],
         modifies=["self._dict['opt']['val']", "self._dict['opt']['has_been_set']",
                   "self._dict['old']['val']", "self._dict['old']['has_been_set']",
                   "self._dict['old']['deprecation']"],
         # a rejected assignment leaves every value (only the one-shot deprecation warning flag may flip)
         exc_modifies=["self._dict['old']['deprecation']"],
         exc_ensures=["same_object(self._dict['opt']['val'], old(self._dict['opt']['val']))",
                      "self._dict['opt']['has_been_set'] == old(self._dict['opt']['has_been_set'])"],
         inline={'_raise', '_handle_deprecation', '_assert_valid'},
         assumed={CV: Assumed(may_raise=['ValueError'])},
         ghost_init={"raised_by:meta['check_valid']": False},
         canaries=[('value stored before validation', ("        self._assert_valid(name, value)\n", "        meta['val'] = value\n        self._assert_valid(name, value)\n"), 'frame'),
                   ('read-only flag ignored', ('if self._read_only:', 'if False:'), 'exc'),
                   ('alias validated against the deprecated option', ("name, meta = self._handle_deprecation(name, meta)\n\n        self._assert_valid(name, value)", "name2, meta = self._handle_deprecation(name, meta)\n\n        self._assert_valid(name, value)"), 'exc')],
         split_configs=True)


# ---------------------------------------------------------------------------------------------
# temporary(): every option it changed is restored on exit, normal or exceptional
def temp_opts():
    d = {'a': meta_spec('a0', types=None, check_valid=None, upper=None), 'b': meta_spec('b0', types=None, check_valid=None, upper=None)}
    return Obj('OptionsDictionary', _dict=DictT(d), _parent_name=None, _read_only=False, _context_cache=DictT({}))


RESTORED = ["same_object(self._dict['a']['val'], old(self._dict['a']['val']))",
            "same_object(self._dict['b']['val'], old(self._dict['b']['val']))",
            "len(self._context_cache) == 0"]

def wf(M):
    """data-structure invariant: the stored value satisfies its own declaration (established by
    declare/__setitem__, which validate before storing)"""
    return ("(%s['values'] is None or %s['val'] in %s['values']) and (%s['lower'] is None or not (%s['val'] < %s['lower']))"
            % (M, M, M, M, M, M))


contract(F + '::OptionsDictionary.temporary', ['C27'],
         requires=[wf("self._dict['a']"), wf("self._dict['b']")],
         params=dict(self=temp_opts(), kwargs=OneOf(DictT({'a': Real()}), DictT({'a': Real(), 'b': Real()}), DictT({'b': OneOf(None, Real()), 'a': Real()}))),
         may_raise=EXC + ['BodyError'],
         ensures=RESTORED, exc_ensures=RESTORED,
         modifies=["self._dict['a']['has_been_set']", "self._dict['b']['has_been_set']"],
         inline={'_raise', '_handle_deprecation', '_assert_valid', '__getitem__', '__setitem__'},
         assumed={'yield': Assumed(may_raise=['BodyError'], note='the with-body: arbitrary code that may raise anything')},
         canaries=[('restore skipped for the last option', ('for option in reversed(entered):', 'for option in reversed(entered[:-1]):'), 'post')])


# the same through a DEPRECATED name: 'old' is declared with deprecation=(msg, 'a'); entering and leaving the context
# both resolve the alias, so it is option 'a' that is changed and restored and the entry of 'old' is never written
def temp_opts_alias():
    d = {'a': meta_spec('a0', types=None, check_valid=None, upper=None), 'b': meta_spec('b0', types=None, check_valid=None, upper=None),
         'old': meta_spec('unused', types=None, check_valid=None, upper=None, lower=None, values=None, has_been_set=False, deprecation=ListT('msg', 'a', False))}
    return Obj('OptionsDictionary', _dict=DictT(d), _parent_name=None, _read_only=False, _context_cache=DictT({}))


contract(F + '::OptionsDictionary.temporary', ['C27'],
         requires=[wf("self._dict['a']"), wf("self._dict['b']")],
         params=dict(self=temp_opts_alias(), kwargs=OneOf(DictT({'old': Real()}), DictT({'old': Real(), 'b': Real()}), DictT({'b': Real(), 'old': Real()}))),
         may_raise=EXC + ['BodyError'],
         ensures=RESTORED + ["same_object(self._dict['old']['val'], old(self._dict['old']['val']))"],
         exc_ensures=RESTORED + ["same_object(self._dict['old']['val'], old(self._dict['old']['val']))"],
         modifies=["self._dict['a']['has_been_set']", "self._dict['b']['has_been_set']"],
         inline={'_raise', '_handle_deprecation', '_assert_valid', '__getitem__', '__setitem__'},
         assumed={'yield': Assumed(may_raise=['BodyError'], note='the with-body: arbitrary code that may raise anything')},
         name=F + '::OptionsDictionary.temporary[deprecated alias]', no_sampling=True,
         canaries=[('restore bypasses the alias resolution', ('self[option] = self._context_cache[option].pop()', "self._dict[option]['val'] = self._context_cache[option].pop()"), 'post')])


# ---------------------------------------------------------------------------------------------
# native side: a real OptionsDictionary built from the (model or sampled) declaration
class BodyError(Exception):
    pass


def _num(x):
    from fractions import Fraction
    if isinstance(x, Fraction):
        return float(x)
    return x


def _declare(od, name, meta, default):
    kw = {}
    if meta.get('values') is not None:
        kw['values'] = (1.0, 2.5, -1.0, 'v_ok', default)
    elif meta.get('types') is not None:
        kw['types'] = (float, int, str)
    if meta.get('upper') is not None:
        kw['upper'] = _num(meta['upper'])
    if meta.get('lower') is not None:
        kw['lower'] = _num(meta['lower'])
    if meta.get('check_valid') is not None:
        def cv(nm, value):
            if value == 2.5 or value == 'v_bad':
                raise ValueError('rejected by check_valid')
        kw['check_valid'] = cv
    kw['allow_none'] = bool(meta.get('allow_none'))
    od.declare(name, default=default, **kw)


def _val(v):
    if isinstance(v, dict) and '__opaque__' in v:
        return 'v_ok'
    return _num(v)


def native_temp(vals, np, om):
    from openmdao.utils.options_dictionary import OptionsDictionary
    od = OptionsDictionary()
    d = vals['self']['_dict']
    for nm in ('a', 'b'):
        m = dict(d[nm])
        m['values'] = None
        lo = m.get('lower')
        default = (_num(lo) + 1.0) if lo is not None else 7.0      # a declared default that is valid
        _declare(od, nm, m, default)
    kwargs = {k: _val(v) for k, v in vals['kwargs'].items()}
    raises = bool((vals.get('__ghost__') or {}).get('raised_by:yield', vals.get('__body_raises__', False)))

    def call(fn, kw):
        with fn(kw['self'], **kw['kwargs']):
            if raises:
                raise BodyError()
    return dict(self=od, kwargs=kwargs), {}, call


def temp_sampler(rng):
    from pyvc.sample import frac

    def meta():
        return {'__dict__': [['values', None], ['types', None], ['upper', None],
                             ['lower', rng.choice([None, frac(rng)])], ['check_valid', None],
                             ['allow_none', rng.random() < 0.5]]}
    kw = rng.choice([['a'], ['a', 'b'], ['b', 'a']])
    return {'self': {'__obj__': 'OptionsDictionary', 'id': 0, 'attrs': {'_dict': {'__dict__': [['a', meta()], ['b', meta()]]}}},
            'kwargs': {'__dict__': [[k, rng.choice([None, frac(rng)]) if k == 'b' else frac(rng)] for k in kw]},
            '__body_raises__': rng.random() < 0.4}


def native_set(which):
    def build(vals, np, om):
        from openmdao.utils.options_dictionary import OptionsDictionary
        od = OptionsDictionary()
        d = vals['self']['_dict']
        state = {"raised_by:meta['check_valid']": False, 'cv_called': False}
        m = dict(d['opt'])
        lo, up = m.get('lower'), m.get('upper')
        default = _num(lo) if lo is not None else (_num(up) if up is not None else 7.0)
        if lo is not None and up is not None and _num(lo) > _num(up):
            raise ValueError('inconsistent declaration sampled')
        _declare(od, 'opt', m, default)
        if m.get('check_valid') is not None:
            inner = od._dict['opt']['check_valid']

            def cv(nm, value):
                state['cv_called'] = True
                try:
                    inner(nm, value)
                except Exception:
                    state["raised_by:meta['check_valid']"] = True
                    raise
            od._dict['opt']['check_valid'] = cv
        if 'old' in d:
            dep = d['old']['deprecation']
            alias = dep[1]
            od.declare('old', default=3.0, deprecation=('old is deprecated', alias) if alias else 'old is deprecated')
        if vals['self'].get('_read_only'):
            od._read_only = True
        kw = dict(self=od, name=vals['name'], value=_val2(vals['value']))
        return kw, dict(ghost=lambda nm: state[nm])
    return build


def _val2(v):
    if isinstance(v, dict) and '__opaque__' in v:
        return v.get('pick', 'v_ok')
    return _num(v)


def set_sampler(with_old):
    def samp(rng):
        from pyvc.sample import frac
        lo = rng.choice([None, {'__frac__': [rng.choice([-8, 0, 8]), 8]}])
        up = rng.choice([None, {'__frac__': [rng.choice([8, 16, 24]), 8]}])
        meta = [['values', rng.choice([None, None, {'__opaque__': 'values'}])],
                ['types', rng.choice([None, {'__opaque__': 'types'}])], ['upper', up], ['lower', lo],
                ['check_valid', rng.choice([None, {'__opaque__': 'cv'}])], ['allow_none', rng.random() < 0.5]]
        value = rng.choice([None, frac(rng), frac(rng), {'__frac__': [20, 8]}, {'__opaque__': 'v', 'pick': 'v_ok'},
                            {'__opaque__': 'v', 'pick': 'v_bad'}, {'__opaque__': 'v', 'pick': 'zzz'}])
        dd = [['opt', {'__dict__': meta}]]
        attrs = {'_dict': None, '_read_only': False}
        name = 'opt'
        if with_old:
            dd.append(['old', {'__dict__': [['deprecation', {'__seq__': ['msg', rng.choice(['opt', 'gone', None]), True], 'tuple': False}]]}])
            attrs['_read_only'] = rng.random() < 0.15
            name = rng.choice(['opt', 'opt', 'old', 'missing'])
        attrs['_dict'] = {'__dict__': dd}
        return {'self': {'__obj__': 'OptionsDictionary', 'id': 0, 'attrs': attrs}, 'name': name, 'value': value}
    return samp


for _c in REGISTRY[F + '::OptionsDictionary._assert_valid']:
    _c.native = native_set('assert')
    _c.sampler = set_sampler(False)
for _c in REGISTRY[F + '::OptionsDictionary.__setitem__']:
    _c.native = native_set('set')
    _c.sampler = set_sampler(True)
for _c in REGISTRY[F + '::OptionsDictionary.temporary']:
    if 'alias' in _c.name:
        continue            # (proof only: no native builder for the deprecated-alias configuration)
    _c.native = native_temp
    _c.sampler = temp_sampler
