"""C22 — constraint violation is measured correctly elementwise and in driver units."""
from pyvc.spec import *   # noqa

D = 'openmdao/core/driver.py'


def BND():
    return OneOf(Real(), Arr('n'))


def _cfg_ok(cfg, ps):
    return ps['ctype'].v == 'all' or ps['lintype'].v == 'all'


def driver_spec():
    meta = DictT({'equals': OneOf(None, Real(), Arr('n')), 'lower': BND(), 'upper': BND(),
                  'linear': OneOf(False, True), 'total_scaler': OneOf(None, Real(), Arr('n')),
                  'total_adder': None})
    con_vec = Obj('OptimizerVector', voi_type='constraint', _data=Arr('N'), _driver_scaling=False,
                  _meta=DictT({'c': DictT({'slice': SliceT('a', 'b'), 'size': Size('n')})}))
    return Obj('Driver', _vectors=DictT({'constraint': con_vec}), _cons=DictT({'c': meta}),
               _autoscaler=Obj('Autoscaler', _has_scaling=True,
                               _var_meta=DictT({'constraint': DictT({'c': Shared("self._cons['c']")})})))


C = "self._cons['c']"
VAL = "ghost('model_val')(i)"          # model value of element i as delivered by update_from_model


def el(x):
    return '(%s if is_scalar(%s) else %s[i])' % (x, x, x)


LOW, UPP, EQ = el(C + "['lower']"), el(C + "['upper']"), el(C + "['equals']")
SCL = "(1 if %s['total_scaler'] is None else %s)" % (C, el(C + "['total_scaler']"))
DIST = ('(({v} - {eq}) if {c}[\'equals\'] is not None else '
        '(({v} - {lo}) if {v} < {lo} else (({v} - {up}) if {v} > {up} else 0)))').format(v='old_val(i)', eq=EQ, lo=LOW, up=UPP, c=C)


def upd_ghost(it, env, res):
    # update_from_model delivers arbitrary model values in model units, unscaled
    pass


contract(D + '::Driver.get_constraint_values', ['C22'],
         dict(self=driver_spec(), ctype=OneOf('all', 'eq', 'ineq'), lintype=OneOf('all', 'linear', 'nonlinear'),
              driver_scaling=OneOf(True, False), viol=True),
         requires=['a <= b and b <= N and n == b - a',
                   "implies(%s['equals'] is None, all(%s <= %s for i in range(n)))" % (C, LOW, UPP)],
         ensures=[
             # selected constraints are reported, filtered ones are absent
             "iff('c' in result, (lintype == 'all' or (lintype == 'linear') == bool(%s['linear'])) and "
             "(ctype == 'all' or (ctype == 'eq') == (%s['equals'] is not None)))" % (C, C),
             # signed distance outside the bounds (or from the equality value), zero when satisfied;
             # times the constraint's scaler when driver scaling is requested
             "implies('c' in result, len(result['c']) == n)",
             "implies('c' in result, all(approx(result['c'][i], (%s) * (%s if driver_scaling else 1)) for i in range(n)))" % (
                 DIST.replace('old_val(i)', "ghost('mv')[a + i]"), SCL),
             # the caller owns the reported arrays: a later call (which refills the driver's shared constraint vector) must not
             # change them (Driver._compute_con_viol concatenates the results of two calls)
             "implies('c' in result, not shares_memory(result['c'], self._vectors['constraint']._data))"],
         modifies=["self._vectors['constraint']._data", "self._vectors['constraint']._driver_scaling"],
         inline={'filter_by_meta', '__getitem__', '__setitem__', '__iter__', 'driver_scaling',
                 'apply_constraint_scaling', '_apply_vec_scaling'},
         assumed={'con_vec.update_from_model': Assumed(
             modifies=["self._vectors['constraint']._data"],
             ghost=lambda it, env, res: it.ctx.ghost.__setitem__('mv', __import__('pyvc.interp', fromlist=['snapshot']).snapshot(
                 env['self'].attrs['_vectors']['constraint'].attrs['_data'], {})),
             note='update_from_model(driver_scaling=False) fills the vector with the model values of the constraints (C20 gap)')},
         ghost_init={'mv': None}, config_filter=_cfg_ok, split_configs=True)


def native_driver(vals, np, om):
    from pyvc.native_helpers import A, Fl
    from openmdao.core.driver import Driver

    def cv(v):
        if v is None:
            return None
        if isinstance(v, dict) and '__arr__' in v:
            return A(v)
        return Fl(v)
    meta = vals['self']['_cons']['c']
    sz = vals.get('__sizes__') or {}
    if '__mv__' in vals:
        mv = A(vals['__mv__'])
    else:
        a, b = int(sz['a']), int(sz['b'])
        mv = A(vals['__ghost__']['mv'])[a:b]
    n = len(mv)
    if n == 0:
        raise ValueError('empty constraint')
    p = om.Problem(reports=False)
    p.model.add_subsystem('ivc', om.IndepVarComp('x', np.array(mv, dtype=float)), promotes=['*'])
    p.model.add_subsystem('comp', om.ExecComp(['c = 1.0*x', 'f = sum(x)'], x=np.ones(n), c=np.ones(n)), promotes=['*'])
    p.model.add_design_var('x')
    p.model.add_objective('f')
    kw = {}
    eq, lo, up, s = cv(meta['equals']), cv(meta['lower']), cv(meta['upper']), cv(meta['total_scaler'])
    if eq is not None:
        kw['equals'] = eq
    else:
        kw['lower'], kw['upper'] = lo, up
    if s is not None:
        kw['scaler'] = s
    p.model.add_constraint('c', linear=bool(meta['linear']), **kw)
    p.driver = Driver()
    p.setup()
    p.final_setup()
    p.run_model()
    d = p.driver
    d._keepalive = p
    return (dict(self=d, ctype=vals['ctype'], lintype=vals['lintype'], driver_scaling=bool(vals['driver_scaling']), viol=True),
            dict(n=n, a=0, b=n, N=n, ghost=lambda name: np.array(mv, dtype=float)))


def viol_sampler(rng):
    from pyvc.sample import frac
    n = rng.choice([1, 2, 3])

    def arr():
        return {'__arr__': [frac(rng) for _ in range(n)], 'shape': [n], 'dtype': 'real'}

    def nzarr():
        out = []
        while len(out) < n:
            f = frac(rng)
            if f['__frac__'][0] != 0:
                out.append(f)
        return {'__arr__': out, 'shape': [n], 'dtype': 'real'}
    kind = rng.choice(['eq_s', 'eq_a', 'ineq_s', 'ineq_a'])
    lo = [rng.choice([-16, -8, -4, 0, 4]) for _ in range(n)]
    up = [l + rng.choice([0, 4, 8, 24]) for l in lo]
    meta = {'equals': None, 'lower': {'__frac__': [lo[0], 8]}, 'upper': {'__frac__': [up[0], 8]},
            'linear': rng.random() < 0.3, 'total_adder': None,
            'total_scaler': rng.choice([None, {'__frac__': [rng.choice([-16, 4, 16, 24]), 8]}, nzarr()])}
    if kind == 'eq_s':
        meta['equals'] = frac(rng)
    elif kind == 'eq_a':
        meta['equals'] = arr()
    elif kind == 'ineq_a':
        meta['lower'] = {'__arr__': [{'__frac__': [l, 8]} for l in lo], 'shape': [n], 'dtype': 'real'}
        meta['upper'] = {'__arr__': [{'__frac__': [u, 8]} for u in up], 'shape': [n], 'dtype': 'real'}
    ct, lt = rng.choice([('all', 'all'), ('all', 'all'), ('eq', 'all'), ('ineq', 'all'), ('all', 'linear'), ('all', 'nonlinear')])
    return {'self': {'__obj__': 'Driver', 'id': 0, 'attrs': {'_cons': {'__dict__': [['c', {'__dict__': [[k, v] for k, v in meta.items()]}]]}}},
            'ctype': ct, 'lintype': lt, 'driver_scaling': rng.random() < 0.5, 'viol': True, '__mv__': arr()}


for _c in REGISTRY[D + '::Driver.get_constraint_values']:
    _c.native = native_driver
    _c.sampler = viol_sampler
    _c.canaries = [('reported array is a view of the shared constraint vector', ('con_dict[name] = con_vec[name].copy()', 'con_dict[name] = con_vec[name]'), 'post'),
                   ('lower violation measured from the upper bound', ('np.where(con_val < lower, con_val - lower,', 'np.where(con_val < lower, con_val - upper,'), 'post'),
                   ('satisfied elements keep their value', ('con_val - upper, 0.0))', 'con_val - upper, con_val))'), 'post'), ('driver scaling adds nothing', ('con_val *= scaler', 'con_val *= 1.0'), 'post')]


# ---- Driver._compute_con_viol (find_feasible): the violation vector is [linear violations, nonlinear violations], read
# AFTER the model was run at the design x_new that was handed in ------------------------------------------------------
def _cv_order(tag):
    def g(it, env, res):
        it.ctx.ghost['order'] = list(it.ctx.ghost.get('order', [])) + [tag]
    return g


def _cv_gcv(it, env, res):
    kw = it.last_assumed_kwargs
    tag = 'viol:%s:%s' % (kw.get('lintype'), kw.get('viol'))
    it.ctx.ghost['order'] = list(it.ctx.ghost.get('order', [])) + [tag]
    it.ctx.ghost['scaling_passed'] = list(it.ctx.ghost.get('scaling_passed', [])) + [kw.get('driver_scaling')]
    it.ctx.ghost['ret_' + str(kw.get('lintype'))] = res


contract(D + '::Driver._compute_con_viol', ['C22'],
         dict(self=Obj('Driver', _exc_info=None, iter_count=Int(0, None),
                       _problem=Callable(Obj('Problem', model=Obj('Group', _relevance=OpaqueT('relevance'), comm=OpaqueT('comm')))),
                       _vectors=DictT({'design_var': OpaqueT('dv_vec')}), _cons=OpaqueT('cons')),
              x_new=Arr('nx'), desvar_names=OpaqueT('names'), driver_scaling=OneOf(True, False)),
         ensures=["ghost('order') == ['set_data', 'set_design_vars', 'run', 'viol:linear:True', 'viol:nonlinear:True']",
                  # both reads use the scaling mode the caller asked for
                  "ghost('scaling_passed') == [driver_scaling, driver_scaling]",
                  # linear violations first, then the nonlinear ones, nothing else
                  "len(result) == len(ghost('ret_linear')['a']) + len(ghost('ret_nonlinear')['a'])",
                  "all(result[i] == ghost('ret_linear')['a'][i] for i in range(len(ghost('ret_linear')['a'])))",
                  "all(result[len(ghost('ret_linear')['a']) + i] == ghost('ret_nonlinear')['a'][i] for i in range(len(ghost('ret_nonlinear')['a'])))",
                  'self.iter_count == old(self.iter_count) + 1'],
         modifies=['self.iter_count'], returns=Arr('nr'),
         ghost_init={'order': [], 'scaling_passed': [], 'ret_linear': None, 'ret_nonlinear': None},
         assumed={'dv_vec.set_data': Assumed(ghost=_cv_order('set_data'), requires=['same_object(arg0, x_new)']),
                  'self._set_design_vars': Assumed(ghost=_cv_order('set_design_vars')),
                  'with RecordingDebugging': (Assumed(), Assumed()),
                  'model.comm.Bcast': Assumed(note='MPI broadcast (single process: unchanged)'),
                  'with model._relevance.nonlinear_active': (Assumed(), Assumed()),
                  'self._run_solve_nonlinear': Assumed(ghost=_cv_order('run')),
                  'self._get_name': Assumed(returns=OpaqueT('name')),
                  'self.get_constraint_values': Assumed(returns=DictT({'a': Arr('n1')}), ghost=_cv_gcv,
                                                        note='the contract above (one constraint slice); here only WHICH values are asked for and where they go')},
         name=D + '::Driver._compute_con_viol', defs={'opaque_classes': ['RecordingDebugging']},
         canaries=[('nonlinear violations first', ('list(lin_con_viol_dict.values()) +\n                                   list(nl_con_viol_dict.values())', 'list(nl_con_viol_dict.values()) +\n                                   list(lin_con_viol_dict.values())'), 'post')])
