"""C26 — stock math components compute their formulas and exact partials.

Per component: (1) `compute` (or `apply_nonlinear`) returns the formula the options describe, for every array
length; (2) the partials equal the derivative of THAT computation.  (2) is not a hand-written derivative table:
a lemma driver (contracts/harness.py) runs the real `compute` on dual-number inputs re + eps*d (assumption A3,
the semantics of OpenMDAO's own complex step) and the real `compute_partials` on the real parts, and the
obligation is  eps-part(output) == sum over inputs of partial * d, for an arbitrary direction d."""
from pyvc.spec import *   # noqa

EQ = 'openmdao/components/eq_constraint_comp.py'
DUAL = {'dual': True}


def _decode(v, np, cplx=False, h=1e-40):
    from pyvc.native_helpers import A, Fl
    if isinstance(v, dict) and '__arr__' in v:
        a = A(v, complex if v.get('dtype') == 'complex' else float)
        if a.dtype.kind == 'c':
            a = a.real + 1j * h * a.imag
        return a
    if isinstance(v, dict):
        return {k: _decode(x, np) for k, x in v.items()}
    if v is None or isinstance(v, (bool, str, int)):
        return v
    return Fl(v)


def eq_self(normalize, use_mult):
    return Obj('EQConstraintComp', _output_vars=DictT({'y': DictT({'lhs_name': 'lhs:y', 'rhs_name': 'rhs:y', 'mult_name': 'mult:y',
                                                                    'normalize': normalize, 'use_mult': use_mult})}))


def eq_inputs(dtype='real'):
    return DictT({'lhs:y': Arr('n', dtype=dtype), 'rhs:y': Arr('n', dtype=dtype), 'mult:y': Arr('n', dtype=dtype)})


def native_eq(vals, np, om):
    who = 'self' if 'self' in vals else 'comp'
    ov = vals[who]['_output_vars']['y']
    comp = om.EQConstraintComp('y', normalize=bool(ov['normalize']), use_mult=bool(ov['use_mult']), shape=(1,))
    kw = {who: comp}
    n = 0
    for k in ('inputs', 'inputs_cs', 'outputs', 'partials'):
        if k in vals:
            kw[k] = _decode(vals[k], np)
    n = len(kw['inputs']['rhs:y']) if 'inputs' in kw else len(kw['inputs_cs']['rhs:y'])
    h = 1e-40
    return kw, dict(n=n, h=h, approx_h=lambda a, b: abs(a - b) <= 1e-9 * h * (1 + abs(a) / h + abs(b) / h))


RHS, LHS, MULT = "inputs['rhs:y'][i]", "inputs['lhs:y'][i]", "inputs['mult:y'][i]"
NORM = "(1 if not self._output_vars['y']['normalize'] else (abs(%s) if abs(%s) >= 2 else 0.25 * %s * %s + 1))" % (RHS, RHS, RHS, RHS)
M = "(%s if self._output_vars['y']['use_mult'] else 1)" % MULT

contract(EQ + '::EQConstraintComp.compute', ['C26'],
         dict(self=eq_self(OneOf(True, False), OneOf(True, False)), inputs=eq_inputs(), outputs=DictT({'y': Arr('n')})),
         ensures=["len(outputs['y']) == n",
                  # the documented formula: (mult*lhs - rhs) / f_norm(rhs)
                  "all(approx(outputs['y'][i] * %s, %s * %s - %s) for i in range(n))" % (NORM, M, LHS, RHS)],
         modifies=["outputs['y']"], inline={'abs'}, native=native_eq,
         name=EQ + '::EQConstraintComp.compute',
         canaries=[('normalisation branches swapped', ('idxs_nz = np.where(absrhs < 2)', 'idxs_nz = np.where(absrhs >= 2)'), 'post')])


def dual_sampler(params):
    """sampler for the lemma drivers: draw everything from the specs, then make `inputs` the real parts of `inputs_cs`"""
    def samp(rng):
        from pyvc import sample as S_
        sizes, shared = {}, {}
        vals = {k: S_.sample_value(sp, rng, sizes, shared, k) for k, sp in params.items()}
        re = []
        for k, v in vals['inputs_cs']['__dict__']:
            if isinstance(v, dict) and '__arr__' in v:
                re.append([k, {'__arr__': [(e['__cx__'][0] if isinstance(e, dict) and '__cx__' in e else e) for e in v['__arr__']], 'shape': v['shape'], 'dtype': 'real'}])
            elif isinstance(v, dict) and '__cx__' in v:
                re.append([k, v['__cx__'][0]])
            else:
                re.append([k, v])
        vals['inputs'] = {'__dict__': re}
        return vals
    return samp


def real_parts(names):
    return ['all(inputs[%r][i] == inputs_cs[%r][i].real for i in range(n))' % (k, k) for k in names]


def D(name):      # eps-part of an input = the direction
    return "inputs_cs[%r][i].imag" % name


EQ_LEMMA_PARAMS = dict(comp=eq_self(OneOf(True, False), OneOf(True, False)), inputs_cs=eq_inputs('complex'), inputs=eq_inputs(),
                       outputs=DictT({'y': Arr('n', dtype='complex')}), partials=DictT({}))
contract('verif:contracts/harness.py::compute_then_partials', ['C26'], EQ_LEMMA_PARAMS, sampler=dual_sampler(EQ_LEMMA_PARAMS),
         requires=real_parts(['lhs:y', 'rhs:y', 'mult:y']),
         ensures=["all(approx_h(outputs['y'][i].imag, partials['y', 'lhs:y'][i] * %s + partials['y', 'rhs:y'][i] * %s + "
                  "(partials['y', 'mult:y'][i] * %s if comp._output_vars['y']['use_mult'] else 0)) for i in range(n))" % (D('lhs:y'), D('rhs:y'), D('mult:y'))],
         modifies=["outputs['y']", 'partials'], inline={'compute', 'compute_partials', 'abs'}, defs=DUAL, native=native_eq,
         name='lemma:EQConstraintComp partials are the derivative of compute',
         canaries=[('d/drhs loses the derivative of the normalisation', ('deriv = (mult * lhs - rhs) * _dscale_drhs - _scale_factor', 'deriv = - _scale_factor'), 'post', EQ + '::EQConstraintComp.compute_partials'),
                   ('d/dmult not scaled', ('deriv = lhs * _scale_factor', 'deriv = lhs'), 'post', EQ + '::EQConstraintComp.compute_partials')])


# the same lemma for a component with TWO outputs, the first with a multiplier and the second without: nothing of the first
# output's processing (its multiplier in particular) may leak into the partials of the second
def eq2_self():
    return Obj('EQConstraintComp', _output_vars=DictT({
        # (the first output is not normalised here: its own normalisation is covered by the one-output lemma, and keeping it
        # out makes this lemma cheap for the solver; what matters is that it HAS a multiplier)
        'y': DictT({'lhs_name': 'lhs:y', 'rhs_name': 'rhs:y', 'mult_name': 'mult:y', 'normalize': False, 'use_mult': True}),
        'z': DictT({'lhs_name': 'lhs:z', 'rhs_name': 'rhs:z', 'mult_name': 'mult:z', 'normalize': OneOf(True, False), 'use_mult': False})}))


def eq2_inputs(dtype='real'):
    return DictT({'lhs:y': Arr('n', dtype=dtype), 'rhs:y': Arr('n', dtype=dtype), 'mult:y': Arr('n', dtype=dtype),
                  'lhs:z': Arr('n', dtype=dtype), 'rhs:z': Arr('n', dtype=dtype)})


def native_eq2(vals, np, om):
    ov = vals['comp']['_output_vars']
    comp = om.EQConstraintComp('y', normalize=bool(ov['y']['normalize']), use_mult=True, shape=(1,))
    comp.add_eq_output('z', normalize=bool(ov['z']['normalize']), use_mult=False, shape=(1,))
    kw = {'comp': comp}
    for k in ('inputs', 'inputs_cs', 'outputs', 'partials'):
        if k in vals:
            kw[k] = _decode(vals[k], np)
    n = len(kw['inputs']['rhs:y'])
    h = 1e-40
    return kw, dict(n=n, h=h, approx_h=lambda a, b: abs(a - b) <= 1e-9 * h * (1 + abs(a) / h + abs(b) / h))


EQ2_LEMMA_PARAMS = dict(comp=eq2_self(), inputs_cs=eq2_inputs('complex'), inputs=eq2_inputs(),
                        outputs=DictT({'y': Arr('n', dtype='complex'), 'z': Arr('n', dtype='complex')}), partials=DictT({}))
contract('verif:contracts/harness.py::compute_then_partials', ['C26'], EQ2_LEMMA_PARAMS, sampler=dual_sampler(EQ2_LEMMA_PARAMS),
         requires=real_parts(['lhs:y', 'rhs:y', 'mult:y', 'lhs:z', 'rhs:z']),
         ensures=["all(approx_h(outputs['y'][i].imag, partials['y', 'lhs:y'][i] * %s + partials['y', 'rhs:y'][i] * %s + partials['y', 'mult:y'][i] * %s) for i in range(n))" % (D('lhs:y'), D('rhs:y'), D('mult:y')),
                  "all(approx_h(outputs['z'][i].imag, partials['z', 'lhs:z'][i] * %s + partials['z', 'rhs:z'][i] * %s) for i in range(n))" % (D('lhs:z'), D('rhs:z'))],
         modifies=["outputs['y']", "outputs['z']", 'partials'], inline={'compute', 'compute_partials', 'abs'}, defs=dict(DUAL, timeout_ms=90000), native=native_eq2,
         name='lemma:EQConstraintComp partials are the derivative of compute (two outputs, multiplier on the first only)',
         canaries=[('multiplier of the previous output carried into the next one', ("            else:\n                mult = 1.0\n", "            else:\n                pass\n"), 'post', EQ + '::EQConstraintComp.compute_partials')])


# ---- BalanceComp: residual = (mult*lhs - rhs) / f_norm(rhs); jacobian of the residual -------------------------
BAL = 'openmdao/components/balance_comp.py'


def bal_self(normalize, use_mult):
    return Obj('BalanceComp', _state_vars=DictT({'y': DictT({'lhs_name': 'lhs:y', 'rhs_name': 'rhs:y', 'mult_name': 'mult:y',
                                                              'normalize': normalize, 'use_mult': use_mult})}))


def native_bal(vals, np, om):
    who = 'self' if 'self' in vals else 'comp'
    ov = vals[who]['_state_vars']['y']
    comp = om.BalanceComp('y', normalize=bool(ov['normalize']), use_mult=bool(ov['use_mult']), val=np.ones(1))
    kw = {who: comp}
    for k in ('inputs', 'inputs_cs', 'outputs', 'residuals', 'jacobian'):
        if k in vals:
            kw[k] = _decode(vals[k], np)
    n = len(kw['inputs']['rhs:y']) if 'inputs' in kw else len(kw['inputs_cs']['rhs:y'])
    h = 1e-40
    return kw, dict(n=n, h=h, approx_h=lambda a, b: abs(a - b) <= 1e-9 * h * (1 + abs(a) / h + abs(b) / h))


NORM_B = NORM.replace("self._output_vars", "self._state_vars")
M_B = M.replace("self._output_vars", "self._state_vars")
contract(BAL + '::BalanceComp.apply_nonlinear', ['C26'],
         dict(self=bal_self(OneOf(True, False), OneOf(True, False)), inputs=eq_inputs(), outputs=DictT({'y': Arr('n')}), residuals=DictT({'y': Arr('n')})),
         ensures=["len(residuals['y']) == n",
                  "all(approx(residuals['y'][i] * %s, %s * %s - %s) for i in range(n))" % (NORM_B, M_B, LHS, RHS),
                  # the state itself does not enter the residual (the balance is closed through the model)
                  "all(outputs['y'][i] == old(outputs['y'][i]) for i in range(n))"],
         modifies=["residuals['y']"], inline={'abs'}, native=native_bal, name=BAL + '::BalanceComp.apply_nonlinear',
         canaries=[('multiplier applied to the right-hand side', ("residuals[name] = (inputs[options['mult_name']] * lhs - rhs) * _scale_factor", "residuals[name] = (lhs - inputs[options['mult_name']] * rhs) * _scale_factor"), 'post')])

BAL_LEMMA_PARAMS = dict(comp=bal_self(OneOf(True, False), OneOf(True, False)), inputs_cs=eq_inputs('complex'), inputs=eq_inputs(),
                        outputs=DictT({'y': Arr('n')}), residuals=DictT({'y': Arr('n', dtype='complex')}), jacobian=DictT({}))
contract('verif:contracts/harness.py::apply_then_linearize', ['C26'], BAL_LEMMA_PARAMS, sampler=dual_sampler(BAL_LEMMA_PARAMS),
         requires=real_parts(['lhs:y', 'rhs:y', 'mult:y']),
         ensures=["all(approx_h(residuals['y'][i].imag, jacobian['y', 'lhs:y'][i] * %s + jacobian['y', 'rhs:y'][i] * %s + "
                  "(jacobian['y', 'mult:y'][i] * %s if comp._state_vars['y']['use_mult'] else 0)) for i in range(n))" % (D('lhs:y'), D('rhs:y'), D('mult:y')),
                  # no dependence of the residual on the state: linearize declares no (y, y) block
                  "('y', 'y') not in jacobian"],
         modifies=["residuals['y']", 'jacobian'], inline={'apply_nonlinear', 'linearize', 'abs'}, defs=dict(DUAL, timeout_ms=40000), native=native_bal,
         name='lemma:BalanceComp jacobian is the derivative of the residual',
         canaries=[('d/dlhs loses the multiplier', ('deriv = mult * _scale_factor', 'deriv = _scale_factor'), 'post', BAL + '::BalanceComp.linearize'),
                   ('small-|rhs| branch of the normalisation derivative has the wrong factor', ('_dscale_drhs[idxs_nz] = -.5 * rhs[idxs_nz]', '_dscale_drhs[idxs_nz] = -.25 * rhs[idxs_nz]'), 'post', BAL + '::BalanceComp.linearize')])


# ---- DotProductComp: c[n] = sum_i a[n,i] b[n,i]; sparse partials in C order (k = n*length + i) -----------------
DOT = 'openmdao/components/dot_product_comp.py'


def dot_self():
    return Obj('DotProductComp', _products=ListT(DictT({'a_name': 'a', 'b_name': 'b', 'c_name': 'c', 'vec_size': Size('nv'), 'length': Size('nl')})))


def dot_inputs(dtype='real'):
    return DictT({'a': Arr('nv', 'nl', dtype=dtype), 'b': Arr('nv', 'nl', dtype=dtype)})


def native_dot(cls):
    def build(vals, np, om):
        who = 'self' if 'self' in vals else 'comp'
        kw = {}
        for k in ('inputs', 'inputs_cs', 'outputs', 'partials'):
            if k in vals:
                kw[k] = _decode(vals[k], np)
        a = (kw.get('inputs') or kw['inputs_cs'])['a']
        nv, nl = a.shape
        kw[who] = getattr(om, cls)(vec_size=nv, length=nl) if cls == 'DotProductComp' else getattr(om, cls)(vec_size=nv, length=nl, in_name='a', mag_name='c')
        h = 1e-40
        return kw, dict(nv=nv, nl=nl, h=h, approx_h=lambda x, y: abs(x - y) <= 1e-9 * h * (1 + abs(x) / h + abs(y) / h))
    return build


contract(DOT + '::DotProductComp.compute', ['C26'], dict(self=dot_self(), inputs=dot_inputs(), outputs=DictT({'c': Arr('nv')})),
         ensures=["len(outputs['c']) == nv",
                  "all(approx(outputs['c'][r], Sum(nl, lambda i: inputs['a'][r, i] * inputs['b'][r, i])) for r in range(nv))"],
         modifies=["outputs['c']"], native=native_dot('DotProductComp'), name=DOT + '::DotProductComp.compute',
         canaries=[('product taken with itself', ("np.einsum('ni,ni->n', a, b)", "np.einsum('ni,ni->n', a, a)"), 'post')])

DOT_LEMMA_PARAMS = dict(comp=dot_self(), inputs_cs=dot_inputs('complex'), inputs=dot_inputs(), outputs=DictT({'c': Arr('nv', dtype='complex')}), partials=DictT({}))
RP2 = ['all(all(inputs[%r][r, i] == inputs_cs[%r][r, i].real for i in range(nl)) for r in range(nv))' % (k, k) for k in ('a', 'b')]
contract('verif:contracts/harness.py::compute_then_partials', ['C26'], DOT_LEMMA_PARAMS, sampler=dual_sampler(DOT_LEMMA_PARAMS),
         requires=RP2 + ['nl >= 1'],
         # declared sparsity (add_product): rows = repeat(arange(vec_size), length), cols = arange(vec_size*length), i.e. value k = r*length + i
         # is d c[r] / d a[r, i].  Directional derivative of compute == sum over the row's entries of partial * direction.
         ensures=["len(partials['c', 'a']) == nv * nl and len(partials['c', 'b']) == nv * nl",
                  "all(approx_h(outputs['c'][r].imag, Sum(nl, lambda i: partials['c', 'a'][r * nl + i] * inputs_cs['a'][r, i].imag + partials['c', 'b'][r * nl + i] * inputs_cs['b'][r, i].imag)) for r in range(nv))"],
         modifies=["outputs['c']", 'partials'], inline={'compute', 'compute_partials'}, defs=dict(DUAL, canary_timeout_ms=30000), native=native_dot('DotProductComp'),
         name='lemma:DotProductComp partials are the derivative of compute',
         canaries=[('partials w.r.t. a and b swapped', ("partials[product['c_name'], product['a_name']] = b.ravel()", "partials[product['c_name'], product['a_name']] = a.ravel()"), 'post', DOT + '::DotProductComp.compute_partials')])


# ---- AddSubtractComp.compute: out = sum_k sf_k * in_k (element-wise), for 2 and 3 inputs, length 1 (1-d variables) -----
ADD = 'openmdao/components/add_subtract_comp.py'


def native_add(vals, np, om):
    from pyvc.native_helpers import A, Fl
    eq = vals['self']['_equations'][0]
    names = list(eq[1])
    sfs = None if eq[5] is None else [float(x) for x in A(eq[5])]
    ins = _decode(vals['inputs'], np)
    n = len(ins[names[0]])
    comp = om.AddSubtractComp('out', names, vec_size=n, scaling_factors=sfs)
    return dict(self=comp, inputs=ins, outputs=_decode(vals['outputs'], np)), dict(n=n)


for _names in (('a', 'b'), ('a', 'b', 'c')):
    for _sf in ('given', 'none'):
        k = len(_names)
        eqs = ListT(TupleT('out', ListT(*_names), Size('n'), 1, Real(), (Arr(k) if _sf == 'given' else None), OpaqueT('kwargs')))
        total = ' + '.join("inputs[%r][i] * %s" % (nm, ('self._equations[0][5][%d]' % j) if _sf == 'given' else '1') for j, nm in enumerate(_names))
        contract(ADD + '::AddSubtractComp.compute', ['C26'],
                 dict(self=Obj('AddSubtractComp', options=DictT({'complex': False}), _equations=eqs),
                      inputs=DictT({nm: Arr('n') for nm in _names}), outputs=DictT({'out': Arr('n')})),
                 ensures=["len(outputs['out']) == n", "all(approx(outputs['out'][i], %s) for i in range(n))" % total],
                 modifies=["outputs['out']"], native=native_add,
                 name=ADD + '::AddSubtractComp.compute[%d inputs, scaling factors %s]' % (k, _sf),
                 canaries=[('scaling factor of the first input applied to all', ('sf = scaling_factors[i]', 'sf = scaling_factors[0]'), 'post')] if (_sf == 'given' and k == 3) else [])


# ---- VectorMagnitudeComp: m[r] = sqrt(sum_i a[r,i]^2); partial (C order) a[r,i]/m[r] ---------------------------
VM = 'openmdao/components/vector_magnitude_comp.py'


def vm_self():
    return Obj('VectorMagnitudeComp', _magnitudes=ListT(DictT({'in_name': 'a', 'mag_name': 'c', 'vec_size': Size('nv'), 'length': Size('nl')})))


def vm_inputs(dtype='real'):
    return DictT({'a': Arr('nv', 'nl', dtype=dtype)})


contract(VM + '::VectorMagnitudeComp.compute', ['C26'], dict(self=vm_self(), inputs=vm_inputs(), outputs=DictT({'c': Arr('nv')})),
         ensures=["len(outputs['c']) == nv",
                  "all(outputs['c'][r] >= 0 and approx(outputs['c'][r] * outputs['c'][r], Sum(nl, lambda i: inputs['a'][r, i] * inputs['a'][r, i])) for r in range(nv))"],
         modifies=["outputs['c']"], native=native_dot('VectorMagnitudeComp'), name=VM + '::VectorMagnitudeComp.compute',
         canaries=[('square root dropped', ("np.sqrt(np.einsum('ni,ni->n', a, a))", "np.einsum('ni,ni->n', a, a)"), 'post')])

# (the derivative lemma for VectorMagnitudeComp relates two independently computed square roots through universally
#  quantified nonlinear facts; z3 does not close it within the budget, so the partials stay in the bounded tier)
