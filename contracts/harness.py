"""Lemma drivers: tiny spec-level functions (NOT repo code) that call real OpenMDAO functions in
sequence.  pyvc verifies them modularly — only the callees' contracts are used — so a property
that spans two functions becomes a postcondition over their contracts; natively they run the
real functions."""
from openmdao.core.constants import INF_BOUND   # noqa: F401  (named in clauses of lemma contracts)


def roundtrip_norm_phys(vec, mode):
    vec.scale_to_norm(mode)
    vec.scale_to_phys(mode)


def roundtrip_phys_norm(vec, mode):
    vec.scale_to_phys(mode)
    vec.scale_to_norm(mode)


def scale_then_unscale(self, vec):
    self._apply_vec_scaling(vec)
    self._apply_vec_unscaling(vec)


# ---- C06 ------------------------------------------------------------------------------------
def units_round_trip(a, b, x):
    f1, o1 = a.conversion_tuple_to(b)
    f2, o2 = b.conversion_tuple_to(a)
    return ((x + o1) * f1 + o2) * f2


def units_transitive(a, b, c, x):
    f1, o1 = a.conversion_tuple_to(b)
    f2, o2 = b.conversion_tuple_to(c)
    f3, o3 = a.conversion_tuple_to(c)
    return ((x + o1) * f1 + o2) * f2, (x + o3) * f3


def units_compat_decides(a, b):
    try:
        a.conversion_tuple_to(b)
        converts = True
    except TypeError:
        converts = False
    return a.is_compatible(b), converts, b.is_compatible(a)


def units_compat_transitive(a, b, c):
    return a.is_compatible(b), b.is_compatible(c), a.is_compatible(c), a.is_compatible(a)


def units_composite_conversion(a, b, c, d, x):
    ab = a * b
    cd = c * d
    f, o = ab.conversion_tuple_to(cd)
    f1, o1 = a.conversion_tuple_to(c)
    f2, o2 = b.conversion_tuple_to(d)
    return (x + o) * f, x * f1 * f2


# ---- C30 ------------------------------------------------------------------------------------
def smooth_max_plus_min(x, y, mu):
    from openmdao.jax_funcs.smooth import smooth_max, smooth_min
    return smooth_max(x, y, mu) + smooth_min(x, y, mu)


def smooth_abs_even(x, mu):
    from openmdao.jax_funcs.smooth import smooth_abs
    return smooth_abs(x, mu), smooth_abs(-x, mu)


# ---- C12 ------------------------------------------------------------------------------------
def fd_sub_point_is_side_effect_free(self, system, idx_info, delta, total):
    # the saves performed by FiniteDifference.compute_approx_col_iter before any point is run
    self._starting_outs = system._outputs.asarray(copy=True)
    self._starting_resids = system._residuals.asarray(copy=True)
    self._starting_ins = system._inputs.asarray(copy=True)
    self._run_sub_point(system, idx_info, delta, total)


# ---- C08 / C04 ------------------------------------------------------------------------------
def input_phys_from_norm(norm, ref, ref0, factor, offset):
    # nonlinear input scaling arrays as filled by DefaultVector._set_scaling (factor branch)
    a0, a1 = ref0, ref - ref0
    scale0 = (a0 + offset) * factor
    scale1 = a1 * factor
    phys_in = norm * scale1 + scale0            # _scale_reverse on the input vector
    phys_out = norm * a1 + a0                   # _scale_reverse on the source output
    return phys_in, phys_out


# ---- C21 ------------------------------------------------------------------------------------
def registered_constraint_values(driver, x, name, j, both_sides):
    """What scipy sees for element j of a constraint registered by the dict-constraint loop body: the
    single-sided value and, when the element is bounded on both sides, the dbl=True value."""
    v1 = driver._confunc(x, name, False, j)
    if both_sides:
        v2 = driver._confunc(x, name, True, j)
        return v1, v2
    return v1, 0.0


# ---- C26 ------------------------------------------------------------------------------------
def compute_then_partials(comp, inputs_cs, inputs, outputs, partials):
    """real `compute` on dual-number inputs (re + eps*d), real `compute_partials` on the real parts"""
    comp.compute(inputs_cs, outputs)
    comp.compute_partials(inputs, partials)


def apply_then_linearize(comp, inputs_cs, inputs, outputs, residuals, jacobian):
    """real `apply_nonlinear` on dual-number inputs, real `linearize` on the real parts"""
    comp.apply_nonlinear(inputs_cs, outputs, residuals)
    comp.linearize(inputs, outputs, jacobian)


# ---- C07 ------------------------------------------------------------------------------------
def set_then_get(graph, node, val, src_units, tgt_units, units):
    """what Problem.set_val stores in the source's units, read back by Problem.get_val in the same units"""
    stored = graph.convert_set(val, src_units, tgt_units, (), units, None)
    return graph.convert_get(node, stored, src_units, tgt_units, (), units, None, False)
