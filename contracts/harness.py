"""Lemma drivers: tiny spec-level functions (NOT repo code) that call real OpenMDAO functions in
sequence.  pyvc verifies them modularly — only the callees' contracts are used — so a property
that spans two functions becomes a postcondition over their contracts; natively they run the
real functions."""


def roundtrip_norm_phys(vec, mode):
    vec.scale_to_norm(mode)
    vec.scale_to_phys(mode)


def roundtrip_phys_norm(vec, mode):
    vec.scale_to_phys(mode)
    vec.scale_to_norm(mode)


def scale_then_unscale(self, vec):
    self._apply_vec_scaling(vec)
    self._apply_vec_unscaling(vec)
