"""C32 — feed-forward models are solved by one ordered pass.

The ordering algorithm (networkx SCCs, sets, sorted with key functions) is outside pyvc's subset: the statement is
decided in the BOUNDED exhaustive tier (bounded/c32_order.py).  Under contract here is the one piece of glue that
is within reach: Group._check_order hands get_out_of_order_nodes and _set_auto_order the CURRENT positions of the
subsystems (position in the live _subsystems_allprocs enumeration, not a cached index), reorders exactly when an
out-of-order connection was found, and reports the out-of-order sources grouped per target."""
from pyvc.spec import *   # noqa

G = 'openmdao/core/group.py'
NAMES = ['k0', 'k1', 'k2']
ORD = "{'k0': 0, 'k1': 1, 'k2': 2}"


def _goo_ghost(it, env, res):
    it.ctx.ghost['orders_seen'] = it.last_assumed_args[1]


def _sao_ghost(it, env, res):
    it.ctx.ghost['reordered'] = True
    it.ctx.ghost['orders_reorder'] = it.last_assumed_args[1]


for _ooo in ((), (('k2', 'k0'),), (('k2', 'k0'), ('k1', 'k0'))):
    contract(G + '::Group._check_order', ['C32'],
             dict(self=Obj('Group', options=DictT({'auto_order': OneOf(True, False)}), pathname='g', _subsystems_allprocs=DictT({k: OpaqueT('sysinfo_' + k) for k in NAMES}),
                           _subgroups_myproc=ListT()),
                  reorder=OneOf(True, False), recurse=OneOf(True, False), out_of_order=None),
             ensures=[
                 # the order table is the live enumeration position of every subsystem
                 "implies(self.options['auto_order'] or not reorder, ghost('orders_seen') == %s)" % ORD,
                 "iff(ghost('reordered'), (self.options['auto_order'] or not reorder) and reorder and %s)" % ('True' if _ooo else 'False'),
                 "implies(ghost('reordered'), ghost('orders_reorder') == %s)" % ORD,
                 # report: sources grouped per target, sorted
                 "result == (%s)" % ("{'g': {'k0': %r}} if (self.options['auto_order'] or not reorder) else {}" % sorted(u for u, v in _ooo) if _ooo else '{}')],
             modifies=[], ghost_init={'orders_seen': None, 'reordered': False, 'orders_reorder': None},
             assumed={'self.compute_sys_graph': Assumed(returns=OpaqueT('graph'), note='networkx graph of the subsystems'),
                      'get_out_of_order_nodes': Assumed(returns_expr="('sccs', %r)" % (list(_ooo),), ghost=_goo_ghost,
                                                        note='bounded tier: returns the SCCs in topological order and the out-of-order cross-SCC edges'),
                      'self._set_auto_order': Assumed(ghost=_sao_ghost, note='bounded tier')},
             name=G + '::Group._check_order[3 subsystems, %d out-of-order edges]' % len(_ooo),
             canaries=[('order table built from a cached index instead of the live enumeration',
                        ('orders = {name: i for i, name in enumerate(self._subsystems_allprocs)}', 'orders = {name: 0 for i, name in enumerate(self._subsystems_allprocs)}'), 'post')] if len(_ooo) == 1 else [])
