"""C33 — vector arithmetic and scaling round-trips match NumPy (DefaultVector).

Every operation is specified on the flat data with a full frame, in the three storage modes
(real data; complex data outside complex step = operations act on the real part and leave the
imaginary part alone; complex data under complex step = full complex arithmetic).
"""
from pyvc.spec import *   # noqa

F = 'openmdao/vectors/default_vector.py'
MODES = {'real': ('real', False), 'cplx': ('complex', False), 'cs': ('complex', True)}


def vec(mode, size='n', **extra):
    dt, cs = MODES[mode]
    return Obj('DefaultVector', _data=Arr(size, dtype=dt), _under_complex_step=cs, **extra)


def valdt(mode):
    return 'complex' if mode == 'cs' else 'real'


def eq_all(mode, new, size='n', lo='0'):
    """clause: for every i the element equals `new` (expression in i using X(i) for the old
    element as seen through asarray()); imaginary part untouched outside complex step."""
    if mode == 'cs':
        X = 'old(self._data[i])'
        return ['all(self._data[i] == %s for i in range(%s, %s))' % (new.replace('X', X), lo, size)]
    X = 'old(self._data[i].real)'
    return ['all(self._data[i].real == %s for i in range(%s, %s))' % (new.replace('X', X), lo, size),
            'all(self._data[i].imag == old(self._data[i].imag) for i in range(n))']


def native_vec(mode, extra=None):
    def build(vals, np, om):
        from pyvc.native_helpers import A, Fl, make_vector, Cpx
        dt, cs = MODES[mode]
        sv = vals['self']
        data = A(sv['_data'], complex if dt == 'complex' else float)
        v = make_vector(data, complex_alloc=(dt == 'complex'), complex_step=cs)
        kw = dict(self=v)
        n = len(data)
        sizes = dict(n=n)
        for k, x in vals.items():
            if k == 'self' or k == '__sizes__':
                continue
            if isinstance(x, dict) and '__cls__' in x:
                d2 = A(x['_data'], complex if dt == 'complex' else float)
                kw[k] = make_vector(d2, complex_alloc=(dt == 'complex'), complex_step=cs)
            elif isinstance(x, dict) and '__arr__' in x:
                kw[k] = A(x, complex if x.get('dtype') == 'complex' else float)
            elif isinstance(x, slice):
                kw[k] = slice(*[None if t is None else int(t) for t in (x.start, x.stop, x.step)])
            elif x is None or isinstance(x, (str, bool)):
                kw[k] = x
            elif isinstance(x, complex):
                kw[k] = x
            elif isinstance(x, int):
                kw[k] = x
            else:
                kw[k] = Fl(x)
        if extra:
            extra(vals, kw, sizes, v, np)
        return kw, sizes
    return build


def slice_sampler(mode):
    def samp(rng):
        from pyvc.sample import frac
        n = rng.choice([0, 1, 2, 3, 4])
        a = rng.randint(0, n)
        b = rng.randint(a, n)
        el = (lambda: {'__cx__': [frac(rng), frac(rng)]}) if MODES[mode][0] == 'complex' else (lambda: frac(rng))
        vel = (lambda: {'__cx__': [frac(rng), frac(rng)]}) if mode == 'cs' else (lambda: frac(rng))
        return {'self': {'__obj__': 'DefaultVector', 'id': 0, 'attrs': {
                    '_data': {'__arr__': [el() for _ in range(n)], 'shape': [n], 'dtype': MODES[mode][0]},
                    '_under_complex_step': MODES[mode][1]}},
                'val': {'__arr__': [vel() for _ in range(b - a)], 'shape': [b - a], 'dtype': valdt(mode)},
                'idxs': {'__slice__': [a, b, None]}}
    return samp


ops = {'iadd': '+', 'isub': '-', 'imul': '*'}
for mode in MODES:
    sfx = '[%s]' % mode
    vd = valdt(mode)
    # ---- data[idxs] op= val, full slice and sub-slice ---------------------------------------
    for name, op in ops.items():
        contract(F + '::DefaultVector.' + name, ['C33'],
                 dict(self=vec(mode), val=OneOf(Arr('n', dtype=vd), Real())),
                 ensures=eq_all(mode, 'X %s (val[i] if not is_scalar(val) else val)' % op),
                 modifies=['self._data'], inline={'asarray'}, name=F + '::DefaultVector.%s%s' % (name, sfx),
                 native=native_vec(mode),
                 canaries=[('%s becomes plain assignment' % name, ('data[idxs] %s= val' % op, 'data[idxs] = val'), 'post')]
                 if mode == 'real' else [])
        contract(F + '::DefaultVector.' + name, ['C33'],
                 dict(self=vec(mode), val=Arr('m', dtype=vd), idxs=SliceT('a', 'b')),
                 requires=['a <= b and b <= n and m == b - a'],
                 name=F + '::DefaultVector.%s/slice%s' % (name, sfx),
                 ensures=['all(implies(a <= i and i < b, %s) and implies(not (a <= i and i < b), %s) for i in range(n))' % (
                     ('self._data[i] == old(self._data[i]) %s val[i - a]' % op) if mode == 'cs' else
                     ('self._data[i].real == old(self._data[i].real) %s val[i - a] and self._data[i].imag == old(self._data[i].imag)' % op),
                     'self._data[i] == old(self._data[i])')],
                 modifies=['self._data'], inline={'asarray'}, sampler=slice_sampler(mode),
                 native=native_vec(mode, lambda vals, kw, sizes, v, np: sizes.update(
                     a=int(vals['idxs'].start), b=int(vals['idxs'].stop), m=len(kw['val']))))

    # ---- operator forms -----------------------------------------------------------------------
    for name, op in (('__iadd__', '+'), ('__isub__', '-'), ('__imul__', '*')):
        contract(F + '::DefaultVector.' + name, ['C33'],
                 dict(self=vec(mode), vec=OneOf(vec(mode), Real(), Arr('n', dtype=vd))),
                 ensures=eq_all(mode, 'X %s (vec if is_scalar(vec) else (vec._data[i] if is_vector(vec) else vec[i]))' % op
                                if mode == 'cs' else
                                'X %s (vec if is_scalar(vec) else (vec._data[i].real if is_vector(vec) else vec[i]))' % op)
                 + ['same_object(result, self)'],
                 modifies=['self._data'], inline={'asarray', 'iadd', 'isub', 'imul'},
                 name=F + '::DefaultVector.%s%s' % (name, sfx), native=native_vec(mode))

    contract(F + '::DefaultVector.add_scal_vec', ['C33'],
             dict(self=vec(mode), val=Real(), vec=vec(mode)),
             ensures=eq_all(mode, 'X + val * old(vec._data[i])' if mode == 'cs' else 'X + val * old(vec._data[i].real)'),
             modifies=['self._data'], inline={'asarray'}, name=F + '::DefaultVector.add_scal_vec%s' % sfx,
             native=native_vec(mode),
             canaries=[('scalar factor dropped', ('data += (val * vec.asarray())', 'data += vec.asarray()'), 'post')]
             if mode == 'real' else [])

    # set_val writes through _data itself: the imaginary part IS reset (documented in the code)
    contract(F + '::DefaultVector.set_val', ['C33'],
             dict(self=vec(mode), val=OneOf(Real(), Arr('n', dtype='real'))),
             ensures=['all(self._data[i].real == (val if is_scalar(val) else val[i]) for i in range(n))',
                      'all(self._data[i].imag == 0 for i in range(n))'],
             modifies=['self._data'], name=F + '::DefaultVector.set_val%s' % sfx, native=native_vec(mode))

    contract(F + '::DefaultVector.set_vec', ['C33'],
             dict(self=vec(mode), vec=vec(mode)),
             ensures=(['all(self._data[i] == vec._data[i] for i in range(n))'] if mode == 'cs' else
                      ['all(self._data[i].real == vec._data[i].real and self._data[i].imag == 0 for i in range(n))']),
             modifies=['self._data'], inline={'asarray', 'set_val'},
             name=F + '::DefaultVector.set_vec%s' % sfx, native=native_vec(mode))

    contract(F + '::DefaultVector.asarray', ['C33'],
             dict(self=vec(mode), copy=OneOf(False, True)),
             ensures=['len(result) == n',
                      'all(result[i] == (self._data[i] if %s else self._data[i].real) for i in range(n))' % (mode == 'cs'),
                      # named/flat views alias the data: not a copy unless asked
                      'implies(not copy, is_view(result, self._data if %s else self._data.real, 0, n))' % (mode != 'cplx'),
                      'implies(copy and n > 0, not is_view(result, self._data if %s else self._data.real, 0, n))' % (mode != 'cplx')],
             modifies=[], name=F + '::DefaultVector.asarray%s' % sfx, native=native_vec(mode))

    contract(F + '::DefaultVector._get_data', ['C33'],
             dict(self=vec(mode)),
             ensures=['is_view(result, self._data if %s else self._data.real, 0, n)' % (mode != 'cplx')],
             modifies=[], name=F + '::DefaultVector._get_data%s' % sfx, native=native_vec(mode))

    contract(F + '::DefaultVector.__len__', ['C33'], dict(self=vec(mode)),
             ensures=['result == n'], modifies=[], name=F + '::DefaultVector.__len__%s' % sfx,
             native=native_vec(mode))

    # ---- scaling ------------------------------------------------------------------------------
    for fname, formula in (('_scale_forward', '(X - (adder[i] if adder is not None else 0)) / scaler[i]'),
                           ('_scale_reverse', 'X * scaler[i] + (adder[i] if adder is not None else 0)')):
        contract(F + '::DefaultVector.' + fname, ['C33', 'C08'],
                 dict(self=vec(mode), scaler=Arr('n'), adder=Opt(Arr('n'))),
                 requires=['all(scaler[i] != 0 for i in range(n))'] if fname == '_scale_forward' else [],
                 ensures=eq_all(mode, formula), modifies=['self._data'], inline={'asarray'},
                 name=F + '::DefaultVector.%s%s' % (fname, sfx), native=native_vec(mode),
                 canaries=([('adder applied after the division', ('data -= adder\n        data /= scaler', 'data /= scaler\n            data -= adder'), 'post')]
                           if (mode == 'real' and fname == '_scale_forward') else []))

# reductions (real mode; np.dot / norm act on asarray())
for mode in ('real', 'cplx'):
    sfx = '[%s]' % mode
    contract(F + '::DefaultVector.dot', ['C33'], dict(self=vec(mode), vec=vec(mode)),
             ensures=['result == Sum(n, lambda k: self._data[k].real * vec._data[k].real)'],
             modifies=[], inline={'asarray'}, name=F + '::DefaultVector.dot%s' % sfx, native=native_vec(mode))
    contract(F + '::DefaultVector.get_norm', ['C33'], dict(self=vec(mode)),
             ensures=['result >= 0', 'approx(result * result, Sum(n, lambda k: self._data[k].real * self._data[k].real))'],
             modifies=[], inline={'asarray'}, name=F + '::DefaultVector.get_norm%s' % sfx,
             native=native_vec(mode), defs={'float_tol': 1e-9})


# ---------------------------------------------------------------------------------------------
# scale_to_norm / scale_to_phys: branch pairing, then the round trip as a lemma over contracts
def svec(mode):
    return vec(mode, _scaling=TupleT(Arr('n'), Opt(Arr('n'))), _has_solver_ref=OneOf(False, True),
               _nlvec=Obj('DefaultVector', _scaling=TupleT(Arr('n'), Opt(Arr('n')))))


S0, S1 = 'self._scaling[0][i]', '(self._scaling[1][i] if self._scaling[1] is not None else 0)'
NL0 = 'self._nlvec._scaling[0][i]'
FWD = '(X - %s) / %s' % (S1, S0)
REV = 'X * %s + %s' % (S0, S1)
NONZERO = ['all(self._scaling[0][i] != 0 for i in range(n))', 'all(self._nlvec._scaling[0][i] != 0 for i in range(n))']


def native_svec(mode):
    def extra(vals, kw, sizes, v, np):
        from pyvc.native_helpers import A
        sv = vals['self']
        sc = sv['_scaling']
        v._scaling = (A(sc[0]), A(sc[1]))
        v._has_solver_ref = bool(sv['_has_solver_ref'])

        class NL:
            pass
        nl = NL()
        nsc = sv['_nlvec']['_scaling']
        nl._scaling = (A(nsc[0]), A(nsc[1]))
        v._nlvec = nl
    return native_vec(mode, extra)


for mode in MODES:
    sfx = '[%s]' % mode
    contract(F + '::DefaultVector.scale_to_norm', ['C33', 'C08'], dict(self=svec(mode), mode=OneOf('fwd', 'rev')),
             requires=NONZERO,
             ensures=eq_all(mode, "((%s) if mode == 'rev' else ((X / %s) if self._has_solver_ref else (%s)))" % (REV, NL0, FWD)),
             modifies=['self._data'], name=F + '::DefaultVector.scale_to_norm%s' % sfx, native=native_svec(mode),
             canaries=[('rev branch uses the forward map', ("if mode == 'rev':\n            self._scale_reverse(*self._scaling)", "if mode == 'rev':\n            self._scale_forward(*self._scaling)"), 'post')] if mode == 'real' else [])
    contract(F + '::DefaultVector.scale_to_phys', ['C33', 'C08'], dict(self=svec(mode), mode=OneOf('fwd', 'rev')),
             requires=NONZERO,
             ensures=eq_all(mode, "((%s) if mode == 'rev' else ((X * %s) if self._has_solver_ref else (%s)))" % (FWD, NL0, REV)),
             modifies=['self._data'], name=F + '::DefaultVector.scale_to_phys%s' % sfx, native=native_svec(mode),
             canaries=[('solver-ref branch ignores the nonlinear scaler', ("self._scale_reverse(self._nlvec._scaling[0], None)", "self._scale_reverse(self._scaling[0], None)"), 'post')] if mode == 'real' else [])
    for h in ('roundtrip_norm_phys', 'roundtrip_phys_norm'):
        contract('verif:contracts/harness.py::' + h, ['C33', 'C08'], dict(vec=svec(mode), mode=OneOf('fwd', 'rev')),
                 requires=[r.replace('self.', 'vec.') for r in NONZERO],
                 ensures=['all(approx(vec._data[i], old(vec._data[i])) for i in range(n))'],
                 modifies=['vec._data'], name='lemma:%s%s' % (h, sfx),
                 native=(lambda m: (lambda vals, np, om: (lambda kw, sz: (dict(vec=kw['self'], mode=kw['mode']), sz))(
                     *native_svec(m)(dict(self=vals['vec'], mode=vals['mode']), np, om))))(mode),
                 defs={'float_tol': 1e-9})


# ---------------------------------------------------------------------------------------------
# named views alias the right slices
FV = 'openmdao/vectors/vector.py'

contract(FV + '::_VecData.set_view', ['C33'],
         dict(self=Obj('_VecData', shape=OneOf((), TupleT(Size('m'))), range=TupleT(Size('a'), Size('b')),
                       view=None, flat=None), data=Arr('n')),
         requires=['a <= b and b <= n', 'implies(self.shape == (), b == a + 1)', 'implies(self.shape != (), m == b - a)'],
         ensures=['is_view(self.flat, data, a, b)', 'is_view(self.view, data, a, b)'],
         modifies=['self.view', 'self.flat'], name=FV + '::_VecData.set_view',
         canaries=[('view starts at 0 instead of start', ('vflat = v = data[start:end]', 'vflat = v = data[0:end - start]'), 'post')])


def viewvec(mode):
    return vec(mode, _views=DictT({'x': Obj('_VecData', flat=ViewOf('self._data', 'a', 'b'),
                                           view=Shared("self._views['x'].flat"),
                                           is_scalar=OneOf(False, True))}))


def native_views(mode):
    def extra(vals, kw, sizes, v, np):
        from openmdao.vectors.vector import _VecData
        fl = vals['self']['_views']['x']['flat']
        if '__viewof__' in fl:
            a, b = int(fl['lo']), int(fl['hi'])
        else:
            a, b = int(vals['__sizes__']['a']), int(vals['__sizes__']['b'])
        vd = _VecData(() if vals['self']['_views']['x']['is_scalar'] else (b - a,), (a, b))
        vd.set_view(v._data)
        v._views = {'x': vd}
        sizes.update(a=a, b=b)
        if 'idx' in kw and kw['idx'] is None:
            kw.pop('idx')
    return native_vec(mode, extra)


for mode in MODES:
    sfx = '[%s]' % mode
    base = 'self._data' if mode != 'cplx' else 'self._data.real'
    contract(FV + '::Vector._abs_get_val', ['C33'], dict(self=viewvec(mode), name='x', flat=OneOf(True, False)),
             requires=['a <= b and b <= n', "implies(self._views['x'].is_scalar, b == a + 1)"],
             ensures=["implies(flat or not self._views['x'].is_scalar, is_view(result, %s, a, b))" % base,
                      "implies(not flat and self._views['x'].is_scalar, result == (self._data[a] if %s else self._data[a].real))" % (mode == 'cs')],
             modifies=[], name=FV + '::Vector._abs_get_val%s' % sfx, native=native_views(mode))
    contract(FV + '::Vector._abs_set_val', ['C33'], dict(self=viewvec(mode), name='x', val=OneOf(Real(), Arr('m'))),
             requires=['a <= b and b <= n', 'implies(not is_scalar(val), m == b - a)'],
             ensures=['all(implies(a <= i and i < b, self._data[i].real == (val if is_scalar(val) else val[i - a])) for i in range(n))',
                      'all(implies(not (a <= i and i < b), self._data[i] == old(self._data[i])) for i in range(n))']
             + (['all(implies(a <= i and i < b, self._data[i].imag == 0) for i in range(n))'] if mode == 'cs' else
                ['all(self._data[i].imag == old(self._data[i].imag) for i in range(n))']),
             modifies=['self._data'], name=FV + '::Vector._abs_set_val%s' % sfx, native=native_views(mode),
             canaries=[('complex-step branch also used outside complex step', ("self._views[name].view.real[idx] = val", "self._views[name].view[idx] = val"), 'post')] if mode == 'cplx' else [])


# ---- DefaultVector._initialize_data: the named views tile the data array in declaration order ----------------------
# two variables 'a' (size n1) and 'b' (size n2), root vector and sub-vector of a parent whose layout puts 'a' at p0.
DV = 'openmdao/vectors/default_vector.py'
NAMES2 = Assumed(returns_expr="[('a', (n1,)), ('b', (n2,))]", note='System._name_shape_iter(iotype): (name, shape) pairs of this system in vector order')
for _root in (True, False):
    parent = None if _root else Obj('DefaultVector', _data=Arr('NP'), _scaling=None, _under_complex_step=False,
                                    _views=DictT({'a': Obj('_VecData', range=TupleT(Size('p0'), Size('p1')))}))
    contract(DV + '::DefaultVector._initialize_data', ['C33'],
             dict(self=Obj('DefaultVector', _iotype='output', _alloc_complex=False, _name='nonlinear', _kind='output', _scaling=None, _n1=Size('n1'), _n2=Size('n2')),
                  parent_vector=parent, system=Obj('System')),
             requires=[] if _root else ['p1 == p0 + n1', 'p0 + n1 + n2 <= NP'],
             ensures=["self._views['a'].range == (0, n1) and self._views['b'].range == (n1, n1 + n2)",
                      'len(self._data) == n1 + n2',
                      # every variable's flat view is exactly its range of the data array (views tile [0, end) in order)
                      "is_view(self._views['a'].flat, self._data, 0, n1) and is_view(self._views['b'].flat, self._data, n1, n1 + n2)"] +
                     (['all(self._data[i] == 0 for i in range(n1 + n2))', 'self._parent_slice == slice(0, n1 + n2)'] if _root else
                      ['is_view(self._data, parent_vector._data, p0, p0 + n1 + n2)', 'self._parent_slice == slice(p0, p0 + n1 + n2)']),
             modifies=['self._views', 'self._data', 'self._parent_slice', 'self._names', 'self._scaling'],
             assumed={'system._name_shape_iter': Assumed(returns_expr="[('a', (self._n1,)), ('b', (self._n2,))]", note='System._name_shape_iter(iotype): (name, shape) pairs of this system in vector order'),
                      'shape_to_len': Assumed(returns_expr='arg0[0]')},
             inline={'set_view', '__init__', '_VecData'},
             name=DV + '::DefaultVector._initialize_data[%s, two variables]' % ('root' if _root else 'sub-vector of a parent'),
             canaries=[('every view starts at 0', ('views[name] = _VecData(shape, (start, end))', 'views[name] = _VecData(shape, (0, end))'), 'post')] if _root else
                      [('child data taken from the start of the parent array', ('self._parent_slice = slice(start, start + end)', 'self._parent_slice = slice(0, end)'), 'post')])
