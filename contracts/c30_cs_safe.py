"""C30 — complex-step-safe helpers agree with NumPy and differentiate exactly.

Complex values are dual numbers re + eps*im with eps**2 = 0 (assumption A3: first order in the
complex step); the analytic derivative table for sqrt / arctan2 / tanh is trusted mathematics."""
from pyvc.spec import *   # noqa

F = 'openmdao/utils/cs_safe.py'
SM = 'openmdao/jax_funcs/smooth.py'
DUAL = {'dual': True}


def native_cs(vals, np, om):
    from pyvc.native_helpers import A, Fl
    kw, sizes = {}, {}
    h = 1e-40
    for k, v in vals.items():
        if k.startswith('__'):
            continue
        if isinstance(v, dict) and '__arr__' in v:
            a = A(v, complex if v.get('dtype') == 'complex' else float)
            if a.dtype.kind == 'c':
                a = a.real + 1j * h * a.imag       # a genuine complex-step perturbation
            kw[k] = a
            sizes['n'] = len(a)
        elif isinstance(v, complex):
            kw[k] = complex(v.real, h * v.imag)
        elif v is None:
            kw[k] = None
        else:
            kw[k] = Fl(v)
    sizes['h'] = h
    sizes['approx_h'] = lambda a, b: abs(a - b) <= 1e-9 * h * (1 + abs(a) / h + abs(b) / h)
    return kw, sizes


# scalar abs: |re| and derivative sign(re)*dx, one-sided (+dx) at the kink re == 0 (code's choice)
contract(F + '::abs', ['C30'], dict(x=Real()),
         ensures=['result == (x if x >= 0 else -x)'], modifies=[], name=F + '::abs[real scalar]', native=native_cs)


class CxT(T):
    pass


contract(F + '::abs', ['C30'], dict(x=Arr('n')),
         ensures=['len(result) == n', 'all(result[i] == (x[i] if x[i] >= 0 else -x[i]) for i in range(n))'],
         modifies=[], name=F + '::abs[real array]', native=native_cs, defs={'NumPy2': True},
         canaries=[('sign dropped', ('return x * np.sign(x)', 'return x'), 'post')])

contract(F + '::abs', ['C30'], dict(x=Arr('n', dtype='complex')),
         ensures=['len(result) == n',
                  # real part = numpy abs of the real part; eps-part = sign(re) * dx, and |dx| at re == 0
                  'all(result[i].real == (x[i].real if x[i].real >= 0 else -x[i].real) for i in range(n))',
                  'all(implies(x[i].real > 0, approx_h(result[i].imag, x[i].imag)) and implies(x[i].real < 0, approx_h(result[i].imag, -x[i].imag)) for i in range(n))',
                  'all(implies(x[i].real == 0, approx_h(result[i].imag, (x[i].imag if x[i].imag >= 0 else -x[i].imag))) for i in range(n))'],
         modifies=[], name=F + '::abs[complex array]', native=native_cs, defs=DUAL,
         canaries=[('zero-real entries use the real sign', ('signs[z0_idx] = np.sign(x[z0_idx].imag) + 0j', 'signs[z0_idx] = np.sign(x[z0_idx].real) + 0j'), 'post')])

contract(F + '::norm', ['C30'], dict(x=Arr('n'), axis=None),
         ensures=['result >= 0', 'approx(result * result, Sum(n, lambda k: x[k] * x[k]))'],
         modifies=[], name=F + '::norm[real]', native=native_cs)

contract(F + '::norm', ['C30'], dict(x=Arr('n', dtype='complex'), axis=None),
         requires=['Sum(n, lambda k: x[k].real * x[k].real) > 0'],
         ensures=['result.real >= 0', 'approx(result.real * result.real, Sum(n, lambda k: x[k].real * x[k].real))',
                  # eps-part = sum_k x_k dx_k / ||x||  (derivative of the 2-norm)
                  'approx_h(result.imag * result.real, Sum(n, lambda k: x[k].real * x[k].imag))'],
         modifies=[], name=F + '::norm[complex]', native=native_cs, defs=DUAL,
         canaries=[('one factor of the square loses its perturbation', ('np.sum(x**2, axis=axis)', 'np.sum(x*x.real, axis=axis)'), 'post')])


def native_atan(vals, np, om):
    from pyvc.native_helpers import Fl
    h = 1e-40

    def cv(v):
        if isinstance(v, complex):
            return complex(v.real, h * v.imag)
        return Fl(v)
    return dict(y=cv(vals['y']), x=cv(vals['x'])), dict(h=h, atan2=np.arctan2,
                                                       approx_h=lambda a, b: abs(a - b) <= 1e-9 * h * (1 + abs(a) / h + abs(b) / h))


class _Cx(T):
    pass


contract(F + '::arctan2', ['C30'], dict(y=Real(), x=Real()),
         ensures=['result == atan2(y, x)'], modifies=[], name=F + '::arctan2[real]', native=native_atan)

contract(F + '::arctan2', ['C30'], dict(y=Complex(), x=Complex()),
         requires=['x.real * x.real + y.real * y.real > 0'],
         ensures=['result.real == atan2(y.real, x.real)',
                  # d/dt atan2(y, x) = (x dy - y dx) / (x^2 + y^2)
                  'approx_h(result.imag * (x.real * x.real + y.real * y.real), x.real * y.imag - y.real * x.imag)'],
         modifies=[], name=F + '::arctan2[complex]', native=native_atan, defs=DUAL,
         canaries=[('derivative numerator has the wrong sign', ('(c * b - a * d)', '(a * d - c * b)'), 'post')])


# ---------------------------------------------------------------------------------------------
# jax smooth helpers: identities that follow from tanh being odd, strictly inside (-1, 1), monotone
def native_smooth(vals, np, om):
    from pyvc.native_helpers import Fl
    return {k: Fl(v) for k, v in vals.items() if not k.startswith('__')}, {}


MU = ['mu > 0']
INL = {'act_tanh'}
contract(SM + '::act_tanh', ['C30'], dict(x=Real(), mu=Real(), z=Real(), a=Real(), b=Real()),
         requires=MU + ['a < b'],
         ensures=['a <= result and result <= b',                     # between the two levels (tanh saturates in floats)
                  'implies(x == z, 2 * result == a + b)',            # midpoint at the switch location
                  'implies(x > z, 2 * result >= a + b) and implies(x < z, 2 * result <= a + b)'],
         modifies=[], native=native_smooth,
         canaries=[('offset level dropped', ('return 0.5 * dy * (1. + tanh_term) + a', 'return 0.5 * dy * (1. + tanh_term)'), 'post')])

contract(SM + '::smooth_max', ['C30'], dict(x=Real(), y=Real(), mu=Real()), requires=MU,
         ensures=['result >= (x if x <= y else y)', 'result <= (x if x >= y else y)',
                  # closer to the larger argument than to the smaller one
                  '2 * result >= x + y'],
         modifies=[], inline=INL, native=native_smooth,
         canaries=[('weights swapped', ('return x_greater * x + y_greater * y', 'return x_greater * y + y_greater * x'), 'post')])

contract(SM + '::smooth_min', ['C30'], dict(x=Real(), y=Real(), mu=Real()), requires=MU,
         ensures=['result >= (x if x <= y else y)', 'result <= (x if x >= y else y)', '2 * result <= x + y'],
         modifies=[], inline=INL, native=native_smooth)

contract('verif:contracts/harness.py::smooth_max_plus_min', ['C30'], dict(x=Real(), y=Real(), mu=Real()), requires=MU,
         ensures=['approx(result, x + y)'], modifies=[], inline={'smooth_max', 'smooth_min', 'act_tanh'},
         name='lemma:smooth_max_plus_min', native=native_smooth)

contract(SM + '::smooth_abs', ['C30'], dict(x=Real(), mu=Real()), requires=MU,
         ensures=['result >= 0', 'result <= (x if x >= 0 else -x)', 'implies(x == 0, result == 0)'],
         modifies=[], inline=INL, native=native_smooth,
         canaries=[('switch levels not symmetric', ('act_tanh(x, mu, 0.0, -1.0, 1.0)', 'act_tanh(x, mu, 0.0, 0.0, 1.0)'), 'post')])

contract('verif:contracts/harness.py::smooth_abs_even', ['C30'], dict(x=Real(), mu=Real()), requires=MU,
         ensures=['approx(result[0], result[1])'], modifies=[], inline={'smooth_abs', 'act_tanh'},
         name='lemma:smooth_abs_even', native=native_smooth)

contract(SM + '::smooth_round', ['C30'], dict(x=Real(), mu=Real()), requires=MU,
         ensures=['result >= floor_(x)', 'result <= floor_(x) + 1',
                  'implies(2 * (x - floor_(x)) == 1, 2 * result == 2 * floor_(x) + 1)'],
         modifies=[], native=native_smooth)
