"""C07 — set_val / get_val round trip.  Under contract: the value conversions AllConnGraph.convert_set and convert_get
(units branch; index chains are C05 / the bounded tier): convert_set expresses a value given in `units` in the source's
units, convert_get expresses a source value in `units`; lemma (real source of both inlined, unit_conversion by its C06
contract shape): get(set(v)) == v for every compatible unit pair, every None-ness of the three unit arguments that does
not raise, and every array length.  The write-back through views/copies (set_subarray), name resolution and the setup
phases are decided in the BOUNDED tier bounded/c07_setget.py."""
from pyvc.spec import *   # noqa

CG = 'openmdao/core/conn_graph.py'

# unit_conversion(a, b) for the two unit strings 'S' (source: factor fs, offset os_) and 'U' (user: fu, ou), in the shape
# proved for openmdao.utils.units.unit_conversion under C06:  factor = f_a/f_b, offset = o_a - o_b*f_b/f_a
UC = Assumed(returns_expr="((self._fs / self._fu, self._os - self._ou * self._fu / self._fs) if arg0 == 'S' else (self._fu / self._fs, self._ou - self._os * self._fs / self._fu))",
             note='openmdao.utils.units.unit_conversion(old, new) -> (factor, offset): contract proved under C06 (compatible units)')
UNIT_PARAMS = {}
UNIT_REQ = ['self._fs > 0', 'self._fu > 0']


def graph():
    # _fs/_os, _fu/_ou: factor and offset of the unit strings 'S' and 'U' (ghost data carried on the graph object)
    return Obj('AllConnGraph', _fs=Real(), _os=Real(), _fu=Real(), _ou=Real(), nodes=DictT({('i', 'c.x'): DictT({'attrs': Obj('NodeAttrs', discrete=False, shape=TupleT(Size('n')), global_shape=TupleT(Size('n')))})}))


def native_c07(vals, np, om):
    return None


contract(CG + '::AllConnGraph.convert_set', ['C07'],
         dict(self=graph(), val=Arr('n'), src_units=OneOf(None, 'S'), tgt_units=OneOf(None, 'S', 'U'), src_inds_list=(), units=OneOf(None, 'S', 'U'), indices=None, **UNIT_PARAMS),
         requires=UNIT_REQ,
         raises_iff={'TypeError': "(units if units is not None else tgt_units) is not None and src_units is None"},
         ensures=["len(result) == n",
                  # u = the units the caller's value is in; stored value is that value expressed in the source's units
                  "implies((units if units is not None else tgt_units) is None or (units if units is not None else tgt_units) == 'S', all(result[i] == val[i] for i in range(n)))",
                  "implies((units if units is not None else tgt_units) == 'U', all(approx(result[i], ((val[i] + self._ou) * self._fu) / self._fs - self._os) for i in range(n)))"],
         modifies=[], inline={'get_subarray'}, assumed={'unit_conversion': UC}, name=CG + '::AllConnGraph.convert_set',
         canaries=[('conversion applied in the wrong direction', ('scale, offset = unit_conversion(units, src_units)', 'scale, offset = unit_conversion(src_units, units)'), 'post')])

contract(CG + '::AllConnGraph.convert_get', ['C07'],
         dict(self=graph(), node=Const(('i', 'c.x')), val=Arr('n'), src_units=OneOf(None, 'S'), tgt_units=OneOf(None, 'S', 'U'), src_inds_list=(), units=OneOf(None, 'S', 'U'),
              indices=None, get_remote=False, **UNIT_PARAMS),
         requires=UNIT_REQ + ["not (src_units is None and (units if units is not None else tgt_units) == 'U' and tgt_units == 'S')"],
         ensures=["len(result) == n",
                  "implies((units if units is not None else tgt_units) is None or (units if units is not None else tgt_units) == (src_units if src_units is not None else tgt_units), all(result[i] == val[i] for i in range(n)))",
                  "implies((units if units is not None else tgt_units) == 'U' and src_units == 'S', all(approx(result[i], ((val[i] + self._os) * self._fs) / self._fu - self._ou) for i in range(n)))"],
         modifies=[], inline={'get_subarray'}, assumed={'unit_conversion': UC}, name=CG + '::AllConnGraph.convert_get',
         canaries=[('offset added after scaling', ('return (val + offset) * scale', 'return val * scale + offset'), 'post')])

contract('verif:contracts/harness.py::set_then_get', ['C07'],
         dict(graph=graph(), node=Const(('i', 'c.x')), val=Arr('n'), src_units='S', tgt_units=OneOf(None, 'S', 'U'), units=OneOf(None, 'S', 'U'), **UNIT_PARAMS),
         requires=['graph._fs > 0', 'graph._fu > 0'],
         ensures=['len(result) == n', 'all(approx(result[i], val[i]) for i in range(n))'],
         modifies=[], inline={'convert_set', 'convert_get', 'get_subarray'}, assumed={'unit_conversion': UC},
         name='lemma:get_val(set_val(v)) == v in the same units',
         canaries=[('get converts with the set direction', ('scale, offset = unit_conversion(src_units, units)', 'scale, offset = unit_conversion(units, src_units)'), 'post', CG + '::AllConnGraph.convert_get')])
