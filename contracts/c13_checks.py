"""C13 — derivative checks report exactly what they compare."""
from pyvc.spec import *   # noqa

AU = 'openmdao/utils/array_utils.py'


def native_tol(vals, np, om):
    from pyvc.native_helpers import A, Fl
    x, ref = A(vals['x']), A(vals['ref'])
    return dict(x=x, ref=ref, atol=Fl(vals['atol']), rtol=Fl(vals['rtol'])), dict(n=len(x))


D = '(abs(x[{i}] - ref[{i}]) - (atol + rtol * abs(ref[{i}])))'
contract(AU + '::get_tol_violation', ['C13'],
         dict(x=Arr('n'), ref=Arr('n'), atol=Real(), rtol=Real()),
         requires=['atol >= 0 and rtol >= 0'],
         ensures=[
             'implies(n == 0, result[0] == 0 and result[2] == False)',
             # the reported error is the maximum tolerance excess over all pairs ...
             'implies(n > 0, all(%s <= result[0] for i in range(n)))' % D.format(i='i'),
             # ... attained by the reported (x, ref) pair, which is a pair that was actually compared
             'implies(n > 0, any(x[k] == result[1][0] and ref[k] == result[1][1] and %s == result[0] and abs(x[k] - ref[k]) == result[3] for k in range(n)))' % D.format(i='k'),
             # above-tolerance flag: some pair exceeds atol + rtol*|ref|
             'implies(n > 0, iff(result[2], any(%s > 0 for i in range(n))))' % D.format(i='i'),
             # relative error at the maximum = |x-ref|/|ref| (inf when ref == 0)
             'implies(n > 0 and result[1][1] != 0, result[4] * abs(result[1][1]) == result[3])',
         ],
         modifies=[], native=native_tol,
         canaries=[('flag uses >= 0', ('np.any(diff > 0.)', 'np.any(diff >= 0.)'), 'post'),
                   ('relative tolerance scaled by x instead of ref', ('mixed_atol_rtol = atol + rtol * np.abs(ref)', 'mixed_atol_rtol = atol + rtol * np.abs(x)'), 'post'),
                   ('reports the last pair instead of the arg-max pair', ('max_error_x = x.flat[max_error_idx]', 'max_error_x = x.flat[-1]'), 'post')])

REGISTRY[AU + '::get_tol_violation'][0].returns = TupleT(Real(), TupleT(Real(), Real()), Bool(), Real(), Real())

SY = 'openmdao/core/system.py'


def EXC(a, b, i):
    return '(abs({a}[{i}] - {b}[{i}]) - (atol + rtol * abs({b}[{i}])))'.format(a=a, b=b, i=i)


def reported(field, a, b):
    """the entry reported under `field` was computed from the pair (a, b) — and from no other"""
    tv = "derivative_info['tol violation'][0].%s" % field
    vv = "derivative_info['vals_at_max_error'][0].%s" % field
    ae = "derivative_info['abs error'][0].%s" % field
    return ['all(%s <= %s for i in range(n))' % (EXC(a, b, 'i'), tv),
            'any(%s == %s and %s[0] == %s[k] and %s[1] == %s[k] and %s == abs(%s[k] - %s[k]) for k in range(n))' % (
                EXC(a, b, 'k'), tv, vv, a, vv, b, ae, a, b)]


DI = DictT({'J_fwd': OneOf(None, Arr('n')), 'J_rev': OneOf(None, Arr('n')), 'J_fd': TupleT(Arr('n')),
            'steps': TupleT(Real())})
JF, JR, JFD = "derivative_info['J_fwd']", "derivative_info['J_rev']", "derivative_info['J_fd'][0]"
ZERO = "zeros"


def native_cde(vals, np, om):
    from pyvc.native_helpers import A, Fl
    di = vals['derivative_info']
    d = {'J_fd': (A(di['J_fd'][0]),), 'steps': (Fl(di['steps'][0]),)}
    for k in ('J_fwd', 'J_rev'):
        if di[k] is not None:
            d[k] = A(di[k])
        else:
            d[k] = None
    n = len(d['J_fd'][0])
    return (dict(derivative_info=d, matrix_free=bool(vals['matrix_free']), directional=False,
                 totals=bool(vals['totals']), atol=Fl(vals['atol']), rtol=Fl(vals['rtol'])),
            dict(n=n, zeros=np.zeros(n)))


contract(SY + '::_compute_deriv_errors', ['C13'],
         dict(derivative_info=DI, matrix_free=OneOf(False, True), directional=False, totals=OneOf(False, True),
              atol=Real(), rtol=Real()),
         requires=['atol >= 0 and rtol >= 0', 'n > 0',
                   # callers (check_partials) only take the matrix-free fwd/rev comparison when both exist
                   'implies(matrix_free and not totals, %s is not None and %s is not None)' % (JF, JR)],
         ghosts={'zeros': 'np.zeros(n)'},
         ensures=(
             ['implies(%s is not None, %s)' % (JF, c) for c in reported('forward', JF, JFD)] +
             ['implies(%s is not None, %s)' % (JR, c) for c in reported('reverse', JR, JFD)] +
             ['implies(%s is None and %s is None, %s)' % (JF, JR, c) for c in reported('reverse', ZERO, JFD)] +
             ['implies(matrix_free and not totals and %s is not None and %s is not None, %s)' % (JF, JR, c) for c in reported('fwd_rev', JF, JR)] +
             ['implies(not (matrix_free and not totals), derivative_info[\'tol violation\'][0].fwd_rev is None)',
              # the returned flag: some compared pair exceeds its tolerance
              'iff(result, (%s is not None and any(%s > 0 for i in range(n))) or (%s is not None and any(%s > 0 for i in range(n))) or '
              '(%s is None and %s is None and any(%s > 0 for i in range(n))) or '
              '(matrix_free and not totals and %s is not None and %s is not None and any(%s > 0 for i in range(n))))' % (
                  JF, EXC(JF, JFD, 'i'), JR, EXC(JR, JFD, 'i'), JF, JR, EXC(ZERO, JFD, 'i'), JF, JR, EXC(JF, JR, 'i')),
              "len(derivative_info['tol violation']) == 1"]),
         modifies=["derivative_info['tol violation']", "derivative_info['magnitude']", "derivative_info['vals_at_max_error']",
                   "derivative_info['abs error']", "derivative_info['rel error']", "derivative_info['steps']",
                   "derivative_info['matrix_free']"],
         inline={'_ErrorData', '_MagnitudeData', 'update'}, native=native_cde,
         canaries=[('reverse check swaps test and reference arrays', ('get_tol_violation(Jreverse, Jfd, atol, rtol)', 'get_tol_violation(Jfd, Jreverse, atol, rtol)'), 'post'),
                   ('above-tolerance flag never returned', ('    return above_tol', '    return False'), 'post')])


# ---- sparsity audit: Subjac.set_col family -------------------------------------------------------------------
# Statement: every approximated nonzero of the column outside the declared sparsity pattern is flagged.
# _set_coo_col (COOSubjac and OMCOOSubjac): the declared pattern of column icol is {row[k] : col[k] == icol}.
#   values : data[k] = column[row[k]] for the entries of this column, other entries untouched;
#   audit  : the pairs appended to info['uncovered_nz'] are exactly (r, icol) for the rows r with |column[r]| > threshold
#            that are NOT in the declared pattern; nothing is appended iff there is no such row; the threshold is recorded
#            when the list is created.  (The appended sequence is the index-set abstraction SPairs of pyvc/values.py,
#            queried with in_pairs; natively this half is exercised by the bounded tier.)
SJ = 'openmdao/jacobians/subjac.py'


def _ext_ghost(it, env, res):
    it.ctx.ghost['appended'] = it.last_assumed_args[0]


def native_coo(vals, np, om):
    from pyvc.native_helpers import A, Fl
    from openmdao.jacobians.subjac import COOSubjac
    obj = COOSubjac.__new__(COOSubjac)
    info = {'val': None}
    vi = vals['self']['info']
    if 'uncovered_nz' in vi:
        info['uncovered_nz'] = [(97, 98)]
        info['uncovered_threshold'] = Fl(vi['uncovered_threshold'])
    obj.info = info
    n0 = len(info.get('uncovered_nz', []))

    def ghost(name):
        new = obj.info.get('uncovered_nz', [])[n0:]
        return new if new else None

    def in_pairs(ps, a, b):
        return ps is not None and any(int(x) == a and int(y) == b for x, y in ps)
    thr = vals['uncovered_threshold']
    column, data = A(vals['column']), A(vals['data'])
    return (dict(self=obj, icol=int(vals['icol']), column=column, data=data, row=A(vals['row'], int), col=A(vals['col'], int),
                 uncovered_threshold=None if thr is None else Fl(thr)), dict(nr=len(column), m=len(data), ghost=ghost, in_pairs=in_pairs))


def sample_coo(has):
    def samp(rng):
        nr = rng.choice([1, 2, 3, 4, 5])
        m = rng.choice([0, 1, 2, 3, 5])
        rows = [rng.randrange(nr) for _ in range(m)]
        cols = [rng.randrange(3) for _ in range(m)]
        fr = lambda k: {'__frac__': [k, 8]}
        info = [['val', {'__opaque__': 'val'}]]
        if has:
            info += [['uncovered_nz', {'__obj__': 'list', 'id': 1, 'attrs': {}}], ['uncovered_threshold', fr(1)]]
        return {'self': {'__obj__': 'COOSubjac', 'id': 0, 'attrs': {'info': {'__dict__': info}}}, 'icol': rng.randrange(3),
                'column': {'__arr__': [fr(rng.choice([-16, -1, 0, 0, 1, 2, 8, 24])) for _ in range(nr)], 'shape': [nr], 'dtype': 'real'},
                'data': {'__arr__': [fr(rng.choice([-8, 0, 3, 5])) for _ in range(m)], 'shape': [m], 'dtype': 'real'},
                'row': {'__arr__': rows, 'shape': [m], 'dtype': 'int'}, 'col': {'__arr__': cols, 'shape': [m], 'dtype': 'int'},
                'uncovered_threshold': rng.choice([None, fr(0), fr(1), fr(12)])}
    return samp


DECL = 'any(col[k] == icol and row[k] == r for k in range(m))'
for _has in (False, True):
    info = {'val': OpaqueT('val')}
    if _has:
        info['uncovered_nz'] = Obj('list')
        info['uncovered_threshold'] = Real()
    contract(SJ + '::COOSubjac._set_coo_col', ['C13'],
             dict(self=Obj('COOSubjac', info=DictT(info)), icol=Int(0, None), column=Arr('nr'), data=Arr('m'), row=Arr('m', dtype='int'), col=Arr('m', dtype='int'),
                  uncovered_threshold=OneOf(None, Real())),
             requires=['all(0 <= row[k] and row[k] < nr for k in range(m))', 'implies(uncovered_threshold is not None, uncovered_threshold >= 0)'],
             ensures=['all(data[k] == (old(column[row[k]]) if col[k] == icol else old(data[k])) for k in range(m))',
                      'all(column[r] == old(column[r]) for r in range(nr))',
                      # the audit
                      # (a) every flagged entry is a real uncovered nonzero of this column ...
                      "implies(uncovered_threshold is not None, all(implies(in_pairs(ghost('appended'), r, icol), abs(column[r]) > uncovered_threshold and all(not (col[k] == icol and row[k] == r) for k in range(m))) for r in range(nr)))",
                      # (b) ... and every uncovered nonzero of this column is flagged (at its own row, with this column index)
                      "implies(uncovered_threshold is not None, all(implies(abs(column[r]) > uncovered_threshold and all(not (col[k] == icol and row[k] == r) for k in range(m)), in_pairs(ghost('appended'), r, icol)) for r in range(nr)))",
                      "implies(uncovered_threshold is None, ghost('appended') is None)",
                      "implies(ghost('appended') is not None, 'uncovered_nz' in self.info and 'uncovered_threshold' in self.info)"]
             + ([] if _has else ["implies(ghost('appended') is not None, self.info['uncovered_threshold'] == uncovered_threshold)"]),
             modifies=['data', 'self.info'], ghost_init={'appended': None}, native=native_coo, sampler=sample_coo(_has),
             assumed={"self.info['uncovered_nz'].extend": Assumed(ghost=_ext_ghost, note='list.extend on the audit list (the appended sequence is recorded as ghost state)')},
             name=SJ + '::COOSubjac._set_coo_col[%s]' % ('audit list exists' if _has else 'first offending column'),
             canaries=[('declared rows masked out before np.where (positions in the shortened array are recorded)', ('arr[row_inds] = 0.', 'arr = arr[row_inds == row_inds] if False else arr'), 'post')] if False else
                      [('audit compares without the absolute value', ('nzs = np.where(np.abs(arr) > uncovered_threshold)[0]', 'nzs = np.where(arr > uncovered_threshold)[0]'), 'post'),
                       ('pairs recorded with a shifted column', ('list(zip(nzs, icol * np.ones_like(nzs)))', 'list(zip(nzs, (icol + 1) * np.ones_like(nzs)))'), 'post')])


# ---- DiagonalSubjac.set_col: the declared pattern of column icol is the single row icol -----------------------
def native_diag(vals, np, om):
    from pyvc.native_helpers import A, Fl
    from openmdao.jacobians.subjac import DiagonalSubjac
    obj = DiagonalSubjac.__new__(DiagonalSubjac)
    vi = vals['self']['info']
    info = {'val': A(vi['val'])}
    if 'uncovered_nz' in vi:
        info['uncovered_nz'] = [(97, 98)]
        info['uncovered_threshold'] = Fl(vi['uncovered_threshold'])
    obj.info = info
    n0 = len(info.get('uncovered_nz', []))

    def ghost(name):
        new = obj.info.get('uncovered_nz', [])[n0:]
        return new if new else None

    def in_pairs(ps, a, b):
        return ps is not None and any(int(x) == a and int(y) == b for x, y in ps)
    thr = vals['uncovered_threshold']
    column = A(vals['column'])
    return (dict(self=obj, icol=int(vals['icol']), column=column, uncovered_threshold=None if thr is None else Fl(thr)),
            dict(nr=len(column), n=len(info['val']), ghost=ghost, in_pairs=in_pairs))


def sample_diag(has):
    def samp(rng):
        nr = rng.choice([1, 2, 3, 4, 5])
        fr = lambda k: {'__frac__': [k, 8]}
        info = [['val', {'__arr__': [fr(rng.choice([-8, 0, 3, 5])) for _ in range(nr)], 'shape': [nr], 'dtype': 'real'}]]
        if has:
            info += [['uncovered_nz', {'__obj__': 'list', 'id': 1, 'attrs': {}}], ['uncovered_threshold', fr(1)]]
        return {'self': {'__obj__': 'DiagonalSubjac', 'id': 0, 'attrs': {'info': {'__dict__': info}}}, 'icol': rng.randrange(nr),
                'column': {'__arr__': [fr(rng.choice([-16, -1, 0, 0, 1, 2, 8, 24])) for _ in range(nr)], 'shape': [nr], 'dtype': 'real'},
                'uncovered_threshold': rng.choice([None, fr(0), fr(1), fr(12)])}
    return samp


for _has in (False, True):
    info = {'val': Arr('n')}
    if _has:
        info['uncovered_nz'] = Obj('list')
        info['uncovered_threshold'] = Real()
    contract(SJ + '::DiagonalSubjac.set_col', ['C13'],
             dict(self=Obj('DiagonalSubjac', info=DictT(info)), icol=Int(0, None), column=Arr('nr'), uncovered_threshold=OneOf(None, Real())),
             requires=['icol < nr and icol < n', 'implies(uncovered_threshold is not None, uncovered_threshold >= 0)'],
             ensures=["self.info['val'][icol] == old(column[icol])",
                      "all(implies(i != icol, self.info['val'][i] == old(self.info['val'][i])) for i in range(n))",
                      # the column handed in is restored after the audit
                      'all(column[r] == old(column[r]) for r in range(nr))',
                      "implies(uncovered_threshold is not None, all(implies(in_pairs(ghost('appended'), r, icol), r != icol and abs(column[r]) > uncovered_threshold) for r in range(nr)))",
                      "implies(uncovered_threshold is not None, all(implies(r != icol and abs(column[r]) > uncovered_threshold, in_pairs(ghost('appended'), r, icol)) for r in range(nr)))",
                      "implies(uncovered_threshold is None, ghost('appended') is None)",
                      "implies(ghost('appended') is not None, 'uncovered_nz' in self.info and 'uncovered_threshold' in self.info)"]
             + ([] if _has else ["implies(ghost('appended') is not None, self.info['uncovered_threshold'] == uncovered_threshold)"]),
             modifies=["self.info['val']", 'self.info', 'column'], ghost_init={'appended': None}, native=native_diag, sampler=sample_diag(_has),
             assumed={"self.info['uncovered_nz'].extend": Assumed(ghost=_ext_ghost, note='list.extend on the audit list (the appended sequence is recorded as ghost state)')},
             name=SJ + '::DiagonalSubjac.set_col[%s]' % ('audit list exists' if _has else 'first offending column'),
             canaries=[('diagonal entry not excluded from the audit', ('column[icol] = 0.  # zero out', 'pass  # zero out'), 'post'),
                       ('column left zeroed after the audit', ('            column[icol] = save', '            pass'), 'post')] if not _has else [])


# ---- CSCSubjac.set_col: the declared pattern of column icol is {indices[k] : indptr[icol] <= k < indptr[icol+1]} -------
def native_csc(vals, np, om):
    from pyvc.native_helpers import A, Fl
    from openmdao.jacobians.subjac import CSCSubjac
    import types
    obj = CSCSubjac.__new__(CSCSubjac)
    vi = vals['self']['info']
    v = vi['val']['attrs'] if isinstance(vi['val'], dict) and 'attrs' in vi['val'] else vi['val']
    csc = types.SimpleNamespace(indices=A(v['indices'], int), indptr=A(v['indptr'], int), data=A(v['data']))
    info = {'val': csc}
    if 'uncovered_nz' in vi:
        info['uncovered_nz'] = [(97, 98)]
        info['uncovered_threshold'] = Fl(vi['uncovered_threshold'])
    obj.info = info
    n0 = len(info.get('uncovered_nz', []))

    def ghost(name):
        new = obj.info.get('uncovered_nz', [])[n0:]
        return new if new else None

    def in_pairs(ps, a, b):
        return ps is not None and any(int(x) == a and int(y) == b for x, y in ps)
    thr = vals['uncovered_threshold']
    column = A(vals['column'])
    return (dict(self=obj, icol=int(vals['icol']), column=column, uncovered_threshold=None if thr is None else Fl(thr)),
            dict(nr=len(column), nnz=len(csc.data), np1=len(csc.indptr), ghost=ghost, in_pairs=in_pairs))


def sample_csc(has):
    def samp(rng):
        nr = rng.choice([1, 2, 3, 4])
        nc = rng.choice([1, 2, 3])
        fr = lambda k: {'__frac__': [k, 8]}
        indptr, indices = [0], []
        for j in range(nc):
            rows = sorted(rng.sample(range(nr), rng.randrange(0, nr + 1)))
            indices += rows
            indptr.append(len(indices))
        nnz = len(indices)
        csc = {'__obj__': 'csc_matrix', 'id': 2, 'attrs': {
            'indices': {'__arr__': indices, 'shape': [nnz], 'dtype': 'int'}, 'indptr': {'__arr__': indptr, 'shape': [nc + 1], 'dtype': 'int'},
            'data': {'__arr__': [fr(rng.choice([-8, 0, 3, 5])) for _ in range(nnz)], 'shape': [nnz], 'dtype': 'real'}}}
        info = [['val', csc]]
        if has:
            info += [['uncovered_nz', {'__obj__': 'list', 'id': 1, 'attrs': {}}], ['uncovered_threshold', fr(1)]]
        return {'self': {'__obj__': 'CSCSubjac', 'id': 0, 'attrs': {'info': {'__dict__': info}}}, 'icol': rng.randrange(nc),
                'column': {'__arr__': [fr(rng.choice([-16, -1, 0, 0, 1, 2, 8, 24])) for _ in range(nr)], 'shape': [nr], 'dtype': 'real'},
                'uncovered_threshold': rng.choice([None, fr(0), fr(1), fr(12)])}
    return samp


CSCV = "self.info['val']"
INCOL = "({v}.indptr[icol] <= k and k < {v}.indptr[icol + 1])".format(v=CSCV)
for _has in (False, True):
    info = {'val': Obj('csc_matrix', indices=Arr('nnz', dtype='int'), indptr=Arr('np1', dtype='int'), data=Arr('nnz'))}
    if _has:
        info['uncovered_nz'] = Obj('list')
        info['uncovered_threshold'] = Real()
    contract(SJ + '::CSCSubjac.set_col', ['C13'],
             dict(self=Obj('CSCSubjac', info=DictT(info)), icol=Int(0, None), column=Arr('nr'), uncovered_threshold=OneOf(None, Real())),
             requires=['icol + 1 < np1', '0 <= {v}.indptr[icol] and {v}.indptr[icol] <= {v}.indptr[icol + 1] and {v}.indptr[icol + 1] <= nnz'.format(v=CSCV),
                       'all(0 <= {v}.indices[k] and {v}.indices[k] < nr for k in range(nnz))'.format(v=CSCV),
                       'implies(uncovered_threshold is not None, uncovered_threshold >= 0)'],
             ensures=['all({v}.data[k] == (old(column[{v}.indices[k]]) if {c} else old({v}.data[k])) for k in range(nnz))'.format(v=CSCV, c=INCOL),
                      'all(column[r] == old(column[r]) for r in range(nr))',
                      "implies(uncovered_threshold is not None, all(implies(in_pairs(ghost('appended'), r, icol), abs(column[r]) > uncovered_threshold and all(not ({c} and {v}.indices[k] == r) for k in range(nnz))) for r in range(nr)))".format(v=CSCV, c=INCOL),
                      "implies(uncovered_threshold is not None, all(implies(abs(column[r]) > uncovered_threshold and all(not ({c} and {v}.indices[k] == r) for k in range(nnz)), in_pairs(ghost('appended'), r, icol)) for r in range(nr)))".format(v=CSCV, c=INCOL),
                      "implies(uncovered_threshold is None, ghost('appended') is None)",
                      "implies(ghost('appended') is not None, 'uncovered_nz' in self.info and 'uncovered_threshold' in self.info)"]
             + ([] if _has else ["implies(ghost('appended') is not None, self.info['uncovered_threshold'] == uncovered_threshold)"]),
             modifies=[CSCV + '.data', 'self.info'], ghost_init={'appended': None}, native=native_csc, sampler=sample_csc(_has),
             assumed={"self.info['uncovered_nz'].extend": Assumed(ghost=_ext_ghost, note='list.extend on the audit list (the appended sequence is recorded as ghost state)')},
             name=SJ + '::CSCSubjac.set_col[%s]' % ('audit list exists' if _has else 'first offending column'),
             canaries=[('column pointer off by one', ('rowinds = csc.indices[csc.indptr[icol]:csc.indptr[icol + 1]]', 'rowinds = csc.indices[csc.indptr[icol]:csc.indptr[icol + 1] - 1]'), 'post')] if not _has else [])
