"""C13 — derivative checks report exactly what they compare."""
from pyvc.spec import *   # noqa

AU = 'openmdao/utils/array_utils.py'


def native_tol(vals, np, om):
    from pyvc.native_helpers import A, Fl
    x, ref = A(vals['x']), A(vals['ref'])
    return dict(x=x, ref=ref, atol=Fl(vals['atol']), rtol=Fl(vals['rtol'])), dict(n=len(x))


D = '(abs(x[{i}] - ref[{i}]) - (atol + rtol * abs(ref[{i}])))'
contract(AU + '::get_tol_violation', ['C13'],
         dict(x=Arr('n'), ref=Arr('n'), atol=Real(), rtol=Real()),
         requires=['atol >= 0 and rtol >= 0'],
         ensures=[
             'implies(n == 0, result[0] == 0 and result[2] == False)',
             # the reported error is the maximum tolerance excess over all pairs ...
             'implies(n > 0, all(%s <= result[0] for i in range(n)))' % D.format(i='i'),
             # ... attained by the reported (x, ref) pair, which is a pair that was actually compared
             'implies(n > 0, any(x[k] == result[1][0] and ref[k] == result[1][1] and %s == result[0] and abs(x[k] - ref[k]) == result[3] for k in range(n)))' % D.format(i='k'),
             # above-tolerance flag: some pair exceeds atol + rtol*|ref|
             'implies(n > 0, iff(result[2], any(%s > 0 for i in range(n))))' % D.format(i='i'),
             # relative error at the maximum = |x-ref|/|ref| (inf when ref == 0)
             'implies(n > 0 and result[1][1] != 0, result[4] * abs(result[1][1]) == result[3])',
         ],
         modifies=[], native=native_tol,
         canaries=[('flag uses >= 0', ('np.any(diff > 0.)', 'np.any(diff >= 0.)'), 'post'),
                   ('relative tolerance scaled by x instead of ref', ('mixed_atol_rtol = atol + rtol * np.abs(ref)', 'mixed_atol_rtol = atol + rtol * np.abs(x)'), 'post'),
                   ('reports the last pair instead of the arg-max pair', ('max_error_x = x.flat[max_error_idx]', 'max_error_x = x.flat[-1]'), 'post')])

REGISTRY[AU + '::get_tol_violation'][0].returns = TupleT(Real(), TupleT(Real(), Real()), Bool(), Real(), Real())

SY = 'openmdao/core/system.py'


def EXC(a, b, i):
    return '(abs({a}[{i}] - {b}[{i}]) - (atol + rtol * abs({b}[{i}])))'.format(a=a, b=b, i=i)


def reported(field, a, b):
    """the entry reported under `field` was computed from the pair (a, b) — and from no other"""
    tv = "derivative_info['tol violation'][0].%s" % field
    vv = "derivative_info['vals_at_max_error'][0].%s" % field
    ae = "derivative_info['abs error'][0].%s" % field
    return ['all(%s <= %s for i in range(n))' % (EXC(a, b, 'i'), tv),
            'any(%s == %s and %s[0] == %s[k] and %s[1] == %s[k] and %s == abs(%s[k] - %s[k]) for k in range(n))' % (
                EXC(a, b, 'k'), tv, vv, a, vv, b, ae, a, b)]


DI = DictT({'J_fwd': OneOf(None, Arr('n')), 'J_rev': OneOf(None, Arr('n')), 'J_fd': TupleT(Arr('n')),
            'steps': TupleT(Real())})
JF, JR, JFD = "derivative_info['J_fwd']", "derivative_info['J_rev']", "derivative_info['J_fd'][0]"
ZERO = "zeros"


def native_cde(vals, np, om):
    from pyvc.native_helpers import A, Fl
    di = vals['derivative_info']
    d = {'J_fd': (A(di['J_fd'][0]),), 'steps': (Fl(di['steps'][0]),)}
    for k in ('J_fwd', 'J_rev'):
        if di[k] is not None:
            d[k] = A(di[k])
        else:
            d[k] = None
    n = len(d['J_fd'][0])
    return (dict(derivative_info=d, matrix_free=bool(vals['matrix_free']), directional=False,
                 totals=bool(vals['totals']), atol=Fl(vals['atol']), rtol=Fl(vals['rtol'])),
            dict(n=n, zeros=np.zeros(n)))


contract(SY + '::_compute_deriv_errors', ['C13'],
         dict(derivative_info=DI, matrix_free=OneOf(False, True), directional=False, totals=OneOf(False, True),
              atol=Real(), rtol=Real()),
         requires=['atol >= 0 and rtol >= 0', 'n > 0',
                   # callers (check_partials) only take the matrix-free fwd/rev comparison when both exist
                   'implies(matrix_free and not totals, %s is not None and %s is not None)' % (JF, JR)],
         ghosts={'zeros': 'np.zeros(n)'},
         ensures=(
             ['implies(%s is not None, %s)' % (JF, c) for c in reported('forward', JF, JFD)] +
             ['implies(%s is not None, %s)' % (JR, c) for c in reported('reverse', JR, JFD)] +
             ['implies(%s is None and %s is None, %s)' % (JF, JR, c) for c in reported('reverse', ZERO, JFD)] +
             ['implies(matrix_free and not totals and %s is not None and %s is not None, %s)' % (JF, JR, c) for c in reported('fwd_rev', JF, JR)] +
             ['implies(not (matrix_free and not totals), derivative_info[\'tol violation\'][0].fwd_rev is None)',
              # the returned flag: some compared pair exceeds its tolerance
              'iff(result, (%s is not None and any(%s > 0 for i in range(n))) or (%s is not None and any(%s > 0 for i in range(n))) or '
              '(%s is None and %s is None and any(%s > 0 for i in range(n))) or '
              '(matrix_free and not totals and %s is not None and %s is not None and any(%s > 0 for i in range(n))))' % (
                  JF, EXC(JF, JFD, 'i'), JR, EXC(JR, JFD, 'i'), JF, JR, EXC(ZERO, JFD, 'i'), JF, JR, EXC(JF, JR, 'i')),
              "len(derivative_info['tol violation']) == 1"]),
         modifies=["derivative_info['tol violation']", "derivative_info['magnitude']", "derivative_info['vals_at_max_error']",
                   "derivative_info['abs error']", "derivative_info['rel error']", "derivative_info['steps']",
                   "derivative_info['matrix_free']"],
         inline={'_ErrorData', '_MagnitudeData', 'update'}, native=native_cde,
         canaries=[('reverse check swaps test and reference arrays', ('get_tol_violation(Jreverse, Jfd, atol, rtol)', 'get_tol_violation(Jfd, Jreverse, atol, rtol)'), 'post'),
                   ('above-tolerance flag never returned', ('    return above_tol', '    return False'), 'post')])
