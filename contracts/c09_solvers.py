"""C09 — iterative solvers honour their termination contract (IEEE-754 doubles, all norm
histories incl. NaN/inf).  Targets: openmdao/solvers/solver.py (+ overrides of _iter_initialize).
"""
from pyvc.spec import *   # noqa

F = 'openmdao/solvers/solver.py'

SYS = Obj('System', under_complex_step=OneOf(False, True), comm=Obj('Comm', rank=0), pathname='sys',
          msginfo=OpaqueT('msginfo'))


def nl_solver(cls='NonlinearSolver', ls=True, **extra):
    attrs = dict(
        _system=Callable(SYS),
        options=DictT({'maxiter': Int(), 'atol': FP(), 'rtol': FP(), 'iprint': Int(),
                       'stall_limit': Int(), 'stall_tol': FP(), 'stall_tol_type': OneOf('rel', 'abs'),
                       'err_on_non_converge': Bool(), 'debug_print': False}),
        _iter_count=Int(), _norm0=FP(), SOLVER='NL: X',
        _solver_info=Obj('SolverInfo', prefix=OpaqueT('prefix')))
    if ls:
        attrs['linesearch'] = OneOf(None, Obj('LS', options=DictT({'print_bound_enforce': Bool()})))
    attrs.update(extra)
    return Obj(cls, **attrs)


OPT = "self.options['%s']"
TOLS_OK = ['fp_finite(%s) and %s >= 0' % (OPT % 'atol', OPT % 'atol'),
           'fp_finite(%s) and %s >= 0' % (OPT % 'rtol', OPT % 'rtol'),
           'fp_finite(%s) and %s >= 0' % (OPT % 'stall_tol', OPT % 'stall_tol')]


def set_last(it, env, res):
    it.ctx.ghost['last_norm'] = res


def set_init(it, env, res):
    it.ctx.ghost['last_norm'] = res[1]
    it.ctx.ghost['norm0'] = res[0]


def count_iter(it, env, res):
    from pyvc.values import scalar_arith
    it.ctx.ghost['n_iter'] = scalar_arith('+', it.ctx.ghost['n_iter'], 1)


NORM_OK = 'is_nan(result) or result >= 0'
MET = "(ghost('last_norm') <= %s or ghost('last_norm') / ghost('norm0') <= %s)" % (OPT % 'atol', OPT % 'rtol')

NL_ASSUMED = {
    # arbitrary double: zero, tiny, huge, +inf, NaN.  This havoc is what makes the proof range over
    # every residual-norm history.
    'self._iter_get_norm': Assumed(returns=FP(), ensures=[NORM_OK], ghost=set_last,
                                   note='residual norm: any double that is NaN or >= 0'),
    'self._run_apply': Assumed(note='apply_nonlinear: no effect on solver state'),
    # (b) no iteration is started from an iterate that already meets a tolerance, except the
    # single forced iteration under complex step
    'self._single_iteration': Assumed(
        requires=['not (norm <= atol or norm / norm0 <= rtol) or (system.under_complex_step and self._iter_count == 0)',
                  # the iteration counter counts the iterations that are really performed
                  "ghost('n_iter') == self._iter_count"],
        ghost=count_iter,
        note='one solver iteration: assumed not to raise and not to touch solver control state'),
    'self._print_exc_debug_info': Assumed(),
}

def _rec_norm(it, env, res):
    from pyvc.values import scalar_arith
    it.ctx.ghost['n_evals'] = scalar_arith('+', it.ctx.ghost.get('n_evals', 0), 1)
    it.ctx.ghost['init_norm'] = res


def NORM_EVAL():
    return Assumed(returns=FP(), ensures=[NORM_OK], ghost=_rec_norm)


# the norm handed back is the residual norm of the INITIAL ITERATE, evaluated exactly once (it is the value the
# tolerances are first tested against); `guard` = the condition under which the class evaluates it
def evaluated(guard):
    return ["implies(%s, ghost('n_evals') == 1)" % guard,
            "implies(%s, same_fp(result[1], ghost('init_norm')))" % guard]


INIT_CONTRACT_ENS = [
    # abstract contract shared by every _iter_initialize (A7: overrides verified separately)
    'result[0] != 0.0',
    'is_nan(result[1]) or result[1] >= 0',
    'implies(result[1] != 0.0, same_fp(result[0], result[1]))',
    'implies(result[1] == 0.0, result[0] == 1.0)',
]

contract(F + '::NonlinearSolver._iter_initialize', ['C09'],
         dict(self=nl_solver(_err_cache=DictT({}))), returns=TupleT(FP(), FP()),
         ensures=INIT_CONTRACT_ENS, ensures_check_only=evaluated("self.options['maxiter'] > 0"), modifies=[], fp=True, ghost_init={'n_evals': 0, 'init_norm': None},
         assumed={'self._iter_get_norm': NORM_EVAL(),
                  'self._run_apply': Assumed()},
         canaries=[('zero initial norm not replaced by 1', ('norm0 = norm if norm != 0.0 else 1.0', 'norm0 = norm'), 'post'),
                   ('initial residual not evaluated when exactly one iteration is allowed', ("if self.options['maxiter'] > 0:", "if self.options['maxiter'] > 1:"), 'post')])

POST_SOLVE = [
    # (a) at most maxiter iterations, except the single forced iteration under complex step
    "self._iter_count >= 0",
    "self._iter_count <= %s or self._iter_count == 0 or (self._system().under_complex_step and self._iter_count == 1)" % (OPT % 'maxiter'),
    # (c)+(e) a failure is reported exactly when no tolerance is met by the last iterate
    "iff(ghost('reported'), not %s)" % MET,
    # _iter_count is the number of iterations actually performed
    "ghost('n_iter') == self._iter_count",
]

SOLVE_MODIFIES = ['self._iter_count', 'self._norm0', "self.linesearch.options['print_bound_enforce']"]

NL_INV = [
    'self._iter_count >= 0',
    "self._iter_count <= maxiter or self._iter_count == 0 or (system.under_complex_step and self._iter_count == 1)",
    'implies(force_one_iteration, self._iter_count == 0 and system.under_complex_step)',
    "same_fp(norm, ghost('last_norm'))", "same_fp(norm0, ghost('norm0'))", 'same_fp(self._norm0, norm0)',
    'norm0 != 0.0', 'is_nan(norm0) or norm0 > 0', 'is_nan(norm) or norm >= 0',
    # reachable-state facts about NaN propagation (without them the cut state is too liberal)
    'implies(is_nan(norm0), is_nan(norm) or system.under_complex_step)',
    "not ghost('reported')",
    "ghost('n_iter') == self._iter_count",
    "implies(self.linesearch is not None, same_fp_bool(self.linesearch.options['print_bound_enforce'], old(self.linesearch.options['print_bound_enforce'])))",
]

contract(F + '::NonlinearSolver._solve', ['C09'], dict(self=nl_solver()),
         requires=TOLS_OK, fp=True,
         ensures=POST_SOLVE + ["not (ghost('reported') and %s)" % (OPT % 'err_on_non_converge')],
         may_raise=['AnalysisError'],
         exc_ensures=["raised == 'AnalysisError'", "ghost('reported') and %s" % (OPT % 'err_on_non_converge')] + POST_SOLVE,
         modifies=SOLVE_MODIFIES,
         invariants={'loop0': NL_INV},
         assumed=dict(NL_ASSUMED), inline={'_inf_nan_failure', '_convergence_failure', 'report_failure'},
         ghost_init={'reported': False, 'n_iter': 0}, ghost_on_call={'report_failure': {'reported': True}},
         ghost_on_result={'_iter_initialize': set_init}, max_paths=3000, defs={'fp_div': 'uf'})


# ---------------------------------------------------------------------------------------------
# native side: a real solver driven by a scripted norm history
def _opts(vals):
    return {k: v for k, v in vals['self']['options'].items()}


def _flt(x):
    from fractions import Fraction
    if isinstance(x, Fraction):
        return float(x)
    return x


def native_scripted(kind):
    def build(vals, np, om):
        from pyvc.native_helpers import make_scripted_solver
        sv = vals['self']
        opts = {k: _flt(v) for k, v in sv['options'].items()}
        cs = bool(sv['_system']['__callable__'].get('under_complex_step', False))
        ls = sv.get('linesearch')
        ls = None if ls is None else {'print_bound_enforce': bool(ls['options']['print_bound_enforce'])}
        script = [float(x) for x in vals.get('__script__', [])]
        s, state = make_scripted_solver(kind, opts, script, cs, ls)
        s._iter_count = int(sv.get('_iter_count', 0))

        def ghost(name):
            if name == 'norm0':
                return s._norm0
            if name == 'n_iter':
                return state['iters']          # calls of _single_iteration counted by the scripted solver
            return state[name]
        return dict(self=s), dict(ghost=ghost, __state__=state)
    return build


def expand_scenarios(vals):
    """Bounded search for a real norm history: pool = every double in the counter-model plus
    0, tiny, 1, inf, nan; scripts up to length 4."""
    import itertools
    pool = []

    def add(x):
        try:
            x = float(x)
        except Exception:
            return
        if not any((x == y) or (x != x and y != y) for y in pool):
            pool.append(x)
    for x in (float('nan'), 1.0, 0.0, float('inf')):
        add(x)
    for nm, v in list(vals.get('__aux__', [])) + list(vals.get('__consts__', [])):
        if isinstance(v, (list, tuple)):
            for y in v:
                add(y)
        else:
            add(v)
    o = vals['self']['options']
    for k in ('atol', 'rtol', 'stall_tol'):
        if k in o:
            add(o[k])
            add(float(o[k]) * 2)
            add(float(o[k]) / 2)
    add(1e-300)
    pool = pool[:9]
    for L in (1, 2, 3):
        for script in itertools.product(pool, repeat=L):
            v2 = dict(vals)
            v2['__script__'] = list(script)
            v2['__scenario__'] = True
            yield v2


def scenario_sampler(kind):
    def samp(rng):
        vals_pool = [0.0, 1e-12, 1e-10, 0.9e-8, 1e-8, 1.5e-8, 1e-6, 0.5, 1.0, 2.0, 1e5, float('inf'), float('nan')]
        tol_pool = [0.0, 1e-10, 1e-8, 1e-6, 0.5]
        opts = {'maxiter': rng.choice([0, 1, 2, 3, 5]), 'atol': rng.choice(tol_pool), 'rtol': rng.choice(tol_pool),
                'iprint': -1, 'err_on_non_converge': rng.random() < 0.5, 'debug_print': False}
        if kind == 'nonlinear':
            opts.update({'stall_limit': rng.choice([0, 0, 1, 2, 3]), 'stall_tol': rng.choice([1e-12, 1e-8, 1e-3]),
                         'stall_tol_type': rng.choice(['rel', 'abs'])})
        script = [rng.choice(vals_pool) for _ in range(rng.randint(1, 6))]
        sv = {'__obj__': 'Solver', 'id': 0, 'attrs': {
            'options': {'__dict__': [[k, ({'__float__': repr(v)} if isinstance(v, float) else v)] for k, v in opts.items()]},
            '_system': {'__callable__': {'__obj__': 'System', 'id': 1, 'attrs': {'under_complex_step': rng.random() < 0.25}}},
            '_iter_count': 0, 'linesearch': None}}
        return {'self': sv, '__script__': [{'__float__': repr(x)} for x in script], '__scenario__': True}
    return samp


NO_ITER_AFTER_MET = ("all(not (x <= self.options['atol'] or x / ghost('norm0') <= self.options['rtol']) or "
                     "(self._system().under_complex_step and k == 0) for k, x in enumerate(ghost('single_iteration_norms')))")
for _c in REGISTRY[F + '::NonlinearSolver._solve']:
    _c.native_ensures = [NO_ITER_AFTER_MET]
    _c.native = native_scripted('nonlinear')
    _c.native_expand = expand_scenarios
    _c.sampler = scenario_sampler('nonlinear')


# ---------------------------------------------------------------------------------------------
# LinearSolver._solve (block linear solvers): same contract without stall detection
def ln_solver(cls='LinearSolver', **extra):
    attrs = dict(
        _system=Callable(SYS),
        options=DictT({'maxiter': Int(), 'atol': FP(), 'rtol': FP(), 'iprint': Int(),
                       'err_on_non_converge': Bool()}),
        _iter_count=Int(), _norm0=FP(), SOLVER='LN: X',
        _solver_info=Obj('SolverInfo', prefix=OpaqueT('prefix')))
    attrs.update(extra)
    return Obj(cls, **attrs)


LN_ASSUMED = dict(NL_ASSUMED)
LN_ASSUMED['self._single_iteration'] = Assumed(
    requires=['not (norm <= atol or norm / norm0 <= rtol)', "ghost('n_iter') == self._iter_count"], ghost=count_iter,
    note='one solver iteration: assumed not to raise and not to touch solver control state')
# LinearSolver itself has no _iter_initialize; concrete block solvers provide it (verified below
# against the same abstract contract)
LN_ASSUMED['self._iter_initialize'] = Assumed(returns=TupleT(FP(), FP()), ensures=INIT_CONTRACT_ENS, ghost=set_init,
                                              note='abstract _iter_initialize contract (proved for BlockLinearSolver/LinearBlockGS)')

LN_INV = [
    'self._iter_count >= 0', 'self._iter_count <= maxiter or self._iter_count == 0',
    "same_fp(norm, ghost('last_norm'))", "same_fp(norm0, ghost('norm0'))", 'same_fp(self._norm0, norm0)',
    'norm0 != 0.0', 'is_nan(norm0) or norm0 > 0', 'is_nan(norm) or norm >= 0',
    'implies(is_nan(norm0), is_nan(norm))',
    "not ghost('reported')",
    "ghost('n_iter') == self._iter_count",
]

contract(F + '::LinearSolver._solve', ['C09'], dict(self=ln_solver()),
         requires=TOLS_OK[:2], fp=True,
         ensures=["self._iter_count >= 0", "self._iter_count <= %s or self._iter_count == 0" % (OPT % 'maxiter'),
                  "iff(ghost('reported'), not %s)" % MET, "ghost('n_iter') == self._iter_count",
                  "not (ghost('reported') and %s)" % (OPT % 'err_on_non_converge')],
         may_raise=['AnalysisError'],
         exc_ensures=["raised == 'AnalysisError'", "ghost('reported') and %s" % (OPT % 'err_on_non_converge'),
                      "iff(ghost('reported'), not %s)" % MET],
         modifies=['self._iter_count', 'self._norm0'],
         invariants={'loop0': LN_INV}, assumed=LN_ASSUMED,
         inline={'_inf_nan_failure', '_convergence_failure', 'report_failure'},
         ghost_init={'reported': False, 'n_iter': 0}, ghost_on_call={'report_failure': {'reported': True}},
         max_paths=3000, defs={'fp_div': 'uf'},
         native=native_scripted('linear'), native_expand=expand_scenarios, sampler=scenario_sampler('linear'),
         native_ensures=["all(not (x <= self.options['atol'] or x / ghost('norm0') <= self.options['rtol']) for x in ghost('single_iteration_norms'))"],
         canaries=[('loop guard ignores rtol', ('while self._iter_count < maxiter and norm > atol and norm / norm0 > rtol:',
                                                'while self._iter_count < maxiter and norm > atol:'), 'pre@callee'),
                   ('maxiter off by one', ('while self._iter_count < maxiter and', 'while self._iter_count <= maxiter and'), 'post')])

for _c in REGISTRY[F + '::NonlinearSolver._solve']:
    _c.canaries = [
        ('stall failure reported without looking at the tolerances', ('elif stalled and not (norm <= atol or norm / norm0 <= rtol):', 'elif stalled:'), 'post'),
        ('loop continues although atol is met', ('norm > atol and norm / norm0 > rtol and\n                not stalled', 'norm / norm0 > rtol and\n                not stalled'), 'pre@callee'),
        ('convergence failure not reported', ('            self._convergence_failure()', '            pass'), 'post'),
    ]

# Solver.report_failure: raises AnalysisError exactly when err_on_non_converge is set
contract(F + '::Solver.report_failure', ['C09'],
         dict(self=Obj('Solver', _system=Callable(SYS), SOLVER='X',
                       options=DictT({'iprint': Int(), 'err_on_non_converge': Bool(), 'debug_print': OneOf(False, True)}),
                       _solver_info=Obj('SolverInfo', prefix=OpaqueT('prefix'))), msg=OpaqueT('msg')),
         raises_iff={'AnalysisError': "self.options['err_on_non_converge']"}, modifies=[], fp=True,
         assumed={'self._print_exc_debug_info': Assumed()},
         canaries=[('error flag ignored', ("if self.options['err_on_non_converge']:", "if False:"), 'exc')])

# ---- overrides of _iter_initialize against the same abstract contract -----------------------------
NRM = {'self._iter_get_norm': NORM_EVAL(), 'self._run_apply': Assumed(),
       'self._update_rhs_vec': Assumed(), 'system._guess_nonlinear': Assumed(), 'self._gs_iter': Assumed(),
       'self._solver_info.append_solver': Assumed(), 'self._solver_info.pop': Assumed(),
       'system._inputs._copy_vars': Assumed(returns=OpaqueT()), 'system._outputs._copy_vars': Assumed(returns=OpaqueT()),
       'system._outputs.asarray': Assumed(returns=OpaqueT()), 'np.linalg.norm': Assumed(returns=FP()),
       'self._system()._doutputs.asarray': Assumed(returns=OpaqueT()), 'self._system()._dresiduals.asarray': Assumed(returns=OpaqueT())}

contract(F + '::BlockLinearSolver._iter_initialize', ['C09'],
         dict(self=ln_solver('BlockLinearSolver')), returns=TupleT(FP(), FP()),
         # (block linear solvers deliberately skip the initial norm when a single sweep is requested)
         ensures=INIT_CONTRACT_ENS, ensures_check_only=evaluated("self.options['maxiter'] > 1"), modifies=[], fp=True, assumed=NRM, ghost_init={'n_evals': 0, 'init_norm': None},
         canaries=[('zero initial norm not replaced by 1', ('norm0 = norm if norm != 0.0 else 1.0', 'norm0 = norm'), 'post')])

contract('openmdao/solvers/linear/linear_block_gs.py::LinearBlockGS._iter_initialize', ['C09'],
         dict(self=ln_solver('LinearBlockGS', _mode=OneOf('fwd', 'rev'), _delta_d_n_1=None, _theta_n_1=FP(),
                             options=DictT({'maxiter': Int(), 'atol': FP(), 'rtol': FP(), 'iprint': Int(),
                                            'err_on_non_converge': Bool(), 'use_aitken': OneOf(False, True)}))),
         returns=TupleT(FP(), FP()), ensures=INIT_CONTRACT_ENS, modifies=['self._delta_d_n_1', 'self._theta_n_1'],
         fp=True, assumed=NRM)

SYS_NL = Obj('System', under_complex_step=OneOf(False, True), comm=Obj('Comm', rank=0), pathname='sys',
             _has_guess=OneOf(False, True), _inputs=OpaqueT('inputs'), _outputs=OpaqueT('outputs'))
contract('openmdao/solvers/nonlinear/newton.py::NewtonSolver._iter_initialize', ['C09'],
         dict(self=nl_solver('NewtonSolver', ls=False, _system=Callable(SYS_NL), _restarted=OneOf(False, True),
                             _err_cache=DictT({}),
                             options=DictT({'maxiter': Int(), 'atol': FP(), 'rtol': FP(), 'iprint': Int(),
                                            'err_on_non_converge': Bool(), 'debug_print': OneOf(False, True),
                                            'solve_subsystems': OneOf(False, True), 'max_sub_solves': Int()}))),
         returns=TupleT(FP(), FP()), ensures=INIT_CONTRACT_ENS, ensures_check_only=evaluated('True'), modifies=['self._err_cache'], fp=True, assumed=NRM, ghost_init={'n_evals': 0, 'init_norm': None},
         canaries=[('zero initial norm not replaced by 1', ('norm0 = norm if norm != 0.0 else 1.0', 'norm0 = norm'), 'post')])

contract('openmdao/solvers/nonlinear/nonlinear_block_gs.py::NonlinearBlockGS._iter_initialize', ['C09'],
         dict(self=nl_solver('NonlinearBlockGS', ls=False, _system=Callable(SYS_NL), _restarted=OneOf(False, True),
                             _err_cache=DictT({}), _delta_outputs_n_1=None, _theta_n_1=FP(),
                             options=DictT({'maxiter': Int(), 'atol': FP(), 'rtol': FP(), 'iprint': Int(),
                                            'err_on_non_converge': Bool(), 'debug_print': False,
                                            'use_aitken': OneOf(False, True), 'cs_reconverge': False}))),
         returns=TupleT(FP(), FP()), ensures=INIT_CONTRACT_ENS, ensures_check_only=evaluated("self.options['maxiter'] > 0"),
         modifies=['self._err_cache', 'self._delta_outputs_n_1', 'self._theta_n_1'], fp=True, assumed=NRM, ghost_init={'n_evals': 0, 'init_norm': None},
         inline={'_iter_initialize'})
