"""C21 — optimizer success implies a feasible reported design (what the driver hands to scipy).

scipy itself is outside any contract.  What IS under contract is the translation of OpenMDAO's per-element
lower / upper / equals bounds into the functions scipy drives to >= 0 / == 0:
  * ScipyOptimizeDriver._confunc: its sign is the feasibility of exactly element idx w.r.t. exactly that
    element's bound;
  * the constraint-building loop body inside ScipyOptimizeDriver.run (old-style dict constraints), extracted
    mechanically on every run (pyvc/extract.py make_fragment): one iteration registers element j once, a second
    time (dbl=True) iff element j is bounded on both sides, and leaves the loop-carried bounds untouched."""
from pyvc.spec import *   # noqa

SO = 'openmdao/drivers/scipy_optimizer.py'

U = '(upper if is_scalar(upper) else upper[j])'
L = '(lower if is_scalar(lower) else lower[j])'

def _native_loopbody(vals, np, om):
    from pyvc.native_helpers import A, Fl

    def bound(v):
        return A(v, float) if isinstance(v, dict) and '__arr__' in v else Fl(v)
    up, lo = bound(vals['upper']), bound(vals['lower'])
    eq = vals['meta']['equals']
    size = len(up) if hasattr(up, '__len__') else (len(lo) if hasattr(lo, '__len__') else int(vals.get('__sizes__', {}).get('size', 1)))
    kw = dict(meta={'equals': None if eq is None else np.zeros(size)}, self=om.ScipyOptimizeDriver(), opt=vals['opt'], name=vals['name'],
              j=int(vals['j']), constraints=[], upper=up, lower=lo)
    return kw, dict(size=size)


def _sample_loopbody(rng):
    from pyvc.sample import frac
    size = rng.randint(1, 3)

    def bound(sign):
        def one():
            return rng.choice([frac(rng), {'__frac__': [sign * 10 ** 30, 1]}])
        if rng.random() < 0.6:
            return {'__arr__': [one() for _ in range(size)], 'shape': [size], 'dtype': 'real'}
        return one()
    return {'meta': {'__dict__': [['equals', rng.choice([None, {'__opaque__': 'equals'}])]]},
            'self': {'__obj__': 'ScipyOptimizeDriver', 'id': 0, 'attrs': {}}, 'opt': rng.choice(['SLSQP', 'COBYLA']), 'name': 'con',
            'j': rng.randrange(size), 'constraints': {'__seq__': [], 'tuple': False}, 'upper': bound(1), 'lower': bound(-1),
            '__sizes__': {'size': size}}


contract(SO + '::ScipyOptimizeDriver.run@loopbody(con_dict)', ['C21'],
         dict(meta=DictT({'equals': OneOf(None, OpaqueT('equals'))}), self=Obj('ScipyOptimizeDriver'),
              opt=OneOf('SLSQP', 'COBYLA'), name='con', j=Int(0, None), constraints=ListT(),
              upper=OneOf(Real(), Arr('size')), lower=OneOf(Real(), Arr('size'))),
         requires=['j < size'],
         ensures=[
             # element j is registered (single-sided form) exactly once ...
             "result['constraints'][0]['args'][0] == 'con' and result['constraints'][0]['args'][1] is False and result['constraints'][0]['args'][2] == j",
             "result['constraints'][0]['type'] == ('eq' if meta['equals'] is not None else 'ineq')",
             # ... and a second time as the upper-bound side iff ITS OWN bounds are both finite
             "len(result['constraints']) == (2 if (%s < INF_BOUND and %s > -INF_BOUND) else 1)" % (U, L),
             "implies(len(result['constraints']) == 2, result['constraints'][1]['args'][0] == 'con' and result['constraints'][1]['args'][1] is True and result['constraints'][1]['args'][2] == j and result['constraints'][1]['type'] == 'ineq')",
             # loop-carried state: the next iteration still sees the whole constraint's bounds
             "same_object(result['upper'], upper) and same_object(result['lower'], lower)"],
         modifies=['constraints'], name=SO + '::ScipyOptimizeDriver.run[dict-constraint loop body]',
         defs={'opaque_classes': ['WeakMethodWrapper']}, native=_native_loopbody, sampler=_sample_loopbody,
         canaries=[('bounds rebound to their own element inside the loop (the defect repaired in /repo)',
                    ('upper_j = upper[j] if isinstance(upper, np.ndarray) else upper\n                        lower_j = lower[j] if isinstance(lower, np.ndarray) else lower\n\n                        dblcon = (upper_j < INF_BOUND) and (lower_j > -INF_BOUND)',
                     'upper = upper[j] if isinstance(upper, np.ndarray) else upper\n                        lower = lower[j] if isinstance(lower, np.ndarray) else lower\n\n                        dblcon = (upper < INF_BOUND) and (lower > -INF_BOUND)'),
                    'post', SO + '::ScipyOptimizeDriver.run'),
                   ('two-sidedness decided from the upper bound only', ('dblcon = (upper_j < INF_BOUND) and (lower_j > -INF_BOUND)', 'dblcon = (upper_j < INF_BOUND)'), 'post', SO + '::ScipyOptimizeDriver.run'),
                   ('second registration flagged single-sided', ("dcon_dict['args'] = [name, True, j]", "dcon_dict['args'] = [name, False, j]"), 'post', SO + '::ScipyOptimizeDriver.run')])


# ---- _confunc: sign <-> feasibility of exactly element idx ------------------------------------------------------
def sdriver(equals):
    bd = lambda: DictT({'constraint': DictT({'con': Arr('n')})})
    return Obj('ScipyOptimizeDriver', _exc_info=None, _con_cache=DictT({'con': Arr('n')}),
               _cons=DictT({'con': DictT({'equals': equals})}),
               _autoscaler=Obj('Autoscaler', _scaled_lower=bd(), _scaled_upper=bd(), _scaled_equals=bd()))


def B(which, obj='self', i='idx'):
    return "%s._autoscaler._scaled_%s['constraint']['con'][%s]" % (obj, which, i)


LO, UP, EQ = B('lower'), B('upper'), B('equals')
CV = "self._con_cache['con'][idx]"

contract(SO + '::ScipyOptimizeDriver._confunc', ['C21'],
         dict(self=sdriver(OneOf(None, OpaqueT('equals'))), x_new=Arr('nx'), name='con', dbl=OneOf(False, True), idx=Int(0, None)),
         requires=['idx < n'],
         ensures=[
             # equality constraints: zero exactly at the requested value
             "implies(self._cons['con']['equals'] is not None, result == %s - %s)" % (CV, EQ),
             # inequality: scipy's 'satisfied when >= 0' is the bound of THIS element
             "implies(self._cons['con']['equals'] is None and (dbl or %s <= -INF_BOUND), iff(result >= 0, %s <= %s))" % (LO, CV, UP),
             "implies(self._cons['con']['equals'] is None and not dbl and %s > -INF_BOUND, iff(result >= 0, %s >= %s))" % (LO, CV, LO)],
         modifies=[], inline={'get_bounds_scaling'}, name=SO + '::ScipyOptimizeDriver._confunc', returns=Real(),
         canaries=[('lower-bound side returns the upper-bound residual', ('return cons[name][idx] - lower', 'return upper - cons[name][idx]'), 'post'),
                   ('bounds of element 0 used for every element', ('upper = upper_con[name][idx]', 'upper = upper_con[name][0]'), 'post')])

# lemma over contracts: all values scipy drives to >= 0 for element j  ==>  element j is within its finite bounds
LJ, UJ = B('lower', 'driver', 'j'), B('upper', 'driver', 'j')
contract('verif:contracts/harness.py::registered_constraint_values', ['C21'],
         dict(driver=sdriver(None), x=Arr('nx'), name='con', j=Int(0, None), both_sides=Bool()),
         requires=['j < n'],
         ensures=["implies(iff(both_sides, %s < INF_BOUND and %s > -INF_BOUND) and result[0] >= 0 and result[1] >= 0, "
                  "(%s <= -INF_BOUND or driver._con_cache['con'][j] >= %s) and (%s >= INF_BOUND or driver._con_cache['con'][j] <= %s))" % (UJ, LJ, LJ, LJ, UJ, UJ)],
         modifies=[], name='lemma:registered_constraints_imply_feasible')


# ---- new-style constraints (trust-constr, COBYQA, ...): the NonlinearConstraint branch of run -------------------
# Fragment = true branch of `if opt in _supports_new_style and _use_new_style:`; `constraints` is the growing list
# handed to scipy, modelled by ghost state: n_app = number of appended objects; every append is checked (as a
# precondition of the assumed list.append) to be THE constraint of element number n_app with that element's clipped
# bounds, so after the statement every element 0..size-1 has been handed over exactly once, in order.
def _app_ghost(it, env, res):
    from pyvc.values import scalar_arith
    it.ctx.ghost['n_app'] = scalar_arith('+', it.ctx.ghost['n_app'], 1)


CLIPL = '(lb_[%s] if lb_[%s] > -INF_BOUND else -INF_BOUND)'
CLIPU = '(ub_[%s] if ub_[%s] < INF_BOUND else INF_BOUND)'
LBUB = {'lb_': '(equals if equals is not None else lower)', 'ub_': '(equals if equals is not None else upper)'}


def sub(s):
    for k, v in LBUB.items():
        s = s.replace(k, v)
    return s


N = "ghost('n_app')"
contract(SO + '::ScipyOptimizeDriver.run@ifbody(NonlinearConstraint)', ['C21'],
         dict(equals=OneOf(None, Arr('size')), lower=Arr('size'), upper=Arr('size'), linear=False, lincongrad=None, name='con',
              self=Obj('ScipyOptimizeDriver', _con_idx=DictT({'con': 0})), size=Size('size'), con=None, constraints=Obj('list')),
         requires=['size >= 1'],
         ensures=[N + ' == size'],
         invariants={'loop0': [N + ' == _k']},
         modifies=[], name=SO + '::ScipyOptimizeDriver.run[new-style nonlinear constraints]',
         ghost_init={'n_app': 0},
         defs={'opaque_classes': ['WeakMethodWrapper']},
         assumed={'signature_extender': Assumed(returns_expr="('ext', arg0, arg1)", note='signature_extender(fn, extra_args): calls fn(x, *extra_args)'),
                  'NonlinearConstraint': Assumed(returns_expr="('nlc', kw_lb, kw_ub, kw_fun, kw_jac)", note='scipy.optimize.NonlinearConstraint(fun, lb, ub, jac)'),
                  'LinearConstraint': Assumed(returns_expr="('lc', kw_lb, kw_ub)"),
                  'constraints.append': Assumed(
                      ghost=_app_ghost,
                      requires=["arg0[0] == 'nlc' and arg0[3][2][0] == 'con' and arg0[3][2][1] is False and arg0[3][2][2] == %s" % N,
                                "arg0[4][2][2] == %s" % N,
                                sub("arg0[1] == %s and arg0[2] == %s" % (CLIPL % (N, N), CLIPU % (N, N)))],
                      note='list.append on the constraint list handed to scipy.optimize.minimize')},
         canaries=[('constraint appended once after the element loop (the defect repaired in /repo)',
                    ("WeakMethodWrapper(self, '_congradfunc'), args)\n                            )\n                            constraints.append(con)",
                     "WeakMethodWrapper(self, '_congradfunc'), args)\n                            )\n                    constraints.append(con)"),
                    'inv', SO + '::ScipyOptimizeDriver.run'),
                   ('upper bound not clipped per element', ('ub_j = np.minimum(ub[j], INF_BOUND)', 'ub_j = np.minimum(ub[0], INF_BOUND)'), 'pre', SO + '::ScipyOptimizeDriver.run')])


# ---- _con_val_func (new-style optimizers): the value handed to scipy belongs to the point scipy asked about ------
# scipy's trust-constr asks for the constraints at a new point BEFORE the objective; the driver must not answer
# from the cache of the previous point (defect repaired in /repo: success was reported at infeasible designs).
def _eval_ghost(it, env, res):
    it.ctx.ghost['evaluated_at'] = it.last_assumed_args[0]


contract(SO + '::ScipyOptimizeDriver._con_val_func', ['C21'],
         dict(self=Obj('ScipyOptimizeDriver', options=DictT({'optimizer': OneOf('trust-constr', 'COBYQA')}),
                       _con_cache=DictT({'con': Arr('n')}), _con_cache_x=OneOf(None, Arr('nx'))),
              x_new=Arr('nx'), name='con', dbl=False, idx=Int(0, None)),
         requires=['idx < n'],
         ensures=["result == self._con_cache['con'][idx]",
                  # cache coherence: the cache the value was read from was computed at exactly x_new
                  'self._con_cache_x is not None and len(self._con_cache_x) == nx and all(self._con_cache_x[i] == x_new[i] for i in range(nx))'],
         modifies=['self._con_cache', 'self._con_cache_x'], returns=Real(),
         assumed={'self._objfunc': Assumed(modifies=["self._con_cache['con']"], sets={'self._con_cache_x': Arr('nx')}, ghost=_eval_ghost,
                                           ensures=['self._con_cache_x is not None and len(self._con_cache_x) == len(arg0) and all(self._con_cache_x[i] == arg0[i] for i in range(len(arg0)))'],
                                           note='_objfunc(x): runs the model at x, refreshes _con_cache and records x in _con_cache_x (its own bookkeeping lines are not under contract)')},
         name=SO + '::ScipyOptimizeDriver._con_val_func',
         canaries=[('stale cache served when scipy asks for a new point first (the defect repaired in /repo)',
                    ('elif self._con_cache_x is None or not np.array_equal(self._con_cache_x, x_new):', 'elif self._con_cache_x is None:'), 'post')])


# ---- _objfunc: the bookkeeping the two contracts around it ASSUME ("records x in _con_cache_x, refreshes _con_cache") is
# proved here: after a successful evaluation _con_cache is what get_constraint_values returned AFTER the model ran at
# x_new, and _con_cache_x is an OWN copy of x_new (scipy reuses and overwrites its x arrays).
def _order_ghost(tag):
    def g(it, env, res):
        it.ctx.ghost['order'] = list(it.ctx.ghost.get('order', [])) + [tag]
    return g


contract(SO + '::ScipyOptimizeDriver._objfunc', ['C21'],
         dict(self=Obj('ScipyOptimizeDriver', _con_cache=OpaqueT('old_cache'), _con_cache_x=OneOf(None, Arr('nx')), _exc_info=None, iter_count=Int(0, None),
                       _problem=Callable(Obj('Problem', model=Obj('Group', _relevance=OpaqueT('relevance'), comm=OpaqueT('comm')))),
                       _vectors=DictT({'design_var': OpaqueT('dv_vec')})),
              x_new=Arr('nx')),
         ensures=['self._con_cache_x is not None and len(self._con_cache_x) == nx and all(self._con_cache_x[i] == x_new[i] for i in range(nx))',
                  'not shares_memory(self._con_cache_x, x_new)',
                  "same_object(self._con_cache, ghost('cons_returned'))",
                  # order of events: the design variables are set from x_new, then the model runs, then the responses are read
                  "ghost('order') == ['set_data', 'set_design_vars', 'run', 'objective', 'constraints']",
                  'self.iter_count == old(self.iter_count) + 1',
                  'all(x_new[i] == old(x_new[i]) for i in range(nx))'],
         modifies=['self._con_cache', 'self._con_cache_x', 'self.iter_count'],
         ghost_init={'order': [], 'cons_returned': None},
         assumed={"dv_vec.set_data": Assumed(ghost=_order_ghost('set_data'), requires=['same_object(arg0, x_new)'], note='OptimizerVector.set_data(x, driver_scaling=True): copies x into the design-variable vector'),
                  'self._set_design_vars': Assumed(ghost=_order_ghost('set_design_vars'), note='pushes the design-variable vector into the model'),
                  'with RecordingDebugging': (Assumed(), Assumed()),
                  'model.comm.Bcast': Assumed(note='MPI broadcast of x_new from rank 0 (single process: the array is unchanged)'),
                  "with model._relevance.nonlinear_active": (Assumed(), Assumed()),
                  'self._run_solve_nonlinear': Assumed(ghost=_order_ghost('run'), note='runs the model'),
                  'self._get_name': Assumed(returns=OpaqueT('name')),
                  'self.get_objective_values': Assumed(returns=DictT({'f': Real()}), ghost=_order_ghost('objective')),
                  'self.get_constraint_values': Assumed(returns=OpaqueT('cons'), ghost=lambda it, env, res: (it.ctx.ghost.__setitem__('cons_returned', res), it.ctx.ghost.__setitem__('order', list(it.ctx.ghost.get('order', [])) + ['constraints'])),
                                                        note='constraint values of the model as it is now')},
         name=SO + '::ScipyOptimizeDriver._objfunc', defs={'opaque_classes': ['RecordingDebugging']},
         canaries=[('x recorded by reference instead of by copy', ('self._con_cache_x = np.array(x_new, copy=True)', 'self._con_cache_x = x_new'), 'post'),
                   ('constraints read before the model is run', ("            with RecordingDebugging(self._get_name(), self.iter_count, self):", "            self._con_cache = self.get_constraint_values()\n            with RecordingDebugging(self._get_name(), self.iter_count, self):"), 'post')])


# ---- _gradfunc: the gradient belongs to the point scipy asked about, and is scipy's to keep ----------------------
# Two defects repaired in /repo: (1) trust-constr asks for the gradient at a new point BEFORE the objective, and the
# model was then linearized at the previous point; (2) the returned row was a view of the total-jacobian array that
# the next call overwrites (quasi-Newton updates use grad_new - grad_old).
def _obj_ghost(it, env, res):
    it.ctx.ghost['evaluated_at'] = it.last_assumed_args[0]


contract(SO + '::ScipyOptimizeDriver._gradfunc', ['C21'],
         dict(self=Obj('ScipyOptimizeDriver', _con_cache_x=OneOf(None, Arr('nx')), _check_jac=False, _total_jac=None, _exc_info=None,
                       _grad_cache=OneOf(None, Arr('m', 'nx')), _obj_and_nlcons=OpaqueT('ofs'), _dvlist=OpaqueT('wrts'), _total_jac_format='array',
                       _problem=Callable(Obj('Problem', model=Obj('Group'))),
                       options=DictT({'singular_jac_behavior': 'warn', 'singular_jac_tol': Real()})),
              x_new=Arr('nx')),
         requires=['m >= 1'],
         ensures=['len(result) == nx and all(result[i] == self._grad_cache[0, i] for i in range(nx))',
                  # the caller owns the result: later total-jacobian updates must not show through
                  'not shares_memory(result, self._grad_cache)',
                  # cache coherence: if a model point is on record, it is x_new when the totals are computed
                  'implies(old(self._con_cache_x) is not None, self._con_cache_x is not None and len(self._con_cache_x) == nx and all(self._con_cache_x[i] == x_new[i] for i in range(nx)))'],
         modifies=['self._con_cache_x', 'self._grad_cache', 'self._con_cache'], returns=Arr('nx'),
         assumed={'self._objfunc': Assumed(sets={'self._con_cache_x': Arr('nx')}, ghost=_obj_ghost,
                                           ensures=['self._con_cache_x is not None and len(self._con_cache_x) == len(arg0) and all(self._con_cache_x[i] == arg0[i] for i in range(len(arg0)))'],
                                           note='_objfunc(x): runs the model at x and records x in _con_cache_x'),
                  'self._compute_totals': Assumed(returns=Arr('m', 'nx'),
                                                  requires=['self._con_cache_x is None or all(self._con_cache_x[i] == x_new[i] for i in range(nx))'],
                                                  note='total derivatives at the CURRENT model point (precondition: that point is x_new, or no point is on record yet = the initial run at x_init)')},
         name=SO + '::ScipyOptimizeDriver._gradfunc',
         canaries=[('gradient returned as a view of the reused array (the defect repaired in /repo)', ('return grad[0, :].copy()', 'return grad[0, :]'), 'post'),
                   ('model not moved to the new point before linearizing (the defect repaired in /repo)',
                    ('if self._con_cache_x is not None and not np.array_equal(self._con_cache_x, x_new):', 'if False:'), 'pre@callee')])


# ---- new-style LINEAR constraints: LinearConstraint(A, lb, ub) handed to scipy --------------------------------
# The model's constraint is the affine function c(x) = c(x_init) + G (x - x_init), G = rows [start, start+size) of the
# precomputed linear-constraint jacobian.  scipy enforces lb' <= A' x <= ub'; that is `lb <= c(x) <= ub` for every x
# exactly when A' = G and lb' = lb - (c(x_init) - G x_init), ub' = ub - (c(x_init) - G x_init), row by row.
# (Defect repaired in /repo: only row `start` was handed over and the constant term was dropped.)
def _lin_app_ghost(it, env, res):
    it.ctx.ghost['lin_con'] = it.last_assumed_args[0]
    it.ctx.ghost['n_app'] = scalar_add1(it.ctx.ghost['n_app'])


def scalar_add1(v):
    from pyvc.values import scalar_arith
    return scalar_arith('+', v, 1)


CONST_I = "(self._con_cache['con'][_i] - Sum(nx, lambda k: lincongrad[start + _i, k] * x_init[k]))"
LC = "ghost('lin_con')"
for _eq in (False, True):
    contract(SO + '::ScipyOptimizeDriver.run@ifbody(NonlinearConstraint)', ['C21'],
             dict(equals=(Arr('size') if _eq else None), lower=Arr('size'), upper=Arr('size'), linear=True, lincongrad=Arr('mlin', 'nx'), name='con',
                  x_init=Arr('nx'),
                  self=Obj('ScipyOptimizeDriver', _con_idx=DictT({'con': Size('start')}), _con_cache=DictT({'con': Arr('size')})),
                  size=Size('size'), con=None, constraints=Obj('list')),
             requires=['size >= 1', 'start + size <= mlin'],
             ensures=[N + ' == 1', LC + "[0] == 'lc'",
                      'len(%s[3]) == size and all(all(%s[3][_i, k] == lincongrad[start + _i, k] for k in range(nx)) for _i in range(size))' % (LC, LC),
                      'all(approx(%s[1][_i], %s[_i] - %s) for _i in range(size))' % (LC, 'equals' if _eq else 'lower', CONST_I),
                      'all(approx(%s[2][_i], %s[_i] - %s) for _i in range(size))' % (LC, 'equals' if _eq else 'upper', CONST_I)],
             modifies=[], name=SO + '::ScipyOptimizeDriver.run[new-style linear constraints%s]' % (', equality' if _eq else ''),
             ghost_init={'n_app': 0, 'lin_con': None},
             defs={'opaque_classes': ['WeakMethodWrapper']},
             assumed={'LinearConstraint': Assumed(returns_expr="('lc', kw_lb, kw_ub, kw_A)", note='scipy.optimize.LinearConstraint(A, lb, ub): lb <= A x <= ub'),
                      'NonlinearConstraint': Assumed(returns_expr="('nlc', kw_lb, kw_ub, kw_fun, kw_jac)"),
                      'signature_extender': Assumed(returns_expr="('ext', arg0, arg1)"),
                      'constraints.append': Assumed(ghost=_lin_app_ghost, note='list.append on the constraint list handed to scipy.optimize.minimize')},
             canaries=[('only the first row of the constraint handed over (the defect repaired in /repo)',
                        ('lin_A = lincongrad[lin_start:lin_start + size]', 'lin_A = lincongrad[lin_start:lin_start + 1]'), 'post', SO + '::ScipyOptimizeDriver.run'),
                       ('constant term of the affine constraint dropped (the defect repaired in /repo)',
                        ('lb=lb - lin_const, ub=ub - lin_const', 'lb=lb, ub=ub'), 'post', SO + '::ScipyOptimizeDriver.run')] if not _eq else [])


# ---- _congradfunc: the jacobian row handed to scipy is the derivative of the VALUE handed to scipy ---------------
# old style (_confunc): value = upper - c when dbl or no lower bound (negated), c - lower otherwise, c - equals for eq;
# new style (_con_val_func): value = c.  (Defect repaired in /repo: new-style rows of upper-only elements were negated.)
ROW = "self._grad_cache[self._con_idx['con'] + idx, k]"
for _opt, _new in (('SLSQP', False), ('trust-constr', True)):
    for _lowarr in (False, True):
        LOWI = "self._cons['con']['lower'][idx]" if _lowarr else "self._cons['con']['lower']"
        contract(SO + '::ScipyOptimizeDriver._congradfunc', ['C21'],
                 dict(self=Obj('ScipyOptimizeDriver', _exc_info=None, options=DictT({'optimizer': _opt}), _grad_cache=Arr('m', 'nx'), _lincongrad_cache=None,
                               _con_idx=DictT({'con': Size('start')}),
                               _cons=DictT({'con': DictT({'linear': False, 'equals': OneOf(None, OpaqueT('equals')), 'lower': (Arr('n') if _lowarr else Real())})})),
                      x_new=Arr('nx'), name='con', dbl=OneOf(False, True), idx=Int(0, None)),
                 requires=['idx < n' if _lowarr else 'idx >= 0', 'start + idx < m'],
                 ensures=['len(result) == nx',
                          ("all(result[k] == %s for k in range(nx))" % ROW) if _new else
                          ("all(result[k] == (%s if (self._cons['con']['equals'] is not None or not (dbl or %s <= -INF_BOUND)) else -%s) for k in range(nx))" % (ROW, LOWI, ROW))],
                 modifies=[], returns=Arr('nx'), defs={'_use_new_style': True},
                 name=SO + '::ScipyOptimizeDriver._congradfunc[%s, %s lower]' % ('new-style' if _new else 'old-style', 'array' if _lowarr else 'scalar'),
                 canaries=([('new-style jacobian rows of upper-only elements negated (the defect repaired in /repo)',
                             ("if self.options['optimizer'] in _supports_new_style and _use_new_style:\n            # new-style", "if False:\n            # new-style"), 'post')] if _new and not _lowarr else
                           [('old-style upper-side row not negated', ('return -grad[grad_idx, :]', 'return grad[grad_idx, :]'), 'post')] if not _new and _lowarr else []))
