"""C21 — optimizer success implies a feasible reported design (what the driver hands to scipy).

scipy itself is outside any contract.  What IS under contract is the translation of OpenMDAO's per-element
lower / upper / equals bounds into the functions scipy drives to >= 0 / == 0:
  * ScipyOptimizeDriver._confunc: its sign is the feasibility of exactly element idx w.r.t. exactly that
    element's bound;
  * the constraint-building loop body inside ScipyOptimizeDriver.run (old-style dict constraints), extracted
    mechanically on every run (pyvc/extract.py make_fragment): one iteration registers element j once, a second
    time (dbl=True) iff element j is bounded on both sides, and leaves the loop-carried bounds untouched."""
from pyvc.spec import *   # noqa

SO = 'openmdao/drivers/scipy_optimizer.py'

U = '(upper if is_scalar(upper) else upper[j])'
L = '(lower if is_scalar(lower) else lower[j])'

def _native_loopbody(vals, np, om):
    from pyvc.native_helpers import A, Fl

    def bound(v):
        return A(v, float) if isinstance(v, dict) and '__arr__' in v else Fl(v)
    up, lo = bound(vals['upper']), bound(vals['lower'])
    eq = vals['meta']['equals']
    size = len(up) if hasattr(up, '__len__') else (len(lo) if hasattr(lo, '__len__') else int(vals.get('__sizes__', {}).get('size', 1)))
    kw = dict(meta={'equals': None if eq is None else np.zeros(size)}, self=om.ScipyOptimizeDriver(), opt=vals['opt'], name=vals['name'],
              j=int(vals['j']), constraints=[], upper=up, lower=lo)
    return kw, dict(size=size)


def _sample_loopbody(rng):
    from pyvc.sample import frac
    size = rng.randint(1, 3)

    def bound(sign):
        def one():
            return rng.choice([frac(rng), {'__frac__': [sign * 10 ** 30, 1]}])
        if rng.random() < 0.6:
            return {'__arr__': [one() for _ in range(size)], 'shape': [size], 'dtype': 'real'}
        return one()
    return {'meta': {'__dict__': [['equals', rng.choice([None, {'__opaque__': 'equals'}])]]},
            'self': {'__obj__': 'ScipyOptimizeDriver', 'id': 0, 'attrs': {}}, 'opt': rng.choice(['SLSQP', 'COBYLA']), 'name': 'con',
            'j': rng.randrange(size), 'constraints': {'__seq__': [], 'tuple': False}, 'upper': bound(1), 'lower': bound(-1),
            '__sizes__': {'size': size}}


contract(SO + '::ScipyOptimizeDriver.run@loopbody(con_dict)', ['C21'],
         dict(meta=DictT({'equals': OneOf(None, OpaqueT('equals'))}), self=Obj('ScipyOptimizeDriver'),
              opt=OneOf('SLSQP', 'COBYLA'), name='con', j=Int(0, None), constraints=ListT(),
              upper=OneOf(Real(), Arr('size')), lower=OneOf(Real(), Arr('size'))),
         requires=['j < size'],
         ensures=[
             # element j is registered (single-sided form) exactly once ...
             "result['constraints'][0]['args'][0] == 'con' and result['constraints'][0]['args'][1] is False and result['constraints'][0]['args'][2] == j",
             "result['constraints'][0]['type'] == ('eq' if meta['equals'] is not None else 'ineq')",
             # ... and a second time as the upper-bound side iff ITS OWN bounds are both finite
             "len(result['constraints']) == (2 if (%s < INF_BOUND and %s > -INF_BOUND) else 1)" % (U, L),
             "implies(len(result['constraints']) == 2, result['constraints'][1]['args'][0] == 'con' and result['constraints'][1]['args'][1] is True and result['constraints'][1]['args'][2] == j and result['constraints'][1]['type'] == 'ineq')",
             # loop-carried state: the next iteration still sees the whole constraint's bounds
             "same_object(result['upper'], upper) and same_object(result['lower'], lower)"],
         modifies=['constraints'], name=SO + '::ScipyOptimizeDriver.run[dict-constraint loop body]',
         defs={'opaque_classes': ['WeakMethodWrapper']}, native=_native_loopbody, sampler=_sample_loopbody)
