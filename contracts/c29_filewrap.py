"""C29 — wrapped input files parse back to the values written (substitution bookkeeping)."""
from pyvc.spec import *   # noqa

FW = 'openmdao/utils/file_wrap.py'


def native_fmt(vals, np, om):
    return dict(val=float(vals['val'])), {}


def fmt_sampler(rng):
    v = rng.choice([0.0, 1.0, -3.0, 0.5, 1e300, -1e-300, 5e-324, float('inf'), float('-inf'), float('nan'), 2.0 ** 60, 1.0 / 3])
    return {'val': {'__float__': repr(v)}}


contract(FW + '::_getformat', ['C29'], dict(val=FP()), fp=True,
         # no float may make the formatter raise (inf and nan included)
         ensures=["result == '%.1f' or result == '%.16g'",
                  # integral finite values get one decimal, everything else 16 significant digits
                  "iff(result == '%.1f', fp_finite(val) and is_integral(val))"],
         modifies=[], native=native_fmt, sampler=fmt_sampler,
         canaries=[('finiteness guard dropped', ('if np.isfinite(val) and int(val) == val:', 'if int(val) == val:'), 'exc')])


def helper(**over):
    a = dict(_newtext=OneOf(FP(), 'abc', 17), _replace_location=Int(), _current_location=Int(), _counter=Int(),
             _start_location=Int(), _end_location=Int())
    a.update(over)
    return Obj('_SubHelper', **a)


def grp_ghost(it, env, res):
    it.ctx.ghost['orig'] = res


GRP = {'text.group': Assumed(returns=OpaqueT('original_field_text'), ghost=grp_ghost, note='re.Match.group(): the text of the matched field')}

contract(FW + '::_SubHelper.replace', ['C29'], dict(self=helper(), text=OpaqueT('match')), fp=True,
         ensures=['self._current_location == old(self._current_location) + 1',
                  # every field other than the addressed one is returned untouched
                  "implies(self._current_location != self._replace_location, same_object(result, ghost('orig')))",
                  "implies(self._current_location == self._replace_location, ghost('orig') is None)"],
         modifies=['self._current_location'], assumed=GRP, inline={'_getformat'}, ghost_init={'orig': None},
         canaries=[('field counter compared before it is advanced', ("self._current_location += 1\n\n        if self._current_location == self._replace_location:", "self._current_location += 1\n\n        if self._current_location - 1 == self._replace_location:"), 'post')])

contract(FW + '::_SubHelper.replace_array', ['C29'],
         dict(self=helper(_newtext=ListT(FP(), 'abc', FP())), text=OpaqueT('match')), fp=True,
         requires=['self._counter >= 0'],
         ensures=['self._current_location == old(self._current_location) + 1',
                  # fields start..end are replaced in order, at most len(newtext) of them; all others untouched
                  "iff(ghost('orig') is None, self._start_location <= self._current_location and self._current_location <= self._end_location and old(self._counter) < 3)",
                  "implies(ghost('orig') is not None, same_object(result, ghost('orig')) and self._counter == old(self._counter))",
                  "implies(ghost('orig') is None, self._counter == old(self._counter) + 1)"],
         modifies=['self._current_location', 'self._counter'], assumed=GRP, inline={'_getformat'}, ghost_init={'orig': None},
         canaries=[('end location treated as exclusive', ('self._current_location <= self._end_location and', 'self._current_location < self._end_location and'), 'post')])

contract(FW + '::_SubHelper.set', ['C29'], dict(self=helper(), newtext=OpaqueT('new'), location=Int()), fp=True,
         ensures=['same_object(self._newtext, newtext)', 'self._replace_location == location', 'self._current_location == 0'],
         modifies=['self._newtext', 'self._replace_location', 'self._current_location'])

contract(FW + '::_SubHelper.set_array', ['C29'],
         dict(self=helper(), newtext=OpaqueT('new'), start_location=Int(), end_location=Int()), fp=True,
         ensures=['same_object(self._newtext, newtext)', 'self._start_location == start_location',
                  'self._end_location == end_location', 'self._current_location == 0'],
         modifies=['self._newtext', 'self._start_location', 'self._end_location', 'self._current_location'])
