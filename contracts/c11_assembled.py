"""C11 — assembled Jacobian formats represent the same linear operator.

Proved: how the dense assembled matrix is filled from a sub-jacobian (dense block with/without
src_indices and unit factor; triplet sub-jacobians) and that the matrix-vector products in forward
and reverse mode use the same matrix and the same mask.  The sub-jacobian kernels themselves are the
C02 contracts (tagged C11 as well).  CSC/CSR/COO (scipy.sparse) are the bounded tier."""
from pyvc.spec import *   # noqa
import contracts.c02_adjoint   # noqa

DM = 'openmdao/matrices/dense_matrix.py'
MX = 'openmdao/matrices/matrix.py'


def dmat():
    return Obj('DenseMatrix', _matrix=Arr('R', 'C'), _coo=None, _coo_slices=None)


# dense sub-jacobian placed at (row_slice, col_slice), optional column mapping and unit factor
def dsubjac():
    return Obj('DenseSubjac', dense=True, info=DictT({'val': Arr('r', 'c')}), row_slice=SliceT('r0', 'r1'), col_slice=SliceT('c0', 'c1'),
               src_indices=OneOf(None, Arr('c', dtype='int')), factor=OneOf(None, Real()), key=('y', 'x'))



def _native_dense(vals, np, om):
    """Real DenseMatrix object (no repeated entries => dense storage) and a light sub-jacobian record with
    exactly the attributes DenseMatrix._update_from_submat reads."""
    import types
    from pyvc.native_helpers import A, Fl
    from openmdao.matrices.dense_matrix import DenseMatrix
    sv, jv = vals['self'], vals['subjac']
    m = DenseMatrix({})
    m._matrix = A(sv['_matrix'], float)
    m._coo = None
    m._coo_slices = None
    R, C = m._matrix.shape
    val = A(jv['info']['val'], float)
    rs, cs = jv['row_slice'], jv['col_slice']
    src = None if jv['src_indices'] is None else A(jv['src_indices'], int)
    sj = types.SimpleNamespace(dense=True, info={'val': val}, row_slice=slice(int(rs.start), int(rs.stop)),
                               col_slice=slice(int(cs.start), int(cs.stop)), src_indices=src,
                               factor=None if jv['factor'] is None else Fl(jv['factor']), key=('y', 'x'))
    sizes = dict(R=R, C=C, r=val.shape[0], c=val.shape[1], r0=sj.row_slice.start, r1=sj.row_slice.stop,
                 c0=sj.col_slice.start, c1=sj.col_slice.stop)
    return dict(self=m, subjac=sj, randgen=None), sizes


def _sample_dense(rng):
    from pyvc.sample import frac
    R, C = rng.randint(1, 4), rng.randint(1, 5)
    r = rng.randint(1, R)
    r0 = rng.randint(0, R - r)
    w = rng.randint(1, C)                      # width of the source variable's column range
    c0 = rng.randint(0, C - w)
    if rng.random() < 0.6:
        c = rng.randint(0, w)
        src = rng.sample(range(w), c)
        srcv = {'__arr__': src, 'shape': [c], 'dtype': 'int'}
    else:
        c, srcv = w, None

    def arr(shape):
        n = shape[0] * shape[1]
        return {'__arr__': [frac(rng) for _ in range(n)], 'shape': list(shape), 'dtype': 'real'}
    return {'self': {'__obj__': 'DenseMatrix', 'id': 0, 'attrs': {'_matrix': arr((R, C)), '_coo': None, '_coo_slices': None}},
            'subjac': {'__obj__': 'DenseSubjac', 'id': 1, 'attrs': {
                'dense': True, 'info': {'__dict__': [['val', arr((r, c))]]}, 'row_slice': {'__slice__': [r0, r0 + r, None]},
                'col_slice': {'__slice__': [c0, c0 + w, None]}, 'src_indices': srcv,
                'factor': rng.choice([None, frac(rng)]), 'key': {'__seq__': ['y', 'x'], 'tuple': True}}},
            'randgen': None}


def _native_prod(vals, np, om):
    from pyvc.native_helpers import A
    from openmdao.matrices.dense_matrix import DenseMatrix
    m = DenseMatrix({})
    m._matrix = A(vals['self']['_matrix'], float)
    m._coo = None
    m._coo_slices = None
    R, C = m._matrix.shape
    mask = None if vals.get('mask') is None else A(vals['mask'], bool)
    return dict(self=m, in_vec=A(vals['in_vec'], float), mode=vals['mode'], mask=mask), dict(R=R, C=C)


def _native_masked(vals, np, om):
    from pyvc.native_helpers import A
    from openmdao.matrices.matrix import Matrix
    a = A(vals['in_arr'], float)
    mask = None if vals.get('mask') is None else A(vals['mask'], bool)
    return dict(self=Matrix({}), in_arr=a, mask=mask), dict(n=len(a))


F1 = '(1 if subjac.factor is None else subjac.factor)'
contract(DM + '::DenseMatrix._update_from_submat', ['C11'], dict(self=dmat(), subjac=dsubjac(), randgen=None),
         requires=['r1 == r0 + r and r1 <= R', 'c1 <= C', 'implies(subjac.src_indices is None, c1 == c0 + c)',
                   'implies(subjac.src_indices is not None, all(0 <= subjac.src_indices[j] and subjac.src_indices[j] < c1 - c0 for j in range(c)))',
                   # dense blocks with a column mapping are only assembled densely when the mapping has no repeats
                   'implies(subjac.src_indices is not None, all(all(implies(j1 != j2, subjac.src_indices[j1] != subjac.src_indices[j2]) for j2 in range(c)) for j1 in range(c)))',
                   'c0 <= c1'],
         ensures=[
             # block entry (i, j) lands at (r0 + i, c0 + map(j)) multiplied by the unit factor exactly once
             'all(all(approx(self._matrix[r0 + i, c0 + (j if subjac.src_indices is None else subjac.src_indices[j])], %s * subjac.info["val"][i, j]) for j in range(c)) for i in range(r))' % F1,
             # nothing but the mapped positions is touched: entries of OTHER sub-jacobians that share the source's
             # column range (another input connected to other entries of the same source) keep their values
             'all(all(implies(not (r0 <= i and i < r1 and c0 <= j and j < c1 and (subjac.src_indices is None or any(j == c0 + subjac.src_indices[jj] for jj in range(c)))), self._matrix[i, j] == old(self._matrix[i, j])) for j in range(C)) for i in range(R))'],
         modifies=['self._matrix'], name=DM + '::DenseMatrix._update_from_submat[dense block]',
         native=_native_dense, sampler=_sample_dense,
         canaries=[('unit factor applied twice', ('val = val * subjac.factor', 'val = val * subjac.factor * subjac.factor'), 'post'),
                   # the defect repaired in /repo (fix: scale only the written entries): the factor multiplies the whole
                   # row-block x source-column view, i.e. also entries that belong to other sub-jacobians
                   ('unit factor scales the whole view (entries of other sub-jacobians)',
                    ('''                if subjac.factor is not None:
                    # scale only this subjac's entries, other subjacs may share the source's columns
                    val = val * subjac.factor
                if subjac.src_indices is not None:
                    view[:, subjac.src_indices] = val
                else:
                    view[:, :] = val
''', '''                if subjac.src_indices is not None:
                    view[:, subjac.src_indices] = val
                else:
                    view[:, :] = val
                if subjac.factor is not None:
                    view *= subjac.factor
'''), 'post'),
                   ('column mapping ignored', ('view[:, subjac.src_indices] = val', 'view[:, :] = val'), 'post')])


def tsubjac():
    return Obj('OMCOOSubjac', dense=False, factor=OneOf(None, Real()), key=('y', 'x'))


def coo_ghost(it, env, res):
    it.ctx.ghost['trip'] = res


contract(DM + '::DenseMatrix._update_from_submat', ['C11'], dict(self=dmat(), subjac=tsubjac(), randgen=None),
         ensures=[
             "all(approx(self._matrix[ghost('trip')[1][k], ghost('trip')[2][k]], %s * ghost('trip')[0][k]) for k in range(nnz))" % F1,
             "all(all(implies(all(ghost('trip')[1][k] != i or ghost('trip')[2][k] != j for k in range(nnz)), self._matrix[i, j] == old(self._matrix[i, j])) for j in range(C)) for i in range(R))"],
         modifies=['self._matrix'], name=DM + '::DenseMatrix._update_from_submat[triplets]',
         assumed={'subjac.as_coo_info': Assumed(
             returns=TupleT(Arr('nnz'), Arr('nnz', dtype='int'), Arr('nnz', dtype='int')), ghost=coo_ghost,
             ensures=['all(0 <= result[1][k] and result[1][k] < R and 0 <= result[2][k] and result[2][k] < C for k in range(nnz))',
                      # the dense path is only used when DenseMatrix._build found no repeated (row, col) pair
                      'all(all(implies(k1 != k2, result[1][k1] != result[1][k2] or result[2][k1] != result[2][k2]) for k2 in range(nnz)) for k1 in range(nnz))'],
             note='sub-jacobian triplets (data, rows, cols) in full-matrix coordinates; no repeated pair on this path (has_repeated decision of _build: bounded tier)')})

# products: forward uses M, reverse uses M^T, the mask zeroes the same positions of the incoming vector
contract(MX + '::Matrix._get_masked_arr', ['C11', 'C02'], dict(self=Obj('Matrix'), in_arr=Arr('n'), mask=OneOf(None, Arr('n', dtype='bool'))),
         ensures=['len(result) == n', 'all(result[i] == (in_arr[i] if (mask is None or not mask[i]) else 0) for i in range(n))',
                  'all(in_arr[i] == old(in_arr[i]) for i in range(n))'],
         modifies=[], returns=Arr('n'), native=_native_masked)

for mode in ('fwd', 'rev'):
    n_in, n_out = ('C', 'R') if mode == 'fwd' else ('R', 'C')
    M = 'self._matrix[i, k]' if mode == 'fwd' else 'self._matrix[k, i]'
    contract(DM + '::DenseMatrix._prod', ['C11', 'C02'],
             dict(self=dmat(), in_vec=Arr(n_in), mode=mode, mask=OneOf(None, Arr(n_in, dtype='bool'))),
             ensures=['len(result) == %s' % n_out,
                      'all(approx(result[i], Sum(%s, lambda k: %s * (in_vec[k] if (mask is None or not mask[k]) else 0))) for i in range(%s))' % (n_in, M, n_out)],
             modifies=[], name=DM + '::DenseMatrix._prod[%s]' % mode, inline={'transpose'}, native=_native_prod,
             canaries=[('reverse product without the transpose', ('return self.transpose() @ in_vec', 'return self._matrix @ in_vec'), 'shape')] if mode == 'rev' else
             [('mask ignored in forward mode', ('return self._matrix @ self._get_masked_arr(in_vec, mask)', 'return self._matrix @ in_vec'), 'post')])


# ---- CSRMatrix / CSCMatrix._update_from_submat: accumulation of one sub-jacobian's triplet data ----------------------
# The lexsort/cumsum index map built by _build (COO position -> slot in the compressed data array) is BOUNDED-tier
# material; given the map, the update itself is proved: every compressed slot j gains  factor * sum_k [map[a+k] == j] d[k]
# (d = the sub-jacobian's triplet data), every other slot is unchanged, and the sub-jacobian's own stored data — which
# get_as_coo_data may hand out without copying — is NOT modified.  `_has_within_subjac_duplicates` selects np.add.at
# (duplicates within the slice) or a fancy += (slice duplicate-free: that is what the flag means, stated as precondition).
for _cls, _file, _map in (('CSRMatrix', 'openmdao/matrices/csr_matrix.py', '_coo_to_csr_map'), ('CSCMatrix', 'openmdao/matrices/csc_matrix.py', '_coo_to_csc_map')):
    for _dup in (False, True):
        MAP = 'self.%s' % _map
        FAC = '(1 if subjac.factor is None else subjac.factor)'
        contract(_file + '::%s._update_from_submat' % _cls, ['C11'],
                 dict(self=Obj(_cls, **{_map: Arr('T', dtype='int'), '_coo_slices': DictT({('y', 'x'): SliceT('a', 'b')}),
                                        '_matrix': Obj('spmatrix', data=Arr('nz')), '_has_within_subjac_duplicates': DictT({('y', 'x'): _dup})}),
                      subjac=Obj('Subjac', key=Const(('y', 'x')), factor=OneOf(None, Real()), _stored=Arr('m')), randgen=None),
                 requires=['a <= b and b <= T and m == b - a', 'all(0 <= %s[k] and %s[k] < nz for k in range(T))' % (MAP, MAP)] +
                          ([] if _dup else ['all(all(implies(k1 != k2, %s[a + k1] != %s[a + k2]) for k2 in range(m)) for k1 in range(m))' % (MAP, MAP)]),
                 ensures=['all(approx(self._matrix.data[j], old(self._matrix.data[j]) + Sum(m, lambda k: ite(%s[a + k] == j, subjac._stored[k] * %s, 0))) for j in range(nz))' % (MAP, FAC)]
                         if _dup else
                         ['all(approx(self._matrix.data[%s[a + k]], old(self._matrix.data[%s[a + k]]) + %s * subjac._stored[k]) for k in range(m))' % (MAP, MAP, FAC),
                          'all(implies(all(%s[a + k] != j for k in range(m)), self._matrix.data[j] == old(self._matrix.data[j])) for j in range(nz))' % MAP],
                 # frame: the sub-jacobian's stored data is not in `modifies`
                 modifies=['self._matrix.data'],
                 assumed={'subjac.get_as_coo_data': Assumed(returns_expr='subjac._stored', note='Subjac.get_as_coo_data may return the stored value array itself (no copy) for rows/cols, diagonal, dense and COO sub-jacobians')},
                 name=_file + '::%s._update_from_submat[%s]' % (_cls, 'within-subjac duplicates' if _dup else 'duplicate-free slice'),
                 canaries=[('unit factor applied in place to the data handed out by the sub-jacobian', ('data = data * subjac.factor', 'data *= subjac.factor'), 'frame')] if not _dup else
                          [('buffered += used although the slice has duplicates', ('np.add.at(self._matrix.data, %s, data)' % ('csr_indices' if _cls == 'CSRMatrix' else 'csc_indices'),
                                                                                 'self._matrix.data[%s] += data' % ('csr_indices' if _cls == 'CSRMatrix' else 'csc_indices')), 'pre@callee')])
