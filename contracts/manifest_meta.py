"""Single source for MANIFEST.json (tools/gen_manifest.py)."""

SETUP_CMD = "python3-vt -m compileall -q pyvc contracts >/dev/null 2>&1; mkdir -p evidence replay; (cd lean && lean OmLemmas.lean >/dev/null 2>&1); true"
HOOKS = {
    "guard": "OPENMDAO_VERIF",
    "enable": "no hooks are needed: checks read /repo's working tree as text (pyvc) and import it under /venv/bin/python for native replays; the guard name is reserved and unused",
    "baseline_off_cmd": "cd /repo && /venv/bin/python -m pytest -ra -q -p no:cacheprovider --timeout=900 --continue-on-collection-errors",
    "source_commits": [],
    "add_only": True,
}
NOTES = ("Contract-based deductive verification with an own VC generator (pyvc) over the real source; see DESIGN.md. "
         "Every claimed check lists in its evidence the functions under contract, obligations discharged, back end, "
         "solver seconds, assumed contracts and the unverified gap between the contracted functions and the whole-model statement.")

NA_DEFAULT = "check not built yet (see DESIGN.md section 3 for the plan)"
NOT_APPLICABLE = {
    'C01': "whole-model statement (converged solver stacks, LAPACK solves, relevance graphs): no function contract within reach expresses 'equals the derivative of the converged responses'; the per-function mechanisms are proved under C02/C11/C20",
    'C14': "arbitrary user expressions evaluated by eval over NumPy with complex-step partials: no contract short of a verified NumPy; helper kernels are C30",
    'C17': "values travel through pickling/JSON/sqlite and ordering is a whole-run-history property; no function contract expresses it",
    'C18': "quantifies over crash points of sqlite transactions: outside what function contracts express",
    'C19': "whole-program state + file I/O; the set_val kernel it delegates to is covered under C07",
    'C24': "differential property of whole models (relevance on vs off) over networkx reachability spread over dozens of call sites",
    'C28': "training/prediction are dense linear algebra (lstsq, Cholesky, RBF solves): numerical-analysis facts about external solves, not contracts on reachable code",
    'C31': "frame condition over the entire framework along API-call histories; per-function frames are proved where they live (C12, C33)",
    'C34': "derivatives come from jax AD / generated code; nothing to put under contract",
}
for _p in ['C02','C03','C04','C05','C07','C08','C11','C12','C15','C16','C21','C23','C26','C29','C32']:
    NOT_APPLICABLE.setdefault(_p, NA_DEFAULT)

CLAIMED = {
    'C10': dict(
        text="Proof (unbounded, all array lengths and values over the reals) that the three bounds-enforcement kernels, the dispatch LinesearchSolver._enforce_bounds and the call protocol of BoundsEnforceLS._solve keep every bounded entry within [lower, upper], never move an entry against or beyond its Newton step, and leave a step that violates no bound untouched; each function is checked against its callees' contracts. Not covered: the ref/ref0 scaling of the bounds in _setup_solvers and ArmijoGoldsteinLS (listed as unverified).",
        design_ref="DESIGN.md section 3 C10",
        note="Trusted: pyvc VC generator and NumPy model, z3; floats treated as reals (a result may be one ulp outside a bound); assumed contracts: _run_apply/_iter_get_norm touch residuals only; DefaultVector methods are inlined real source.",
        technique="deductive verification: sidecar contracts + symbolic execution of real source -> VCs -> z3; canaries + native replay"),
    'C09': dict(
        text="Proof in IEEE-754 double semantics (z3 FP theory; division abstracted as an uninterpreted function constrained by true IEEE facts) over every residual-norm history — the norm returned by each iteration is an arbitrary double (0, tiny, huge, +inf, NaN) — that NonlinearSolver._solve and LinearSolver._solve perform at most maxiter iterations (plus the single forced iteration under complex step), never start an iteration from an iterate that meets atol or rtol, report a failure exactly when the last iterate meets no tolerance, and raise AnalysisError exactly when that failure is reported with err_on_non_converge; Solver.report_failure and the _iter_initialize of NonlinearSolver, NewtonSolver, NonlinearBlockGS, BlockLinearSolver and LinearBlockGS are proved against the abstract contract _solve relies on. Two genuine defects found by these obligations were repaired in /repo (fix: commits).",
        design_ref="DESIGN.md section 3 C09",
        note="Trusted: pyvc, z3 FP theory, the IEEE facts assumed for the abstract division (listed in pyvc/ctx.py fdiv). Assumed contracts: _iter_get_norm returns NaN or a non-negative double; _single_iteration/_run_apply do not raise and do not touch solver control state. Not covered: BroydenSolver._iter_initialize, ScipyKrylov/PETSc (external iterations), line-search inner loops.",
        technique="deductive verification with loop invariants in IEEE-754 (z3 QF_FP); counter-models concretised by bounded history search and replayed on the real solver"),
    'C33': dict(
        text="Proof (all lengths, all values over the reals / exact complex pairs) that DefaultVector's in-place operations (iadd/isub/imul incl. slices, __iadd__/__isub__/__imul__, add_scal_vec, set_val, set_vec, asarray, _get_data, dot, get_norm), named-view access (_VecData.set_view, Vector._abs_get_val/_abs_set_val) and scaling (_scale_forward/_scale_reverse, scale_to_norm/scale_to_phys with every mode/solver-ref branch) act on the flat data exactly as the corresponding NumPy formula with a full frame, in all three storage modes (real, complex outside complex step, complex step); scaling to solver units and back is the identity (lemma over the two contracts, proved modularly).",
        design_ref="DESIGN.md section 3 C33",
        note="Trusted: pyvc and its NumPy model (validated by native sampling of every contract on real DefaultVectors), z3; reals instead of floats. Not covered: _initialize_data (views tile the root array), set_var's indexer path (C05), PETSc/distributed vectors.",
        technique="deductive verification: sidecar contracts + symbolic execution of real source -> VCs -> z3; lemma via modular harness; canaries + native sampling"),
    'C20': dict(
        text="Proof (all sizes, all values over the reals, every None/scalar/array combination of scaler and adder) that determine_adder_scaler maps ref0 to 0 and ref to 1 and rejects mixed ref/scaler arguments, that Autoscaler._apply_vec_scaling/_apply_vec_unscaling apply (v+adder)*scaler and v/scaler-adder per variable slice with a full frame and are mutually inverse (lemma over the two contracts), that _scale_bound returns the image of each bound under the same map with +-INF_BOUND sentinels preserved, that apply_jac_scaling turns every known block into out_scaler[i]*J[i,j]/in_scaler[j] in both dict layouts and leaves unknown names alone, and that apply_mult_unscaling multiplies by scaler/obj_scaler (no adder). One genuine defect (array-valued scalers crashed apply_mult_unscaling) was repaired in /repo.",
        design_ref="DESIGN.md section 3 C20",
        note="Trusted: pyvc and its NumPy model (0-d arrays modelled as length-1 arrays; validated by native sampling), z3; reals instead of floats (clauses that reorder float operations are compared natively with a 1e-9 tolerance). Not covered: unit-conversion part of total_scaler/total_adder (System._setup_driver_units, _TotalJacInfo._apply_unit_scaling), OptimizerVector.update_from_model, _compute_scaled_bounds' layout loop.",
        technique="deductive verification: sidecar contracts + symbolic execution of real source -> VCs -> z3 (QF_NRA); lemma via modular harness; canaries + native sampling"),
    'C22': dict(
        text="Proof (all sizes and values over the reals; scalar and array lower/upper/equals; None, scalar and array scalers; every ctype/lintype filter) that Driver.get_constraint_values(viol=True) returns, per element, value-lower below the lower bound, value-upper above the upper bound, value-equals for equalities and 0 when satisfied, multiplied by the constraint's scaler exactly when driver_scaling is requested, and reports exactly the constraints selected by the filters. The model values are an arbitrary array delivered by update_from_model (assumed contract). Both halves failed on the original tree; the defect was repaired in /repo (fix: commit).",
        design_ref="DESIGN.md section 3 C22",
        note="Trusted: pyvc and its NumPy model (np.where index sets, masks), z3; reals instead of floats. Assumed: OptimizerVector.update_from_model(driver_scaling=False) fills the constraint vector with model values. Not covered: _compute_con_viol's concatenation order, find_feasible's use of the result.",
        technique="deductive verification: sidecar contract + symbolic execution of real source -> VCs -> z3; canaries + native sampling on a real Problem/Driver"),
    'C27': dict(
        text="Proof over uninterpreted declaration predicates (value in values, isinstance(value, types), comparisons with lower/upper, a check_valid callback that may reject, allow_none) for every combination of declared constraints that OptionsDictionary._assert_valid raises exactly when the value violates the declaration, that __setitem__ succeeds exactly when the option is declared, writable and valid through a deprecation alias, stores exactly the given value, and on every rejecting path leaves value and has_been_set untouched (frame on exceptional exit), and that temporary() restores every option and its cache on normal AND exceptional exit of an arbitrary body, including a rejected later kwarg. The last obligation failed on the original tree; repaired in /repo (fix: commit).",
        design_ref="DESIGN.md section 3 C27",
        note="Trusted: pyvc, z3. Values are opaque: membership, isinstance and ordering are uninterpreted predicates (sound for any Python objects with consistent comparison). Not covered: types=list element-wise branch, set_function, declare()'s own checks, update/undeclare; the stored value is assumed to satisfy its declaration on entry to temporary() (data-structure invariant).",
        technique="deductive verification: sidecar contracts + symbolic execution of real source (incl. contextmanager generator semantics) -> VCs -> z3 (UF); canaries + native sampling on real OptionsDictionary"),
    'C13': dict(
        text="Proof (all lengths and values over the reals) that get_tol_violation returns the maximum of |x-ref| - (atol + rtol|ref|) over all pairs, the (x, ref) pair attaining it, |x-ref| and |x-ref|/|ref| at that pair and an above-tolerance flag equal to 'some pair exceeds its tolerance'; and that _compute_deriv_errors (non-directional checks) reports under forward / reverse / fwd_rev exactly the numbers computed from (J_fwd, J_fd), (J_rev, J_fd) (or (0, J_fd) when no analytic derivative exists) and (J_fwd, J_rev), and returns a flag equal to the disjunction of their violations — proved modularly against get_tol_violation's contract. The sparsity-audit half (every approximated nonzero outside the declared pattern is flagged) is decided only in a BOUNDED exhaustive tier through the real check_partials (all declared x true patterns of a 2x2 / 2x3 map, 5 storage formats) and is reported as bounded, not proved; the defect it found was repaired in /repo.",
        design_ref="DESIGN.md section 3 C13",
        note="Trusted: pyvc + NumPy model (argmax with first-index tie rule, .flat), z3, reals for floats. Bounded part: Subjac.set_col family (Python lists of pairs and scipy.sparse internals are outside pyvc's subset). Not covered: directional checks, text rendering in deriv_display, check_totals plumbing.",
        technique="deductive verification (pyvc -> z3) for the comparison kernels; bounded exhaustive native check for the sparsity audit"),
    'C06': dict(
        text="Proof (all factors, offsets and 9-component integer dimension vectors) that PhysicalUnit.conversion_tuple_to returns the affine map with (x+offset)*factor == ((x+d1)*s1)/s2 - d2 for every x and raises TypeError exactly when the dimension vectors differ; that is_compatible is equality of dimension vectors; that product, quotient and integer power multiply/divide/raise factors and add/subtract/scale dimension vectors (offset units rejected); and, as lemmas proved only from those contracts: A->B->A is the identity, A->B->C equals A->C, compatibility is an equivalence that exactly decides whether conversion succeeds, and a product converts with the product of its parts' factors. unit_conversion, convert_units and is_compatible (string API) are proved against an assumed parser contract. The parser (_find_unit: regex + eval), simplify_unit and SI prefixes are decided only in a BOUNDED exhaustive tier over the whole shipped library (140 units, all 19 600 pairs, class triples, depth-2 composites) and reported as bounded.",
        design_ref="DESIGN.md section 3 C06",
        note="Trusted: pyvc, z3 (QF_NRA), reals for floats; unit name dictionaries are opaque bookkeeping. Assumed: _find_unit returns the unit a string denotes (exercised exhaustively on the library in the bounded tier); the numbers in unit_library.ini. Not covered: fractional powers, has_val_mismatch.",
        technique="deductive verification (pyvc -> z3) of the unit algebra + lemmas via modular harness; bounded exhaustive native tier for the parser/library"),
    'C30': dict(
        text="Proof, with complex values modelled as dual numbers re + eps*im (first order in the complex step), that cs_safe.abs returns |x| on reals and, on complex arrays, real part |re| with eps-part sign(re)*dx (|dx| at re == 0, the code's documented one-sided choice); cs_safe.norm returns sqrt(sum re^2) with eps-part sum(re*dx)/norm; cs_safe.arctan2 returns atan2(re y, re x) with eps-part (x dy - y dx)/(x^2+y^2). For the jax smooth helpers (act_tanh, smooth_max, smooth_min, smooth_abs, smooth_round) the proof covers the identities that follow from tanh being odd, monotone and inside (-1,1): range/bracketing, midpoint at the switch, smooth_max+smooth_min = x+y, smooth_abs even and between 0 and |x|.",
        design_ref="DESIGN.md section 3 C30",
        note="Trusted: pyvc, z3, dual-number reading of complex step (A3), the derivative table for sqrt and the stated facts about tanh/atan2 (uninterpreted functions with true axioms: pyvc/trans.py); NumPy-2 complex sign modelled as in pyvc/builtins.py. Not covered: derivatives of the jax helpers (obtained by jax AD), exact agreement of smooth helpers with non-smooth NumPy functions (they are approximations by design).",
        technique="deductive verification: dual-number symbolic execution of real source -> VCs -> z3 (QF_NRA + UF); canaries + native complex-step sampling (h=1e-40)"),
    'C25': dict(
        text="Proof that the jax ks_max / ks_min compute m +- (1/rho) log Sum exp(+-rho (g_k - m)) around the attained extremum m and that the result lies in [max g, max g + ln(n)/rho] (mirrored for the minimum), for every array length, every g (ties, any magnitude) and every rho > 0. exp/log/finite sums are uninterpreted in the SMT proof; the facts used about them (sum of terms in [0,1] with a unit term lies in [1,n]; the KS bracket; shift invariance of log-sum-exp) are machine-checked in Lean 4 / Mathlib (lean/OmLemmas.lean). The NumPy KSfunction/KSComp (2-d axis reductions, upper / lower_flag / minimum, partials vs complex step) is decided only in a BOUNDED exhaustive tier and reported as bounded.",
        design_ref="DESIGN.md section 3 C25",
        note="Trusted: pyvc, z3, Lean kernel + Mathlib; the hand correspondence between pyvc's Sum/exp/log facts (pyvc/npmodel.py np_sum, pyvc/trans.py) and the Lean statements; reals for floats (exp overflow not modelled); jit assumed semantics-preserving. Not covered by proof: gradients of the jax functions (jax AD), the NumPy KSfunction and KSComp option handling (bounded tier only).",
        technique="deductive verification (pyvc -> z3) + Lean 4/Mathlib lemmas for sums/exp/log; bounded exhaustive native tier for KSComp"),
}
