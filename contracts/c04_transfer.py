"""C04 — connected inputs hold their source value with indices and units applied.

Under contract (the rest of the chain — connection resolution, Indexer classes, unit factors — is C05 / C06 / C08
or the bounded tier bounded/c04_transfer.py):
  * DefaultTransfer._transfer[fwd] (contracts/c02_adjoint.py): every input entry gets the source entry its index pair
    names, everything else is untouched;
  * lemma input_phys_from_norm (contracts/c08_scaling.py): physical input value = (physical source value + offset)*factor;
  * AllConnGraph.get_src_index_array, chain branch: the transfer positions of a chain of two index objects are the
    composition of the two indexings applied to arange(source size).reshape(source shape), returned FLAT in C order
    (the flat form is what the transfer buffers require — defect repaired in /repo);
  * default_transfer._fill for two connections: the index buffer is the concatenation of the per-connection index
    arrays, nothing else written."""
from pyvc.spec import *   # noqa

CG = 'openmdao/core/conn_graph.py'
DT = 'openmdao/vectors/default_transfer.py'


def _iv_ghost(which):
    def g(it, env, res):
        it.ctx.ghost[which] = res
    return g


NODE = "('i', 'g.x')"
contract(CG + '::AllConnGraph.get_src_index_array', ['C04'],
         dict(self=Obj('AllConnGraph', _members_=Const((('i', 'g.x'), ('o', 'src.y'))), nodes=DictT({('i', 'g.x'): DictT({'attrs': Obj('NodeAttrs', src_inds_list=ListT(Obj('Indexer', _tag=1), Obj('Indexer', _tag=2)))}),
                                                    ('o', 'src.y'): DictT({'attrs': Obj('NodeAttrs', distributed=False, shape=TupleT(Size('s0'), Size('s1')), global_shape=None)})})),
              abs_in='g.x'),
         requires=['s0 >= 1 and s1 >= 1'],
         ensures=['len(result) == q0 * q1',
                  # flat, C order: entry k = r*q1 + c is the position the second indexing selected for (r, c)
                  'all(all(result[r * q1 + c] == ghost("final")[r, c] for c in range(q1)) for r in range(q0))'],
         modifies=[], ghost_init={'first': None, 'final': None},
         assumed={                  'self.get_root': Assumed(returns_expr="('o', 'src.y')", note='root (source output) of the connection tree of this input'),
                  'shape_to_len': Assumed(returns_expr='arg0[0] * arg0[1]'),
                  'inds.indexed_val': Assumed(returns=Arr('q0', 'q1', dtype='int'), ghost=_iv_ghost('final'),
                                              note='Indexer.indexed_val(arr): NumPy indexing of arr by this index object (C05, bounded tier); the result of the LAST index object of the chain is recorded')},
         name=CG + '::AllConnGraph.get_src_index_array[chain of two index objects, 2-d source]',
         canaries=[('chained positions returned in the shape of the result instead of flat (the defect repaired in /repo)', ('return arr.ravel()', 'return arr'), 'post')])

contract(DT + '::_fill', ['C04'],
         dict(arr=Arr('n', dtype='int'), indices_iter=ListT(Arr('a', dtype='int'), Arr('b', dtype='int'))),
         requires=['a + b <= n'],
         ensures=['all(arr[k] == indices_iter[0][k] for k in range(a))', 'all(arr[a + k] == indices_iter[1][k] for k in range(b))',
                  'all(implies(i >= a + b, arr[i] == old(arr[i])) for i in range(n))'],
         modifies=['arr'], name=DT + '::_fill[two connections]',
         canaries=[('second connection written over the first', ('arr[start:end] = inds', 'arr[0:len(inds)] = inds'), 'post')])
