"""C10 — bounds enforcement keeps Newton updates inside bounds and along the step.

Targets: openmdao/solvers/linesearch/backtracking.py
"""
from pyvc.spec import *   # noqa

F = 'openmdao/solvers/linesearch/backtracking.py'
VEC_INLINE = {'asarray', '__imul__', '__iadd__', 'add_scal_vec', 'iadd', 'imul'}

# The statement, per element i (u0 = start point = u - alpha*du on entry, step = alpha*du0):
#   feasible start  ==>  lower <= u' <= upper,  (u'-u0)*step >= 0,  |u'-u0| <= |step|
START_FEASIBLE = [
    'alpha > 0',
    'implies(lower_bounds is not None, all(lower_bounds[i] <= u._data[i] - alpha*du._data[i] for i in range(n)))',
    'implies(upper_bounds is not None, all(u._data[i] - alpha*du._data[i] <= upper_bounds[i] for i in range(n)))',
    'implies(lower_bounds is not None and upper_bounds is not None, all(lower_bounds[i] <= upper_bounds[i] for i in range(n)))',
]
WITHIN = [
    'implies(lower_bounds is not None, all(le(lower_bounds[i], u._data[i]) for i in range(n)))',
    'implies(upper_bounds is not None, all(le(u._data[i], upper_bounds[i]) for i in range(n)))',
]
ALONG = [
    # not opposite to the Newton step, not beyond the full step
    'all(le(0, (u._data[i] - (old(u._data[i]) - alpha*old(du._data[i]))) * old(du._data[i])) for i in range(n))',
    'all(le(abs(u._data[i] - (old(u._data[i]) - alpha*old(du._data[i]))), abs(alpha*old(du._data[i]))) for i in range(n))',
]

# a step that violates no bound is left alone (otherwise "never move" would satisfy the rest)
NOOP = [
    'implies(all((lower_bounds is None or lower_bounds[j] <= old(u._data[j])) and (upper_bounds is None or old(u._data[j]) <= upper_bounds[j]) for j in range(n)), '
    'all(u._data[i] == old(u._data[i]) and du._data[i] == old(du._data[i]) for i in range(n)))',
]

KERNEL_PARAMS = dict(u=Vec('n'), du=Vec('n'), alpha=Real(),
                     lower_bounds=Opt(Arr('n')), upper_bounds=Opt(Arr('n')))


def native_kernel(vals, np, om):
    """Build real DefaultVectors for the replay (runs under /venv/bin/python)."""
    from pyvc.native_helpers import make_vector, A, Fl
    ud = A(vals['u']['_data'])
    n = len(ud)
    u = make_vector(ud)
    du = make_vector(A(vals['du']['_data']))
    return dict(u=u, du=du, alpha=Fl(vals['alpha']), lower_bounds=A(vals['lower_bounds']),
                upper_bounds=A(vals['upper_bounds'])), dict(n=n)


def kernel_sampler(rng):
    """feasible start point u0 in [lb, ub], arbitrary step; the kernels see u = u0 + alpha*du"""
    n = rng.choice([1, 2, 2, 3, 3, 4])
    alpha = rng.choice([4, 8, 8, 16])            # in eighths
    has_l, has_u = rng.choice([(True, True), (True, True), (True, False), (False, True), (False, False)])
    lb = [rng.choice([-16, -8, 0, 0, 4]) for _ in range(n)]
    ub = [l + rng.choice([0, 4, 8, 8, 16, 32]) for l in lb]
    u0 = [rng.randint(l, u_) for l, u_ in zip(lb, ub)]
    du = [rng.choice([-32, -16, -12, -6, -2, 0, 0, 3, 6, 10, 16, 24]) for _ in range(n)]
    u = [a * 8 + alpha * d for a, d in zip(u0, du)]          # in 1/64

    def arr(vals, den):
        return {'__arr__': [{'__frac__': [v, den]} for v in vals], 'shape': [n], 'dtype': 'real'}
    vec = lambda a: {'__obj__': 'DefaultVector', 'id': 0, 'attrs': {'_data': a, '_under_complex_step': False}}
    return {'u': vec(arr(u, 64)), 'du': vec(arr(du, 8)), 'alpha': {'__frac__': [alpha, 8]},
            'lower_bounds': arr(lb, 8) if has_l else None, 'upper_bounds': arr(ub, 8) if has_u else None}


contract(F + '::_enforce_bounds_vector', ['C10'], KERNEL_PARAMS, sampler=kernel_sampler,
         requires=START_FEASIBLE,
         ensures=WITHIN + ALONG + NOOP + [
             # u and du stay consistent: u' = u0 + alpha*du'
             'all(approx(u._data[i], (old(u._data[i]) - alpha*old(du._data[i])) + alpha*du._data[i]) for i in range(n))',
         ],
         modifies=['u._data', 'du._data'], inline=VEC_INLINE, native=native_kernel,
         canaries=[
             ('drop np.abs in the step normalisation', ('abs_du_mask = np.abs(du_arr[mask])', 'abs_du_mask = du_arr[mask]'), 'post'),
             ('upper bound check skipped', ('if upper_bounds is not None:', 'if upper_bounds is not None and False:'), 'post'),
             ('sign of the pull-back flipped', ('u.add_scal_vec(-d_alpha, du)', 'u.add_scal_vec(d_alpha, du)'), 'post'),
         ])

contract(F + '::_enforce_bounds_scalar', ['C10'], KERNEL_PARAMS, sampler=kernel_sampler,
         requires=START_FEASIBLE,
         ensures=WITHIN + ALONG + NOOP + [
             'all(approx(u._data[i], (old(u._data[i]) - alpha*old(du._data[i])) + alpha*du._data[i]) for i in range(n))',
         ],
         modifies=['u._data', 'du._data'], inline=VEC_INLINE, native=native_kernel,
         canaries=[
             ('minimum/maximum swapped', ('np.minimum(u_data, upper_bounds)', 'np.maximum(u_data, upper_bounds)'), 'post'),
             ('du correction not normalised by alpha', ('du += change / alpha', 'du += change'), 'post'),
         ])

contract(F + '::_enforce_bounds_wall', ['C10'], KERNEL_PARAMS, sampler=kernel_sampler,
         # call site (_enforce_bounds) is guarded by system._has_bounds: at least one bound array
         requires=START_FEASIBLE + ['lower_bounds is not None or upper_bounds is not None'],
         ensures=WITHIN + ALONG + NOOP + [
             # entries that hit a bound get a zero step, the others keep u' = u0 + alpha*du'
             'all(implies(u._data[i] != old(u._data[i]), du._data[i] == 0) for i in range(n))',
             'all(implies(u._data[i] == old(u._data[i]), du._data[i] == old(du._data[i])) for i in range(n))',
         ],
         modifies=['u._data', 'du._data'], inline=VEC_INLINE, native=native_kernel,
         canaries=[
             ('wall does not zero the step', ('du_data[changed_either] = 0.', 'du_data[changed_either] = 1.'), 'post'),
             ('lower change dropped', ('change = change_lower + change_upper', 'change = change_upper'), 'post'),
         ])


# ---------------------------------------------------------------------------------------------
# dispatch and call protocol: the kernels' precondition ("alpha*du was just added to a feasible
# u") is a pre@callee obligation at these call sites.

def solver_spec(cls, **extra):
    sysobj = Obj('System', _has_bounds=OneOf(True, False), _outputs=Vec('n'), _doutputs=Vec('n'),
                 _residuals=Vec('n'))
    attrs = dict(_system=Callable(sysobj),
                 options=DictT({'bound_enforcement': OneOf('vector', 'scalar', 'wall'),
                                'print_bound_enforce': False}),
                 _lower_bounds=Opt(Arr('n')), _upper_bounds=Opt(Arr('n')), _iter_count=Int(),
                 _norm0=Real())
    attrs.update(extra)
    return Obj(cls, **attrs)


U = 'self._system()._outputs._data'
LB, UB = 'self._lower_bounds', 'self._upper_bounds'
HAS = 'self._system()._has_bounds'


def within(u):
    return ['implies(%s and %s is not None, all(le(%s[i], %s[i]) for i in range(n)))' % (HAS, LB, LB, u),
            'implies(%s and %s is not None, all(le(%s[i], %s[i]) for i in range(n)))' % (HAS, UB, u, UB)]


SETUP_INV = [  # what LinesearchSolver._setup_solvers establishes
    'implies(%s, %s is not None or %s is not None)' % (HAS, LB, UB),
    'implies(%s is not None and %s is not None, all(%s[i] <= %s[i] for i in range(n)))' % (LB, UB, LB, UB),
]


def native_solver(cls_name, with_step):
    def build(vals, np, om):
        from pyvc.native_helpers import A, Fl, make_ls_solver
        s = vals['self']
        sysv = s['_system']['__callable__']
        solver = make_ls_solver(cls_name, A(sysv['_outputs']['_data']), A(sysv['_doutputs']['_data']),
                                bool(sysv['_has_bounds']), A(s['_lower_bounds']), A(s['_upper_bounds']),
                                s['options']['bound_enforcement'])
        kw = dict(self=solver)
        n = len(A(sysv['_outputs']['_data']))
        if with_step:
            kw['step'] = solver._system()._doutputs
            kw['alpha'] = Fl(vals['alpha'])
        return kw, dict(n=n)
    return build


contract(F + '::LinesearchSolver._enforce_bounds', ['C10'],
         dict(self=solver_spec('LinesearchSolver'), step=Shared('self._system()._doutputs'), alpha=Real()),
         requires=SETUP_INV + ['alpha > 0'] + [
             'implies(%s and %s is not None, all(%s[i] <= %s[i] - alpha*step._data[i] for i in range(n)))' % (HAS, LB, LB, U),
             'implies(%s and %s is not None, all(%s[i] - alpha*step._data[i] <= %s[i] for i in range(n)))' % (HAS, UB, U, UB)],
         ensures=within(U) + [
             'implies(%s, all(le(0, (%s[i] - (old(%s[i]) - alpha*old(step._data[i]))) * old(step._data[i])) for i in range(n)))' % (HAS, U, U),
             'implies(%s, all(le(abs(%s[i] - (old(%s[i]) - alpha*old(step._data[i]))), abs(alpha*old(step._data[i]))) for i in range(n)))' % (HAS, U, U),
             'implies(not %s, all(%s[i] == old(%s[i]) and step._data[i] == old(step._data[i]) for i in range(n)))' % (HAS, U, U),
             'implies(all((%s is None or %s[j] <= old(%s[j])) and (%s is None or old(%s[j]) <= %s[j]) for j in range(n)), '
             'all(%s[i] == old(%s[i]) and step._data[i] == old(step._data[i]) for i in range(n)))' % (LB, LB, U, UB, U, UB, U, U),
             # iterate and step stay consistent: every entry either has a zero step (it was put on a bound: wall) or is the
             # starting point plus alpha times the NEW step (what later backtracking along the step relies on)
             'all(step._data[i] == 0 or approx(%s[i] - alpha*step._data[i], old(%s[i]) - alpha*old(step._data[i])) for i in range(n))' % (U, U)],
         modifies=['self._system()._outputs._data', 'self._system()._doutputs._data', 'step._data'],
         native=native_solver('BoundsEnforceLS', True),
         canaries=[('scalar method dispatched to nothing', ("elif method == 'scalar':", "elif method == 'scalarx':"), 'post')])

APPLY_ASSUMED = {
    'self._run_apply': Assumed(modifies=['self._system()._residuals._data'],
                               note='apply_nonlinear writes residuals only'),
    'self._iter_get_norm': Assumed(returns=Real(), note='residual norm: any real'),
}

contract(F + '::BoundsEnforceLS._solve', ['C10'],
         dict(self=solver_spec('BoundsEnforceLS')),
         requires=SETUP_INV + within(U),          # Newton iterate starts within bounds
         ensures=within(U) + [
             # no entry moves opposite to its Newton step or beyond the full step
             'all(le(0, (%s[i] - old(%s[i])) * old(self._system()._doutputs._data[i])) for i in range(n))' % (U, U),
             'all(le(abs(%s[i] - old(%s[i])), abs(old(self._system()._doutputs._data[i]))) for i in range(n))' % (U, U),
             'implies(not %s, all(%s[i] == old(%s[i]) + old(self._system()._doutputs._data[i]) for i in range(n)))' % (HAS, U, U),
             # a full step that violates no bound is taken unchanged
             'implies(all((%s is None or %s[j] <= old(%s[j]) + old(self._system()._doutputs._data[j])) and (%s is None or old(%s[j]) + old(self._system()._doutputs._data[j]) <= %s[j]) for j in range(n)), '
             'all(%s[i] == old(%s[i]) + old(self._system()._doutputs._data[i]) for i in range(n)))' % (LB, LB, U, UB, U, UB, U, U)],
         modifies=['self._system()._outputs._data', 'self._system()._doutputs._data',
                   'self._system()._residuals._data', 'self._iter_count', 'self._norm0'],
         assumed=APPLY_ASSUMED, inline=VEC_INLINE, native=native_solver('BoundsEnforceLS', False),
         canaries=[('full step applied after bounds enforcement instead of before',
                    ("        u += du\n\n        with Recording", "        with Recording"), 'pre@callee')])


# ArmijoGoldsteinLS._iter_initialize: the initial step alpha*du is added to an iterate within bounds and the enforcement is
# called WITH THAT alpha (the callee's precondition "u - alpha*step is within bounds" is a pre@callee obligation here;
# it fails if another alpha - e.g. a default - reaches _enforce_bounds)
AG_ASSUMED = dict(APPLY_ASSUMED)
AG_ASSUMED.update({
    'self._line_search_objective': Assumed(returns=Real(), note='residual norm: any real'),
    'self._solver_info.save_cache': Assumed(returns=OpaqueT('cache'), note='solver-info print cache (no numeric state)'),
    'self._solver_info.restore_cache': Assumed(note='solver-info print cache (no numeric state)'),
})


def ag_spec():
    sp = solver_spec('ArmijoGoldsteinLS', alpha=Real(), _phi0=Real(), _dir_derivative=Real(), _solver_info=OpaqueT('solver_info'),
                     _analysis_error_raised=False)
    sp.attrs['options'] = DictT({'bound_enforcement': OneOf('vector', 'scalar', 'wall'), 'print_bound_enforce': False,
                                 'alpha': Real(), 'retry_on_analysis_error': OneOf(True, False)})
    return sp


def native_ag(vals, np, om):
    from pyvc.native_helpers import A, Fl, make_ls_solver
    s = vals['self']
    sysv = s['_system']['__callable__']
    solver = make_ls_solver('ArmijoGoldsteinLS', A(sysv['_outputs']['_data']), A(sysv['_doutputs']['_data']),
                            bool(sysv['_has_bounds']), A(s['_lower_bounds']), A(s['_upper_bounds']),
                            s['options']['bound_enforcement'], alpha=Fl(s['options']['alpha']))
    return dict(self=solver), dict(n=len(A(sysv['_outputs']['_data'])))


AL = "self.options['alpha']"
contract(F + '::ArmijoGoldsteinLS._iter_initialize', ['C10'],
         dict(self=ag_spec()),
         requires=SETUP_INV + within(U) + ['%s > 0' % AL],
         ensures=within(U) + [
             # no entry moves opposite to its Newton step or beyond the step alpha*du that was asked for
             'all(le(0, (%s[i] - old(%s[i])) * old(self._system()._doutputs._data[i])) for i in range(n))' % (U, U),
             'all(le(abs(%s[i] - old(%s[i])), abs(%s * old(self._system()._doutputs._data[i]))) for i in range(n))' % (U, U, AL),
             'implies(not %s, all(%s[i] == old(%s[i]) + %s * old(self._system()._doutputs._data[i]) for i in range(n)))' % (HAS, U, U, AL),
             'self.alpha == %s' % AL,
             # consistency handed on to the backtracking loop: zero step, or start + alpha * (new step)
             'all(self._system()._doutputs._data[i] == 0 or approx(%s[i] - %s * self._system()._doutputs._data[i], old(%s[i])) for i in range(n))' % (U, AL, U)],
         modifies=['self._system()._outputs._data', 'self._system()._doutputs._data', 'self._system()._residuals._data',
                   'self.alpha', 'self._phi0', 'self._dir_derivative', 'self._analysis_error_raised'],
         assumed=AG_ASSUMED, inline=VEC_INLINE, native=native_ag, may_raise=['AnalysisError'],
         canaries=[('enforcement called with the default step length instead of alpha',
                    ('self._enforce_bounds(step=du, alpha=alpha)', 'self._enforce_bounds(step=du, alpha=1.0)'), 'pre@callee')])


# ArmijoGoldsteinLS._solve: the backtracking loop only ever moves the iterate along the (enforced) step between the
# starting point and the point accepted by _iter_initialize, so every bounded entry stays within its bounds and no entry
# moves against its Newton step or beyond alpha times it.  Loop invariant (inductive cut, any number of backtracks):
#   0 <= self.alpha <= alpha0;  u[i] == u0[i] + self.alpha * du[i] or du[i] == 0;  u within bounds;  the two "along the
#   step" facts.  _iter_initialize enters through its contract above; sub-solves (hybrid Newton) are switched off.
DU = 'du._data'
OLD_DU = 'old(self._system()._doutputs._data[i])'
AG_INV = [
    '0 <= self.alpha and self.alpha <= %s' % AL,
    'all(%s[i] == 0 or approx(%s[i] - self.alpha * %s[i], old(%s[i])) for i in range(n))' % (DU, U, DU, U),
    'all(le(0, %s[i] * %s) for i in range(n))' % (DU, OLD_DU),
    'all(le(abs(%s[i]), abs(%s)) for i in range(n))' % (DU, OLD_DU),
    'all(le(0, (%s[i] - old(%s[i])) * %s) for i in range(n))' % (U, U, OLD_DU),
    'all(le(abs(%s[i] - old(%s[i])), abs(%s * %s)) for i in range(n))' % (U, U, AL, OLD_DU),
] + within(U)


def ag_solve_spec():
    sp = ag_spec()
    sp.attrs['options'] = DictT({'bound_enforcement': OneOf('vector', 'scalar', 'wall'), 'print_bound_enforce': False,
                                 'alpha': Real(), 'retry_on_analysis_error': OneOf(True, False), 'maxiter': Int(0, None),
                                 'rho': Real(), 'method': OneOf('Armijo', 'Goldstein'), 'c': Real()})
    sp.attrs['_do_subsolve'] = False
    return sp


AGS_ASSUMED = dict(AG_ASSUMED)
AGS_ASSUMED.update({
    'self._stopping_criteria': Assumed(returns=Bool(), note='sufficient-decrease test on residual norms: any outcome'),
    "with Recording": (Assumed(returns=OpaqueT('rec')), Assumed()),
})

contract(F + '::ArmijoGoldsteinLS._solve', ['C10'],
         dict(self=ag_solve_spec()),
         requires=SETUP_INV + within(U) + ['%s > 0' % AL, "0 <= self.options['rho'] and self.options['rho'] <= 1"],
         ensures=within(U) + [
             'all(le(0, (%s[i] - old(%s[i])) * old(self._system()._doutputs._data[i])) for i in range(n))' % (U, U),
             'all(le(abs(%s[i] - old(%s[i])), abs(%s * old(self._system()._doutputs._data[i]))) for i in range(n))' % (U, U, AL)],
         modifies=['self._system()._outputs._data', 'self._system()._doutputs._data', 'self._system()._residuals._data',
                   'self.alpha', 'self._phi0', 'self._dir_derivative', 'self._analysis_error_raised', 'self._iter_count'],
         invariants={'loop0': AG_INV},
         loop_modifies={'loop0': ['u._data[0]', 'system._residuals._data[0]', 'self.alpha', 'self._iter_count', 'self._analysis_error_raised']},
         assumed=AGS_ASSUMED, inline=VEC_INLINE | {'_update_step_length_parameter', '_single_iteration'}, may_raise=['AnalysisError'],
         name=F + '::ArmijoGoldsteinLS._solve', defs={'opaque_classes': ['Recording'], 'timeout_ms': 40000},
         canaries=[('backtracking moves along the step with the wrong sign', ('u.add_scal_vec(self.alpha - alpha_old, du)', 'u.add_scal_vec(alpha_old - self.alpha, du)'), 'inv-step')])


# ---------------------------------------------------------------------------------------------
# LinesearchSolver._setup_solvers: the bounds the kernels enforce are the PHYSICAL bounds expressed in the solver's
# scaled space, whatever ref / ref0.  One iteration of the per-variable loop, extracted mechanically on every run
# (pyvc/extract.py make_fragment, '@loopbody(meta)'); statement taken from the property: for every physical value x
# of element k,   lower_k <= x <= upper_k   <=>   LB[s0+k] <= (x - ref0)/(ref - ref0) <= UB[s0+k].
def _bmeta(lower, upper):
    return DictT({'y': DictT({'lower': lower, 'upper': upper, 'ref0': Real(), 'ref': Real()})})


def native_setup_bounds(vals, np, om):
    from pyvc.native_helpers import A, Fl
    m = vals['abs2meta_out']['y']

    def b(v):
        if v is None:
            return None
        return A(v) if isinstance(v, dict) and '__arr__' in v else Fl(v)
    n = len(A(vals['val']))
    N = len(A(vals['system']['_outputs']['_data']))
    ls = om.BoundsEnforceLS()
    ls._lower_bounds = None
    ls._upper_bounds = None
    ls._xq = Fl(vals['self']['_xq'])

    class Sys:
        pass
    s = Sys()
    s._outputs = np.zeros(N)
    s0 = int(vals['start'])
    return dict(abs2meta_out={'y': {'lower': b(m['lower']), 'upper': b(m['upper']), 'ref0': Fl(m['ref0']), 'ref': Fl(m['ref'])}}, abs_name='y', val=np.zeros(n),
                start=s0, end=s0, self=ls, system=s), dict(n=n, N=N, s0=s0, xq=Fl(vals['self']['_xq']))


XQ = 'old(self._xq)'
T = "((%s - abs2meta_out['y']['ref0']) / (abs2meta_out['y']['ref'] - abs2meta_out['y']['ref0']))" % XQ
for _lo, _up in ((Arr('n'), Arr('n')), (Real(), Real()), (Arr('n'), None), (None, Real())):
    LOK = None if _lo is None else ("abs2meta_out['y']['lower'][k]" if isinstance(_lo, Arr) else "abs2meta_out['y']['lower']")
    UPK = None if _up is None else ("abs2meta_out['y']['upper'][k]" if isinstance(_up, Arr) else "abs2meta_out['y']['upper']")
    phys = ' and '.join(x for x in (('%s <= %s' % (LOK, XQ)) if LOK else None, ('%s <= %s' % (XQ, UPK)) if UPK else None) if x)
    box = "(result['self']._lower_bounds is None or result['self']._lower_bounds[s0 + k] <= %s) and (result['self']._upper_bounds is None or %s <= result['self']._upper_bounds[s0 + k])" % (T, T)
    contract(F + '::LinesearchSolver._setup_solvers@loopbody(meta)', ['C10'],
             dict(abs2meta_out=_bmeta(_lo, _up), abs_name='y', val=Arr('n'), start=Size('s0'), end=Size('s0'),
                  self=Obj('LinesearchSolver', _lower_bounds=None, _upper_bounds=None, _xq=Real()), system=Obj('System', _outputs=Vec('N'))),
             requires=["abs2meta_out['y']['ref'] != abs2meta_out['y']['ref0']", 's0 + n <= N', 'n >= 1',
                       # magnitude envelope (np.inf is modelled as a real constant above every finite double; infinite bounds of the
                       # missing side must stay beyond every scaled value): |x|, |ref|, |ref0| <= 1e100 and |ref - ref0| >= 1e-100
                       'abs(self._xq) <= 10 ** 100', "abs(abs2meta_out['y']['ref']) <= 10 ** 100", "abs(abs2meta_out['y']['ref0']) <= 10 ** 100",
                       "abs(abs2meta_out['y']['ref'] - abs2meta_out['y']['ref0']) * 10 ** 100 >= 1"],
             ensures=['all(iff(%s, %s) for k in range(n))' % (phys, box),
                      "result['start'] == s0 + n and result['end'] == s0 + n"],
             modifies=['self._lower_bounds', 'self._upper_bounds'], native=native_setup_bounds, inline={'__len__'},
             name=F + '::LinesearchSolver._setup_solvers[bounds of one variable: lower=%s, upper=%s]' % (type(_lo).__name__, type(_up).__name__),
             canaries=[('bounds not exchanged for a negative scale ref - ref0 (the defect repaired in /repo)', ('if np.any(scale < 0):', 'if False:'), 'post', F + '::LinesearchSolver._setup_solvers')]
             if isinstance(_lo, Real) else
             [('upper bound scaled without subtracting ref0', ('var_upper = (var_upper - ref0) / scale', 'var_upper = var_upper / scale'), 'post', F + '::LinesearchSolver._setup_solvers')]
             if isinstance(_lo, Arr) and isinstance(_up, Arr) else [])


# ---------------------------------------------------------------------------------------------
# NewtonSolver._single_iteration: the composition the line-search contracts above rely on.  The linear system is solved
# for the right-hand side  -residuals  (set from the CURRENT residual vector), the iterate is not touched before the line
# search (or the plain update u += du) sees the step the linear solve delivered, and local fd ownership is restored
# whatever happens.
NW = 'openmdao/solvers/nonlinear/newton.py'


def _nw_order(tag):
    def g(it, env, res):
        it.ctx.ghost['order'] = list(it.ctx.ghost.get('order', [])) + [tag]
    return g


def _nw_lin_ghost(it, env, res):
    it.ctx.ghost['order'] = list(it.ctx.ghost.get('order', [])) + ['linear_solve']
    sysobj = env['system']
    from pyvc import npmodel as npm
    for key, vec in (('rhs_at_solve', '_dresiduals'), ('u_at_solve', '_outputs')):
        a = sysobj.attrs[vec].attrs['_data']
        it.ctx.ghost[key] = npm.new_arr(it.ctx, (a.n,), it.frozen_getter(a), 'real', 'snap')      # a snapshot copy


def nw_spec(has_ls):
    sysobj = Obj('System', under_complex_step=False, _owns_approx_jac=OneOf(True, False), _outputs=Vec('n'), _doutputs=Vec('n'),
                 _residuals=Vec('n'), _dresiduals=Vec('n'))
    return Obj('NewtonSolver', _system=Callable(sysobj), _solver_info=OpaqueT('solver_info'), _iter_count=Int(0, None),
               options=DictT({'solve_subsystems': False, 'max_sub_solves': Int(0, None)}),
               linear_solver=OpaqueT('linear_solver'),
               linesearch=(Obj('BoundsEnforceLS', _do_subsolve=OneOf(True, False)) if has_ls else None))


SYS = 'self._system()'
for _ls in (False, True):
    ens = ["%s._owns_approx_jac == old(%s._owns_approx_jac)" % (SYS, SYS),
           # right-hand side of the Newton system: minus the residuals as they were on entry
           "all(ghost('rhs_at_solve')[i] == -old(%s._residuals._data[i]) for i in range(n))" % SYS,
           # nothing moved the iterate before the linear solve
           "all(ghost('u_at_solve')[i] == old(%s._outputs._data[i]) for i in range(n))" % SYS]
    if _ls:
        ens += ["ghost('order') == ['linearize_system', 'linearize_solver', 'linear_solve', 'linesearch']", 'self.linesearch._do_subsolve == False']
    else:
        ens += ["ghost('order') == ['linearize_system', 'linearize_solver', 'linear_solve']",
                # plain Newton update with the step the linear solve left in the linear output vector
                'all(%s._outputs._data[i] == old(%s._outputs._data[i]) + %s._doutputs._data[i] for i in range(n))' % (SYS, SYS, SYS)]
    contract(NW + '::NewtonSolver._single_iteration', ['C10', 'C09'], dict(self=nw_spec(_ls)),
             ensures=ens, exc_ensures=["%s._owns_approx_jac == old(%s._owns_approx_jac)" % (SYS, SYS)], may_raise=['AnalysisError'],
             modifies=[SYS + '._owns_approx_jac', SYS + '._dresiduals._data', SYS + '._doutputs._data', SYS + '._outputs._data', SYS + '._residuals._data',
                       'self.linesearch._do_subsolve'],
             ghost_init={'order': [], 'rhs_at_solve': None, 'u_at_solve': None}, inline=VEC_INLINE | {'set_vec', 'set_val'},
             assumed={'self._solver_info.append_subsolver': Assumed(), 'self._solver_info.pop': Assumed(),
                      'self.linear_solver._linearize_children': Assumed(returns=Bool()),
                      'system._linearize': Assumed(ghost=_nw_order('linearize_system'), may_raise=['AnalysisError'], note='builds the jacobian (does not touch the nonlinear vectors)'),
                      'self._linearize': Assumed(ghost=_nw_order('linearize_solver')),
                      'self.linear_solver.solve': Assumed(modifies=['system._doutputs._data'], ghost=_nw_lin_ghost, note='solves J du = dresiduals; writes the linear outputs only'),
                      'self.linesearch.solve': Assumed(modifies=['system._outputs._data', 'system._doutputs._data', 'system._residuals._data'], ghost=_nw_order('linesearch'),
                                                       note='BoundsEnforceLS._solve / ArmijoGoldsteinLS._solve: the contracts above')},
             name=NW + '::NewtonSolver._single_iteration[%s]' % ('with line search' if _ls else 'no line search'),
             canaries=[('right-hand side not negated', ('system._dresiduals *= -1.0', 'system._dresiduals *= 1.0'), 'post')] if not _ls else
                      [('line search called before the linear solve', ("            self.linear_solver.solve('fwd')\n\n            if self.linesearch and not system.under_complex_step:\n                self.linesearch._do_subsolve = do_subsolve\n                self.linesearch.solve()",
                                                                        "            if self.linesearch and not system.under_complex_step:\n                self.linesearch._do_subsolve = do_subsolve\n                self.linesearch.solve()\n            self.linear_solver.solve('fwd')\n            if False:\n                pass"), 'post')])
