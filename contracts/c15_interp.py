"""C15 / C16 — table interpolation: what is within pyvc's reach.

  * the out-of-bounds decision of InterpND._interpolate (loop body over the coordinates, extracted mechanically on
    every run): with extrapolation off an OutOfBoundsError is raised exactly when a coordinate is NaN or lies
    outside [g_first - tol, g_last + tol], tol = 1e-14*|g_last| >= 0, and nothing else is ever raised (in
    particular no point on or inside the grid raises, whatever the sign of the grid coordinates);
  * the 1-d kernels Interp1DSlinear, Interp1DLagrange2, Interp1DLagrange3 (one-point path): value, derivative w.r.t. x (C16), node
    exactness, and coherence of its per-cell coefficient cache.
Everything else (multi-dimensional recursion, akima / lagrange / cubic / scipy algebra, spline mode) is decided in
the BOUNDED tier bounded/c15_interp.py."""
from pyvc.spec import *   # noqa

IN = 'openmdao/components/interp_util/interp.py'
SL = 'openmdao/components/interp_util/interp_slinear.py'

G0, GL = 'self.grid[i][0]', 'self.grid[i][ng - 1]'
TOL = '(1e-14 * abs(%s))' % GL
OUTSIDE = 'any(is_nan(p[k]) or p[k] < %s - %s or p[k] > %s + %s for k in range(n))' % (G0, TOL, GL, TOL)


def _inc_grid(rng, n):
    xs = sorted(rng.sample([-40, -28, -24, -16, -8, -4, -2, -1, 0, 1, 2, 4, 8, 12, 16, 24, 40], n))
    if rng.random() < 0.4:
        xs = [x - 41 for x in xs]          # all-negative axis
    return {'__arr__': [{'__frac__': [x, 8]} for x in xs], 'shape': [n], 'dtype': 'real'}, xs


def sample_bounds(rng):
    ng = rng.choice([2, 3, 5])
    g, xs = _inc_grid(rng, ng)
    n = rng.choice([1, 2, 3])
    pts = [rng.choice([xs[0], xs[-1], xs[0] - 1, xs[-1] + 1, xs[0] + 1, rng.choice(xs), xs[0] - 100, (xs[0] + xs[-1]) // 2]) for _ in range(n)]
    return {'self': {'__obj__': 'InterpND', 'id': 0, 'attrs': {'grid': {'__seq__': [g], 'tuple': True}}}, 'i': 0,
            'p': {'__arr__': [{'__frac__': [x, 8]} for x in pts], 'shape': [n], 'dtype': 'real'}}


def sample_sl(k):
    def samp(rng):
        g, xs = _inc_grid(rng, 4)
        vals = {'__arr__': [{'__frac__': [rng.choice([-24, -8, -3, 0, 1, 5, 16, 40]), 8]} for _ in range(4)], 'shape': [4], 'dtype': 'real'}
        c = min(max(k, 0), 2)
        x = rng.choice([xs[c], xs[c + 1], xs[c] + 1, xs[0] - 7, xs[-1] + 5, (xs[c] + xs[c + 1]) // 2])
        return {'self': {'__obj__': 'Interp1DSlinear', 'id': 0, 'attrs': {'grid': {'__seq__': [g], 'tuple': True}, 'values': vals, 'coeffs': {'__dict__': []}}},
                'x': {'__arr__': [{'__frac__': [x, 8]}], 'shape': [1], 'dtype': 'real'}, 'idx': {'__seq__': [k], 'tuple': False}}
    return samp


def native_bounds(vals, np, om):
    from pyvc.native_helpers import A
    from openmdao.components.interp_util.interp import InterpND
    g = A(vals['self']['grid'][0])
    it = InterpND(method='slinear', points=[g], values=np.zeros(len(g)), extrapolate=False)
    return dict(self=it, i=0, p=A(vals['p'])), dict(n=len(A(vals['p'])), ng=len(g))


contract(IN + '::InterpND._interpolate@loopbody(eps)', ['C15'],
         dict(self=Obj('InterpND', grid=TupleT(Arr('ng'))), i=0, p=Arr('n')),
         requires=['ng >= 2', 'all(self.grid[0][k] < self.grid[0][k + 1] for k in range(ng - 1))'],
         raises_iff={'OutOfBoundsError': OUTSIDE},
         ensures=[], modifies=[], fp=False, sampler=sample_bounds, native=native_bounds,
         name=IN + '::InterpND._interpolate[out-of-bounds decision for one coordinate]',
         defs={'opaque_classes': ['OutOfBoundsError'], 'exception_classes': ['OutOfBoundsError']},
         assumed={'set(p1).union(p2).pop': Assumed(returns=Int(), ensures=['result >= 0 and result < n'],
                                                   note='some violating index (only used to pick the entry named in the error message); a KeyError from an empty set is modelled as the precondition below',
                                                   requires=['any(self.grid[i][0] > p[k] or p[k] > self.grid[i][ng - 1] for k in range(n))'])},
         canaries=[('tolerance has the sign of the last grid coordinate (the defect repaired in /repo)', ('eps = 1e-14 * abs(self.grid[i][-1])', 'eps = 1e-14 * self.grid[i][-1]'), 'pre@callee', IN + '::InterpND._interpolate'),
                   ('upper end not checked', ('or np.any(p > self.grid[i][-1] + eps)', 'or False'), 'exc', IN + '::InterpND._interpolate')])


# ---- Interp1DSlinear, one-point path, on a 4-point axis (cells -1 .. 3 incl. both extrapolation brackets) -------
# The coefficient cache is a dict keyed by the bracket index, which pyvc handles for concrete keys only: the grid SIZE
# is fixed to 4 here (every bracket index is enumerated), grid coordinates, table values and x are symbolic.
def native_sl(vals, np, om):
    from pyvc.native_helpers import A, Fl
    from openmdao.components.interp_util.interp_slinear import Interp1DSlinear
    s = vals['self']
    g = A(s['grid'][0])
    t = Interp1DSlinear((g,), A(s['values']), Interp1DSlinear)
    t.coeffs = {}
    return dict(self=t, x=A(vals['x']), idx=[int(vals['idx'][0])]), dict(ng=4)


for _k in (-1, 0, 1, 2, 3):
    _c = min(max(_k, 0), 2)          # the cell whose line is used (brackets -1 and ng-1 extrapolate the end cells)
    contract(SL + '::Interp1DSlinear.interpolate', ['C15', 'C16'],
             dict(self=Obj('Interp1DSlinear', grid=TupleT(Arr(4)), values=Arr(4), coeffs=DictT({})), x=Arr(1), idx=ListT(_k)),
             requires=['all(self.grid[0][k] < self.grid[0][k + 1] for k in range(3))'],
             ensures=[
                 # value: the chord of cell c through (g_c, v_c) and (g_c+1, v_c+1)
                 'approx(result[0] * (self.grid[0][%d] - self.grid[0][%d]), self.values[%d] * (self.grid[0][%d] - self.grid[0][%d]) + (self.values[%d] - self.values[%d]) * (x[0] - self.grid[0][%d]))'
                 % (_c + 1, _c, _c, _c + 1, _c, _c + 1, _c, _c),
                 # exact on both nodes of the cell
                 'implies(x[0] == self.grid[0][%d], approx(result[0], self.values[%d])) and implies(x[0] == self.grid[0][%d], approx(result[0], self.values[%d]))' % (_c, _c, _c + 1, _c + 1),
                 # C16: the returned derivative is the slope of exactly that chord = d(value)/dx
                 'len(result[1]) == 1 and approx(result[1][0] * (self.grid[0][%d] - self.grid[0][%d]), self.values[%d] - self.values[%d])' % (_c + 1, _c, _c + 1, _c),
                 'result[2] is None and result[3] is None',
                 # cache coherence: the coefficients stored under this bracket are those of the cell that was used
                 '(%d,) in self.coeffs and approx(self.coeffs[(%d,)][0], self.values[%d])' % (_k, _k, _c)],
             modifies=['self.coeffs'], inline={'compute_coeffs'}, native=native_sl, sampler=sample_sl(_k),
             name=SL + '::Interp1DSlinear.interpolate[4-point axis, bracket %d]' % _k,
             canaries=([('upper extrapolation bracket not mapped onto the last cell', ('if idx == n - 1:\n            idx = n - 2', 'if idx == n - 1:\n            idx = n - 1'), 'bounds')] if _k == 3 else
                       [('slope divided by the wrong interval', ('a[1] = (c1 - c0) / (x1 - x0)', 'a[1] = (c1 - c0) / (x1 - grid[0])'), 'post', SL + '::Interp1DSlinear.compute_coeffs')] if _k == 1 else []))


# ---- Interp1DLagrange2, one-point path, on a 4-point axis: the value is THE quadratic through the three nodes of the
# stencil (denominators cleared: exact on its nodes and on every quadratic), the derivative is its derivative -------
L2 = 'openmdao/components/interp_util/interp_lagrange2.py'


def native_l2(vals, np, om):
    from pyvc.native_helpers import A
    from openmdao.components.interp_util.interp_lagrange2 import Interp1DLagrange2
    s = vals['self']
    g = A(s['grid'][0])
    t = Interp1DLagrange2((g,), A(s['values']), Interp1DLagrange2)
    t.coeffs = {}
    return dict(self=t, x=A(vals['x']), idx=[int(vals['idx'][0])]), dict(ng=4)


def sample_l2(k):
    def samp(rng):
        g, xs = _inc_grid(rng, 4)
        vals = {'__arr__': [{'__frac__': [rng.choice([-24, -8, -3, 0, 1, 5, 16, 40]), 8]} for _ in range(4)], 'shape': [4], 'dtype': 'real'}
        c = min(max(k, 0), 1)
        x = rng.choice([xs[c], xs[c + 1], xs[c + 2], xs[c] + 1, xs[0] - 7, xs[-1] + 5, (xs[c] + xs[c + 1]) // 2])
        return {'self': {'__obj__': 'Interp1DLagrange2', 'id': 0, 'attrs': {'grid': {'__seq__': [g], 'tuple': True}, 'values': vals, 'coeffs': {'__dict__': []}}},
                'x': {'__arr__': [{'__frac__': [x, 8]}], 'shape': [1], 'dtype': 'real'}, 'idx': {'__seq__': [k], 'tuple': False}}
    return samp


for _k in (-1, 0, 1, 2, 3):
    _c = min(max(_k, 0), 1)          # first node of the 3-point stencil (brackets beyond n-3 use the last stencil)
    X1, X2, X3 = ('self.grid[0][%d]' % (_c + j) for j in range(3))
    V1, V2, V3 = ('self.values[%d]' % (_c + j) for j in range(3))
    DEN = '((%s - %s) * (%s - %s) * (%s - %s))' % (X1, X2, X1, X3, X2, X3)
    NUM = '({v1} * (x[0] - {x2}) * (x[0] - {x3}) * ({x2} - {x3}) - {v2} * (x[0] - {x1}) * (x[0] - {x3}) * ({x1} - {x3}) + {v3} * (x[0] - {x1}) * (x[0] - {x2}) * ({x1} - {x2}))'.format(
        v1=V1, v2=V2, v3=V3, x1=X1, x2=X2, x3=X3)
    DNUM = '({v1} * ((x[0] - {x2}) + (x[0] - {x3})) * ({x2} - {x3}) - {v2} * ((x[0] - {x1}) + (x[0] - {x3})) * ({x1} - {x3}) + {v3} * ((x[0] - {x1}) + (x[0] - {x2})) * ({x1} - {x2}))'.format(
        v1=V1, v2=V2, v3=V3, x1=X1, x2=X2, x3=X3)
    contract(L2 + '::Interp1DLagrange2.interpolate', ['C15', 'C16'],
             dict(self=Obj('Interp1DLagrange2', grid=TupleT(Arr(4)), values=Arr(4), coeffs=DictT({})), x=Arr(1), idx=ListT(_k)),
             requires=['all(self.grid[0][k] < self.grid[0][k + 1] for k in range(3))'],
             ensures=['approx(result[0] * %s, %s)' % (DEN, NUM),
                      'approx(result[1] * %s, %s)' % (DEN, DNUM),
                      'result[2] is None and result[3] is None',
                      '%d in self.coeffs' % _c],
             modifies=['self.coeffs'], inline={'compute_coeffs'}, native=native_l2, sampler=sample_l2(_k),
             name=L2 + '::Interp1DLagrange2.interpolate[4-point axis, bracket %d]' % _k,
             canaries=([('last stencil starts one node too late', ('if i_x > n - 3:\n            i_x = n - 3', 'if i_x > n - 3:\n            i_x = n - 2'), 'bounds')] if _k == 3 else
                       [('linear coefficient uses the wrong node pair', ('[x2 + x3,\n                           x3,\n                           x2]', '[x2 + x3,\n                           x2,\n                           x3]'), 'post', L2 + '::Interp1DLagrange2.compute_coeffs')] if _k == 1 else []))


# ---- Interp1DLagrange3, one-point path, on a 5-point axis: the cubic through the four nodes of the stencil ----------
L3 = 'openmdao/components/interp_util/interp_lagrange3.py'


def lagrange_form(nodes, vals, x='x[0]'):
    """sum_j v_j prod_{m != j} (x - x_m) / (x_j - x_m), and its derivative w.r.t. x, as clause texts"""
    terms, dterms = [], []
    for j, (xj, vj) in enumerate(zip(nodes, vals)):
        others = [xm for m, xm in enumerate(nodes) if m != j]
        den = ' * '.join('(%s - %s)' % (xj, xm) for xm in others)
        terms.append('%s * %s / (%s)' % (vj, ' * '.join('(%s - %s)' % (x, xm) for xm in others), den))
        dsum = ' + '.join('(' + ' * '.join('(%s - %s)' % (x, xm) for q, xm in enumerate(others) if q != p) + ')' if len(others) > 1 else '1'
                          for p in range(len(others)))
        dterms.append('%s * (%s) / (%s)' % (vj, dsum, den))
    return '(' + ' + '.join(terms) + ')', '(' + ' + '.join(dterms) + ')'


def native_l3(vals, np, om):
    from pyvc.native_helpers import A
    from openmdao.components.interp_util.interp_lagrange3 import Interp1DLagrange3
    s = vals['self']
    g = A(s['grid'][0])
    t = Interp1DLagrange3((g,), A(s['values']), Interp1DLagrange3)
    t.coeffs = {}
    return dict(self=t, x=A(vals['x']), idx=[int(vals['idx'][0])]), dict(ng=5)


def sample_l3(k):
    def samp(rng):
        g, xs = _inc_grid(rng, 5)
        vals = {'__arr__': [{'__frac__': [rng.choice([-24, -8, -3, 0, 1, 5, 16, 40]), 8]} for _ in range(5)], 'shape': [5], 'dtype': 'real'}
        c = min(max(k, 1), 2) - 1
        x = rng.choice([xs[c], xs[c + 1], xs[c + 3], xs[c] + 1, xs[0] - 7, xs[-1] + 5, (xs[c + 1] + xs[c + 2]) // 2])
        return {'self': {'__obj__': 'Interp1DLagrange3', 'id': 0, 'attrs': {'grid': {'__seq__': [g], 'tuple': True}, 'values': vals, 'coeffs': {'__dict__': []}}},
                'x': {'__arr__': [{'__frac__': [x, 8]}], 'shape': [1], 'dtype': 'real'}, 'idx': {'__seq__': [k], 'tuple': False}}
    return samp


for _k in (-1, 0, 1, 2, 3, 4):
    _ix = min(max(_k, 1), 2)            # bracket clamped to [1, n - 3]; the stencil is ix-1 .. ix+2
    _c = _ix - 1
    VAL, DVAL = lagrange_form(['self.grid[0][%d]' % (_c + j) for j in range(4)], ['self.values[%d]' % (_c + j) for j in range(4)])
    contract(L3 + '::Interp1DLagrange3.interpolate', ['C15', 'C16'],
             dict(self=Obj('Interp1DLagrange3', grid=TupleT(Arr(5)), values=Arr(5), coeffs=DictT({})), x=Arr(1), idx=ListT(_k)),
             requires=['all(self.grid[0][k] < self.grid[0][k + 1] for k in range(4))'],
             ensures=['approx(result[0], %s)' % VAL,
                      'approx(result[1], %s)' % DVAL,
                      'result[2] is None and result[3] is None',
                      '%d in self.coeffs' % _ix],
             modifies=['self.coeffs'], inline={'compute_coeffs'}, native=native_l3, sampler=sample_l3(_k),
             name=L3 + '::Interp1DLagrange3.interpolate[5-point axis, bracket %d]' % _k,
             canaries=([('lower extrapolation bracket not shifted onto the first stencil', ('elif i_x < 1:\n            i_x = 1', 'elif i_x < 1:\n            i_x = 2'), 'post')] if _k == -1 else
                       [('sign of the second Lagrange weight', ('-1.0 / (cx12 * cx23 * cx24)', '1.0 / (cx12 * cx23 * cx24)'), 'post', L3 + '::Interp1DLagrange3.compute_coeffs')] if _k == 2 else []))


# ---- Interp2DSlinear, one-point path, on a 3 x 3 grid: the bilinear interpolant of the cell (tensor-product Lagrange
# form), both partial derivatives, every pair of bracket indices incl. the extrapolation brackets -------------------
def native_sl2(vals, np, om):
    from pyvc.native_helpers import A
    from openmdao.components.interp_util.interp_slinear import Interp2DSlinear
    s = vals['self']
    g0, g1 = A(s['grid'][0]), A(s['grid'][1])
    t = Interp2DSlinear((g0, g1), A(s['values']), Interp2DSlinear)
    t.coeffs = {}
    return dict(self=t, x=A(vals['x']), idx=[int(v) for v in vals['idx']]), dict()


def sample_sl2(kx, ky):
    def samp(rng):
        g0, xs = _inc_grid(rng, 3)
        g1, ys = _inc_grid(rng, 3)
        vals = {'__arr__': [{'__frac__': [rng.choice([-24, -8, -3, 0, 1, 5, 16, 40]), 8]} for _ in range(9)], 'shape': [3, 3], 'dtype': 'real'}
        cx, cy = min(max(kx, 0), 1), min(max(ky, 0), 1)
        x = rng.choice([xs[cx], xs[cx + 1], xs[cx] + 1, xs[0] - 7, xs[-1] + 5])
        y = rng.choice([ys[cy], ys[cy + 1], ys[cy] + 1, ys[0] - 3, ys[-1] + 2])
        return {'self': {'__obj__': 'Interp2DSlinear', 'id': 0, 'attrs': {'grid': {'__seq__': [g0, g1], 'tuple': True}, 'values': vals, 'coeffs': {'__dict__': []}}},
                'x': {'__arr__': [{'__frac__': [x, 8]}, {'__frac__': [y, 8]}], 'shape': [2], 'dtype': 'real'}, 'idx': {'__seq__': [kx, ky], 'tuple': False}}
    return samp


for _kx in (-1, 0, 1, 2):
    for _ky in (-1, 0, 1, 2):
        _cx, _cy = min(max(_kx, 0), 1), min(max(_ky, 0), 1)
        X0, X1 = 'self.grid[0][%d]' % _cx, 'self.grid[0][%d]' % (_cx + 1)
        Y0, Y1 = 'self.grid[1][%d]' % _cy, 'self.grid[1][%d]' % (_cy + 1)
        LX = ['((x[0] - %s) / (%s - %s))' % (X1, X0, X1), '((x[0] - %s) / (%s - %s))' % (X0, X1, X0)]
        LY = ['((x[1] - %s) / (%s - %s))' % (Y1, Y0, Y1), '((x[1] - %s) / (%s - %s))' % (Y0, Y1, Y0)]
        DLX = ['(1 / (%s - %s))' % (X0, X1), '(1 / (%s - %s))' % (X1, X0)]
        DLY = ['(1 / (%s - %s))' % (Y0, Y1), '(1 / (%s - %s))' % (Y1, Y0)]
        V = [['self.values[%d, %d]' % (_cx + i, _cy + j) for j in range(2)] for i in range(2)]
        VAL = ' + '.join('%s * %s * %s' % (V[i][j], LX[i], LY[j]) for i in range(2) for j in range(2))
        DX = ' + '.join('%s * %s * %s' % (V[i][j], DLX[i], LY[j]) for i in range(2) for j in range(2))
        DY = ' + '.join('%s * %s * %s' % (V[i][j], LX[i], DLY[j]) for i in range(2) for j in range(2))
        contract(SL + '::Interp2DSlinear.interpolate', ['C15', 'C16'],
                 dict(self=Obj('Interp2DSlinear', grid=TupleT(Arr(3), Arr(3)), values=Arr(3, 3), coeffs=DictT({})), x=Arr(2), idx=ListT(_kx, _ky)),
                 requires=['all(self.grid[0][k] < self.grid[0][k + 1] for k in range(2))', 'all(self.grid[1][k] < self.grid[1][k + 1] for k in range(2))'],
                 ensures=['approx(result[0], %s)' % VAL,
                          'len(result[1]) == 2 and approx(result[1][0], %s) and approx(result[1][1], %s)' % (DX, DY),
                          'result[2] is None and result[3] is None',
                          '(%d, %d) in self.coeffs' % (_kx, _ky)],
                 modifies=['self.coeffs'], inline={'compute_coeffs'}, native=native_sl2, sampler=sample_sl2(_kx, _ky),
                 name=SL + '::Interp2DSlinear.interpolate[3x3 grid, brackets (%d, %d)]' % (_kx, _ky),
                 canaries=([('cross coefficient with the wrong sign', ('a[3] = c00 + c11 - c01 - c10', 'a[3] = c00 - c11 - c01 + c10'), 'post', SL + '::Interp2DSlinear.compute_coeffs')] if (_kx, _ky) == (1, 0) else
                           [('upper y bracket not mapped onto the last cell', ('if i_y == n - 1:\n            i_y = n - 2', 'if i_y == n - 1:\n            i_y = n - 1'), 'bounds', SL + '::Interp2DSlinear.compute_coeffs')] if (_kx, _ky) == (0, 2) else []))


# ---- Interp1DAkima, one-point path, on a 5-point axis ---------------------------------------------------------
# Statement (C15): exact on the nodes of the bracketing cell whatever the Akima weights are (exactness on linear data
# stays in the bounded tier: the solver cannot discard the unequal-slope branches); (C16): the returned derivative is the derivative of the cubic
# a + dx (b + dx (c + dx d)) that was evaluated.  Brackets -1 and 4 extrapolate linearly from the end nodes.
AK = 'openmdao/components/interp_util/interp_akima.py'


def native_ak(vals, np, om):
    from pyvc.native_helpers import A, Fl
    from openmdao.components.interp_util.interp_akima import Interp1DAkima
    s = vals['self']
    g = A(s['grid'][0])
    t = Interp1DAkima((g,), A(s['values']), Interp1DAkima)
    t.coeffs = {}
    t.options['eps'] = Fl(dict(s['options'])['eps']) if not isinstance(s['options'], dict) else Fl(s['options']['eps'])
    t.options['delta_x'] = Fl(dict(s['options'])['delta_x']) if not isinstance(s['options'], dict) else Fl(s['options']['delta_x'])
    return dict(self=t, x=A(vals['x']), idx=[int(vals['idx'][0])]), dict(ng=5)


def native_ak_lin(vals, np, om):
    kw, sz = native_ak(vals, np, om)
    from pyvc.native_helpers import Fl
    sz = dict(sz, al=Fl(vals['al']), be=Fl(vals['be']))
    return kw, sz


def sample_ak(k, linear):
    def samp(rng):
        g, xs = _inc_grid(rng, 5)
        al = be = 0
        if linear:
            al, be = rng.choice([-3, 0, 2]), rng.choice([-2, 1, 3])
            vs = [al * 8 + be * x for x in xs]
        else:
            vs = [rng.choice([-24, -8, -3, 0, 1, 5, 16, 40]) for _ in range(5)]
        vals = {'__arr__': [{'__frac__': [v, 8]} for v in vs], 'shape': [5], 'dtype': 'real'}
        c = min(max(k, 0), 3)
        x = rng.choice([xs[c], xs[c + 1], xs[c] + 1, xs[0] - 7, xs[-1] + 5, (xs[c] + xs[c + 1]) // 2])
        return {'self': {'__obj__': 'Interp1DAkima', 'id': 0, 'attrs': {'grid': {'__seq__': [g], 'tuple': True}, 'values': vals, 'coeffs': {'__dict__': []},
                                                                          'options': {'__dict__': [['eps', {'__frac__': [1, 10 ** 9]}], ['delta_x', {'__frac__': [rng.choice([0, 0, 1]), 8]}]]}}},
                'x': {'__arr__': [{'__frac__': [x, 8]}], 'shape': [1], 'dtype': 'real'}, 'idx': {'__seq__': [k], 'tuple': False},
                'al': {'__frac__': [al, 1]}, 'be': {'__frac__': [be, 1]}}
    return samp


def _ak_self():
    return Obj('Interp1DAkima', grid=TupleT(Arr(5)), values=Arr(5), coeffs=DictT({}), options=DictT({'eps': Real(), 'delta_x': Real()}))


AKREQ = ['all(self.grid[0][k] < self.grid[0][k + 1] for k in range(4))', "self.options['eps'] > 0", "self.options['delta_x'] >= 0"]
for _k in (-1, 0, 1, 2, 3, 4):
    _c = min(max(_k, 0), 3)
    GK, GK1, VK, VK1 = 'self.grid[0][%d]' % _c, 'self.grid[0][%d]' % (_c + 1), 'self.values[%d]' % _c, 'self.values[%d]' % (_c + 1)
    ens = ['len(result[1]) == 1', 'result[2] is None and result[3] is None', '%d in self.coeffs' % _k,
           # C16: the derivative returned is the derivative of the cubic that was evaluated (coefficients in the cache)
           'approx(result[0], self.coeffs[{k}][0] + (x[0] - {g}) * (self.coeffs[{k}][1] + (x[0] - {g}) * (self.coeffs[{k}][2] + (x[0] - {g}) * self.coeffs[{k}][3])))'.format(k=_k, g=GK1 if _k == 4 else GK),
           'approx(result[1][0], self.coeffs[{k}][1] + (x[0] - {g}) * (2 * self.coeffs[{k}][2] + 3 * (x[0] - {g}) * self.coeffs[{k}][3]))'.format(k=_k, g=GK1 if _k == 4 else GK)]
    if 0 <= _k <= 3:
        # exact on both nodes of the cell, for ANY table
        ens += ['implies(x[0] == %s, approx(result[0], %s))' % (GK, VK), 'implies(x[0] == %s, approx(result[0], %s))' % (GK1, VK1)]
    elif _k == -1:
        ens += ['implies(x[0] == %s, approx(result[0], %s))' % (GK, VK)]
    else:
        ens += ['implies(x[0] == %s, approx(result[0], %s))' % (GK1, VK1)]
    contract(AK + '::Interp1DAkima.interpolate', ['C15', 'C16'],
             dict(self=_ak_self(), x=Arr(1), idx=ListT(_k)), requires=AKREQ, ensures=ens,
             modifies=['self.coeffs'], inline={'compute_coeffs', 'abs_smooth_1d'}, native=native_ak, sampler=sample_ak(_k, False),
             name=AK + '::Interp1DAkima.interpolate[5-point axis, bracket %d]' % _k,
             canaries=([('quadratic coefficient misses the factor h', ('c = (3 * m3 - 2 * b - bp1) * h', 'c = (3 * m3 - 2 * b - bp1)'), 'post', AK + '::Interp1DAkima.compute_coeffs')] if _k == 1 else []))


# ---- InterpAlgorithmFixed._bracket_dim: hunt (down, then up, with doubling increments) + bisection -------------------
# For every strictly increasing grid, every x and every cached start index: flag -1 exactly below the grid, +1 exactly
# above it, and otherwise an index of a cell that contains x (closed on both sides).  Three inductive loop invariants.
IA = 'openmdao/components/interp_util/interp_algorithm.py'
LI0 = 'max(old(last_index), 0)'
LOWER_OK = '(x > grid[last_index] or (last_index == 0 and x >= grid[0]))'
INC = 'all(all(implies(a < b, grid[a] < grid[b]) for b in range(ng)) for a in range(ng))'


def native_bracket(vals, np, om):
    from pyvc.native_helpers import A, Fl
    from openmdao.components.interp_util.interp_algorithm import InterpAlgorithmFixed
    g = A(vals['grid'])
    obj = InterpAlgorithmFixed.__new__(InterpAlgorithmFixed)
    return dict(self=obj, grid=g, x=Fl(vals['x']), last_index=int(vals['last_index'])), dict(ng=len(g))


def sample_bracket(rng):
    ng = rng.choice([2, 3, 4, 6, 9])
    g, xs = _inc_grid(rng, ng) if ng <= 9 else (None, None)
    x = rng.choice([xs[0], xs[-1], xs[0] - 1, xs[-1] + 3, rng.choice(xs), rng.choice(xs) + 1, (xs[0] + xs[-1]) // 2])
    return {'self': {'__obj__': 'InterpAlgorithmFixed', 'id': 0, 'attrs': {}}, 'grid': g, 'x': {'__frac__': [x, 8]}, 'last_index': rng.randrange(-1, ng)}


contract(IA + '::InterpAlgorithmFixed._bracket_dim', ['C15'],
         dict(self=Obj('InterpAlgorithmFixed'), grid=Arr('ng'), x=Real(), last_index=Int()),
         requires=['ng >= 2', INC, 'last_index <= ng - 1'],
         ensures=['iff(result[1] == -1, x < grid[0])', 'iff(result[1] == 1, x > grid[ng - 1])',
                  'result[1] == -1 or result[1] == 0 or result[1] == 1',
                  'implies(result[1] == -1, result[0] == -1)', 'implies(result[1] == 1, result[0] == ng - 1)',
                  # inside the grid: the index of a cell that contains x
                  'implies(result[1] == 0, 0 <= result[0] and result[0] <= ng - 2 and grid[result[0]] <= x and x <= grid[result[0] + 1])'],
         modifies=[], returns=TupleT(Int(), Int()),
         invariants={
             'loop0': ['0 <= last_index and last_index <= ng - 1', 'inc >= 1', 'last_index < high and high <= ng', 'highbound == ng - 1',
                       'high == %s + 1 or (high <= ng - 1 and x <= grid[high])' % LI0],
             'loop1': ['0 <= last_index and last_index <= high and high <= highbound', 'highbound == ng - 1', 'inc >= 1', LOWER_OK,
                       'last_index <= highbound - 1 or x > grid[highbound]'],
             'loop2': ['0 <= last_index and last_index <= high and high <= highbound', 'highbound == ng - 1', 'x >= grid[last_index]', 'x <= grid[high]',
                       'last_index <= highbound - 1']},
         native=native_bracket, sampler=sample_bracket, name=IA + '::InterpAlgorithmFixed._bracket_dim',
         defs={'timeout_ms': 30000},
         canaries=[('cached index clamped from above instead of from below (seed S-C15-6)', ('last_index = max(last_index, 0)', 'last_index = min(last_index, len(grid) - 2)'), 'bounds'),
                   ('bisection keeps the wrong half', ('if x < grid[low]:\n                high = low\n            else:\n                last_index = low', 'if x < grid[low]:\n                last_index = low\n            else:\n                high = low'), 'inv-step')])


# ---- InterpAlgorithm.bracket (general, recursive classes): the same hunt + bisection over self.grid ------------------
def native_bracket_g(vals, np, om):
    from pyvc.native_helpers import A, Fl
    from openmdao.components.interp_util.interp_algorithm import InterpAlgorithm
    obj = InterpAlgorithm.__new__(InterpAlgorithm)
    obj.grid = A(vals['self']['grid'])
    obj.last_index = int(vals['self']['last_index'])
    return dict(self=obj, x=Fl(vals['x'])), dict(ng=len(obj.grid))


def sample_bracket_g(rng):
    ng = rng.choice([2, 3, 4, 6, 9])
    g, xs = _inc_grid(rng, ng)
    x = rng.choice([xs[0], xs[-1], xs[0] - 1, xs[-1] + 3, rng.choice(xs), rng.choice(xs) + 1, (xs[0] + xs[-1]) // 2])
    return {'self': {'__obj__': 'InterpAlgorithm', 'id': 0, 'attrs': {'grid': g, 'last_index': rng.randrange(0, ng)}}, 'x': {'__frac__': [x, 8]}}


GG = 'self.grid'
INC_G = 'all(all(implies(a < b, self.grid[a] < self.grid[b]) for b in range(ng)) for a in range(ng))'
LOWER_G = '(x > grid[last_index] or (last_index == 0 and x >= grid[0]))'
contract(IA + '::InterpAlgorithm.bracket', ['C15'],
         dict(self=Obj('InterpAlgorithm', grid=Arr('ng'), last_index=Int(0, None)), x=Real()),
         requires=['ng >= 2', INC_G, 'self.last_index <= ng - 1'],
         ensures=['iff(result[1] == -1, x < self.grid[0])', 'iff(result[1] == 1, x > self.grid[ng - 1])',
                  'result[1] == -1 or result[1] == 0 or result[1] == 1',
                  'implies(result[1] == -1, result[0] == 0)', 'implies(result[1] == 1, result[0] == ng - 1)',
                  'implies(result[1] == 0, 0 <= result[0] and result[0] <= ng - 2 and self.grid[result[0]] <= x and x <= self.grid[result[0] + 1])',
                  'self.last_index == old(self.last_index)'],
         modifies=[], returns=TupleT(Int(), Int()),
         invariants={
             'loop0': ['0 <= last_index and last_index <= ng - 1', 'inc >= 1', 'last_index < high and high <= ng', 'highbound == ng - 1',
                       'high == old(self.last_index) + 1 or (high <= ng - 1 and x <= grid[high])'],
             'loop1': ['0 <= last_index and last_index <= high and high <= highbound', 'highbound == ng - 1', 'inc >= 1', LOWER_G,
                       'last_index <= highbound - 1 or x > grid[highbound]'],
             'loop2': ['0 <= last_index and last_index <= high and high <= highbound', 'highbound == ng - 1', 'x >= grid[last_index]', 'x <= grid[high]',
                       'last_index <= highbound - 1']},
         native=native_bracket_g, sampler=sample_bracket_g, name=IA + '::InterpAlgorithm.bracket',
         defs={'timeout_ms': 30000},
         canaries=[('a point on the first node is reported as below the grid', ('if x < grid[0]:\n                    return last_index, -1', 'if x <= grid[0]:\n                    return last_index, -1'), 'post')])


# ---- InterpAlgorithmFixed.bracket (one-point path): every dimension is bracketed with its own grid, its own coordinate
# and its own cached index, and the new index is stored back for the next call -------------------------------------
def _fixed_self(dim):
    return Obj('InterpAlgorithmFixed', dim=dim, grid=TupleT(*[Arr('ng%d' % j) for j in range(dim)]), last_index=ListT(*[Int() for _ in range(dim)]))


for _dim in (1, 2):
    _req, _ens = [], ['same_object(result[0], self.last_index) and result[1] is None']
    for _j in range(_dim):
        G_ = 'self.grid[%d]' % _j
        N_ = 'ng%d' % _j
        _req += ['%s >= 2' % N_, 'all(all(implies(a < b, %s[a] < %s[b]) for b in range(%s)) for a in range(%s))' % (G_, G_, N_, N_),
                 'self.last_index[%d] <= %s - 1' % (_j, N_)]
        _ens += ['implies(x[{j}] < {g}[0], self.last_index[{j}] == -1)'.format(j=_j, g=G_),
                 'implies(x[{j}] > {g}[{n} - 1], self.last_index[{j}] == {n} - 1)'.format(j=_j, g=G_, n=N_),
                 'implies({g}[0] <= x[{j}] and x[{j}] <= {g}[{n} - 1], 0 <= self.last_index[{j}] and self.last_index[{j}] <= {n} - 2 and '
                 '{g}[self.last_index[{j}]] <= x[{j}] and x[{j}] <= {g}[self.last_index[{j}] + 1])'.format(j=_j, g=G_, n=N_)]
    contract(IA + '::InterpAlgorithmFixed.bracket', ['C15'],
             dict(self=_fixed_self(_dim), x=Arr(_dim)), requires=_req, ensures=_ens,
             modifies=['self.last_index'],
             assumed={'self.vectorized': Assumed(returns=False, note='one-point calls take the non-vectorized branch (Interp*D*.vectorized: x.shape[0] > 1)')},
             name=IA + '::InterpAlgorithmFixed.bracket[%d-D, one point]' % _dim,
             canaries=[('every dimension bracketed with the first coordinate', ('self._bracket_dim(self.grid[j], x[j],', 'self._bracket_dim(self.grid[j], x[0],'), 'post')] if _dim == 2 else [])
