"""C08 — solver scaling never changes physical results (vector-level algebra).

The scaling round trip and branch pairing (scale_to_norm / scale_to_phys, _scale_forward /
_scale_reverse) are in contracts/c33_vector.py (tagged C33 and C08).  Here: how the scaling arrays
are filled from ref / ref0 / unit factors (DefaultVector._set_scaling), and the lemma that a
normalised value maps back to  phys = (norm * (ref - ref0) + ref0 [+ offset]) * factor."""
from pyvc.spec import *   # noqa
import contracts.c33_vector   # noqa  (shared contracts)

F = 'openmdao/vectors/default_vector.py'

NUM = lambda: OneOf(Real(), Arr('m'))


def sv(kind, name):
    fac = TupleT(NUM(), NUM(), OneOf(None, Real()), OneOf(None, Real()))
    return Obj('DefaultVector', _kind=kind, _name=name, _isroot=False, _data=Arr('n'), _under_complex_step=False,
               _scaling=TupleT(Arr('n'), OneOf(None, Arr('n'))), _has_solver_ref=False, _nlvec=None,
               _views=DictT({'x': Obj('_VecData', range=TupleT(Size('a'), Size('b'))),
                             'y': Obj('_VecData', range=TupleT(Size('c'), Size('d')))}))


def system(kind):
    fac = TupleT(OneOf(Real(), Arr('m')), OneOf(Real(), Arr('m')), OneOf(None, Real()), OneOf(None, Real()))
    return Obj('System', _has_output_scaling=OneOf(False, True), _scale_factors=DictT({'x': DictT({kind: fac})}))


def E(x, i='i - a'):
    return '(%s if is_scalar(%s) else %s[%s])' % (x, x, x, i)


for kind in ('input', 'output', 'residual'):
    for name in ('nonlinear', 'linear'):
        FX = "system._scale_factors['x']['%s']" % kind
        A0, A1, FAC, OFF = FX + '[0]', FX + '[1]', FX + '[2]', FX + '[3]'
        lin, inp = name == 'linear', kind == 'input'
        if True:
            s1_nofac = '1 / %s' % E(A1) if (lin and inp) else E(A1)
            s1_fac = ('%s / %s' % (FAC, E(A1))) if lin else ('%s * %s' % (E(A1), FAC))
            s0_nofac = None if (lin and inp) else E(A0)
            s0_fac = None if lin else '(%s + %s) * %s' % (E(A0), OFF, FAC)
        ens = [
            'all(implies(a <= i and i < b, approx(self._scaling[0][i], (%s) if %s is None else (%s))) for i in range(n))' % (s1_nofac, FAC, s1_fac),
            'all(implies(not (a <= i and i < b), self._scaling[0][i] == old(self._scaling[0][i])) for i in range(n))',
        ]
        ens_add = []
        if s0_nofac is not None:
            ens_add.append('implies(self._scaling[1] is not None and %s is None, all(implies(a <= i and i < b, self._scaling[1][i] == %s) for i in range(n)))' % (FAC, s0_nofac))
        if s0_fac is not None:
            ens_add.append('implies(self._scaling[1] is not None and %s is not None, all(implies(a <= i and i < b, approx(self._scaling[1][i], %s)) for i in range(n)))' % (FAC, s0_fac))
        ens_add.append('implies(self._scaling[1] is not None, all(implies(not (a <= i and i < b), self._scaling[1][i] == old(self._scaling[1][i])) for i in range(n)))')
        contract(F + '::DefaultVector._set_scaling', ['C08'],
                 dict(self=sv(kind, name), system=system(kind), do_adder=OneOf(False, True), nlvec=None),
                 requires=['a <= b and b <= n and m == b - a', 'c <= d and d <= n', 'b <= c or d <= a',
                           'implies(%s is not None, %s is not None)' % (FAC, OFF),
                           'all(%s != 0 for i in range(a, b))' % E(A1),
                           # linear vectors never carry an adder (_allocate_scaling_data)
                           "implies(self._name == 'linear', self._scaling[1] is None)"],
                 ensures=ens + ens_add + ['self._has_solver_ref == (system._has_output_scaling and %s)' % (lin and inp)],
                 modifies=['self._scaling[0]', 'self._scaling[1]', 'self._has_solver_ref', 'self._nlvec'],
                 name=F + '::DefaultVector._set_scaling[%s,%s]' % (kind, name),
                 canaries=[('unit offset applied after the factor', ('scale0 = (a0 + offset) * factor', 'scale0 = a0 * factor + offset'), 'post')]
                 if (kind, name) == ('input', 'nonlinear') else
                 ([('reverse-mode input scaler not inverted', ('scale1 = 1.0 / a1', 'scale1 = a1'), 'post')] if (kind, name) == ('input', 'linear') else []))

# lemma (C04/C08): a connected input in physical units is the source's physical value converted by
# the unit factor: norm -> phys through the arrays built above
contract('verif:contracts/harness.py::input_phys_from_norm', ['C08', 'C04'],
         dict(norm=Real(), ref=Real(), ref0=Real(), factor=Real(), offset=Real()),
         requires=['ref != ref0'],
         ensures=['approx(result[0], (result[1] + offset) * factor)'], modifies=[], name='lemma:input_phys_from_norm')


# ---- ExplicitComponent._solve_linear: the -I solve is done on PHYSICAL values whatever the scaling ----------
# The linear vectors hold scaled values; phys = data * scaler (linear vectors have no adder).  The real
# System._unscaled_context (a generator context manager) is inlined; scale_to_phys / scale_to_norm are the
# contracts above.  Meaning of the flags (component.py, _setup_var_data / _compute_root_scale_factors):
# _has_output_scaling is False only if every ref == 1 and ref0 == 0, _has_resid_scaling only if every res_ref == 1.
EC = 'openmdao/core/explicitcomponent.py'


def lvec():
    return Obj('DefaultVector', _data=Arr('n'), _under_complex_step=False, _scaling=TupleT(Arr('n'), None),
               _has_solver_ref=False, _nlvec=Obj('DefaultVector', _scaling=TupleT(Arr('n'), None)))


def _native_solve_linear(vals, np, om):
    """The real ExplicitComponent._solve_linear and the real System._unscaled_context on a light component
    record holding real DefaultVector objects with the given scaling arrays."""
    import types
    from pyvc.native_helpers import A, light_vector
    from openmdao.core.system import System
    sv = vals['self']

    def mk(v):
        x = light_vector(A(v['_data'], float))
        x._scaling = (A(v['_scaling'][0], float), None)
        x._has_solver_ref = False
        x._nlvec = types.SimpleNamespace(_scaling=(A(v['_nlvec']['_scaling'][0], float), None))
        return x
    comp = types.SimpleNamespace(_doutputs=mk(sv['_doutputs']), _dresiduals=mk(sv['_dresiduals']),
                                 _has_output_scaling=bool(sv['_has_output_scaling']), _has_resid_scaling=bool(sv['_has_resid_scaling']))
    comp._unscaled_context = types.MethodType(System._unscaled_context, comp)
    return dict(self=comp, mode=vals['mode']), dict(n=len(comp._doutputs._data))


def _sample_solve_linear(mode):
    def samp(rng):
        from pyvc.sample import frac
        n = rng.randint(0, 3)
        osc, rsc = rng.random() < 0.6, rng.random() < 0.5

        def arr(vals_):
            return {'__arr__': vals_, 'shape': [n], 'dtype': 'real'}

        def nz():
            return {'__frac__': [rng.choice([-16, -4, 2, 4, 12, 16, 40]), 8]}

        def vec(scaled, i):
            sc = [nz() if scaled else {'__frac__': [1, 1]} for _ in range(n)]
            return {'__obj__': 'DefaultVector', 'id': i, 'attrs': {
                '_data': arr([frac(rng) for _ in range(n)]), '_under_complex_step': False,
                '_scaling': {'__seq__': [arr(sc), None], 'tuple': True}, '_has_solver_ref': False,
                '_nlvec': {'__obj__': 'DefaultVector', 'id': i + 10, 'attrs': {'_scaling': {'__seq__': [arr([nz() for _ in range(n)]), None], 'tuple': True}}}}}
        return {'self': {'__obj__': 'ExplicitComponent', 'id': 0, 'attrs': {
            '_doutputs': vec(osc, 1), '_dresiduals': vec(rsc, 2), '_has_output_scaling': osc, '_has_resid_scaling': rsc}},
            'mode': mode, 'scope_out': {'__opaque__': 'scope_out'}, 'scope_in': {'__opaque__': 'scope_in'}}
    return samp


for mode, dst, src in (('fwd', '_doutputs', '_dresiduals'), ('rev', '_dresiduals', '_doutputs')):
    stmt = 'd_outputs.set_vec(d_residuals)' if mode == 'fwd' else 'd_residuals.set_vec(d_outputs)'
    contract(EC + '::ExplicitComponent._solve_linear', ['C08', 'C02'],
             dict(self=Obj('ExplicitComponent', _doutputs=lvec(), _dresiduals=lvec(),
                           _has_output_scaling=OneOf(False, True), _has_resid_scaling=OneOf(False, True)), mode=mode,
                  scope_out=OpaqueT('scope_out'), scope_in=OpaqueT('scope_in')),
             requires=['all(self._doutputs._scaling[0][i] != 0 and self._dresiduals._scaling[0][i] != 0 for i in range(n))',
                       'all(self._doutputs._nlvec._scaling[0][i] != 0 and self._dresiduals._nlvec._scaling[0][i] != 0 for i in range(n))',
                       'implies(not self._has_output_scaling, all(self._doutputs._scaling[0][i] == 1 for i in range(n)))',
                       'implies(not self._has_resid_scaling, all(self._dresiduals._scaling[0][i] == 1 for i in range(n)))'],
             ensures=['all(approx(self.%s._data[i] * self.%s._scaling[0][i], -(old(self.%s._data[i]) * self.%s._scaling[0][i])) for i in range(n))' % (dst, dst, src, src),
                      'all(approx(self.%s._data[i], old(self.%s._data[i])) for i in range(n))' % (src, src)],
             modifies=['self._doutputs._data', 'self._dresiduals._data'], inline={'_unscaled_context'},
             name=EC + '::ExplicitComponent._solve_linear[%s]' % mode, defs={'float_tol': 1e-9},
             native=_native_solve_linear, sampler=_sample_solve_linear(mode),
             canaries=[('unscaled context skipped when only the outputs are scaled (the defect repaired in /repo)',
                        (('if self._has_output_scaling or self._has_resid_scaling:\n                with self._unscaled_context(outputs=[d_outputs], residuals=[d_residuals]):\n                    %s' % stmt),
                         ('if self._has_resid_scaling:\n                with self._unscaled_context(outputs=[d_outputs], residuals=[d_residuals]):\n                    %s' % stmt)), 'post')])


# ---- Group._compute_root_scale_factors, one iteration of the connected-input loop (extracted mechanically) -----------
# scalar ref / ref0 on the source.  The tuple handed to DefaultVector._set_scaling for an input is
#   (a0, a1, factor, offset) = (ref0, ref - ref0, *unit_conversion(source units, input units))   when the units differ,
#   (ref0, ref - ref0, None, None)                                                              when they do not and (ref0, ref) != (0, 1),
#   and no entry at all when neither scaling nor a unit conversion applies.
# With the _set_scaling contract above and lemma:input_phys_from_norm this is what makes a connected input hold
# (source + offset) * factor in its own units (C04).
GRP = 'openmdao/core/group.py'


def _rsf_params(units_in, units_out):
    return dict(
        abs_in='c.x', meta_in=DictT({'src_inds_list': None}),
        self=Obj('Group', _conn_global_abs_in2out=DictT({'c.x': 's.y'}), msginfo='g'),
        conn_graph=Obj('AllConnGraph', nodes=DictT({('i', 'c.x'): DictT({'attrs': Obj('NodeAttrs', units=units_in)}),
                                                    ('o', 's.y'): DictT({'attrs': Obj('NodeAttrs', units=units_out)})})),
        allprocs_meta_out=DictT({'s.y': DictT({'ref': Real(), 'ref0': Real()})}),
        scale_factors=DictT({}))


REF, REF0 = "allprocs_meta_out['s.y']['ref']", "allprocs_meta_out['s.y']['ref0']"
# an adder array is allocated for the input vector as soon as some input needs a non-zero adder (a0, in input units)
ADDER = {True: ["implies('c.x' in result['scale_factors'], iff(result['self']._has_input_adder, old(self._has_input_adder) or (%s + self._uo) * self._uf != 0))" % REF0],
         False: ["implies('c.x' in result['scale_factors'], iff(result['self']._has_input_adder, old(self._has_input_adder) or %s != 0))" % REF0]}
UCONV = Assumed(returns_expr="(self._uf, self._uo)", note='unit_conversion(source units, input units) -> (factor, offset) (C06)')
for _ui, _uo in ((None, None), ('m', 'm'), ('cm', 'm'), (None, 'm')):
    differ = _ui is not None and _uo is not None and _ui != _uo
    p_ = _rsf_params(_ui, _uo)
    p_['self'] = Obj('Group', _conn_global_abs_in2out=DictT({'c.x': 's.y'}), msginfo='g', _uf=Real(), _uo=Real(), _has_input_adder=Bool())
    if differ:
        ens = ["'c.x' in result['scale_factors'] or (self._uf == 1 and self._uo == 0 and %s == 1 and %s == 0)" % (REF, REF0),
               "((result['scale_factors']['c.x']['input'][0] == %s and result['scale_factors']['c.x']['input'][1] == %s - %s and "
               "result['scale_factors']['c.x']['input'][2] == self._uf and result['scale_factors']['c.x']['input'][3] == self._uo) "
               "if 'c.x' in result['scale_factors'] else (self._uf == 1 and self._uo == 0))" % (REF0, REF, REF0)]
    else:
        ens = ["iff('c.x' in result['scale_factors'], not (%s == 1 and %s == 0))" % (REF, REF0),
               "((result['scale_factors']['c.x']['input'][0] == %s and result['scale_factors']['c.x']['input'][1] == %s - %s and "
               "result['scale_factors']['c.x']['input'][2] is None and result['scale_factors']['c.x']['input'][3] is None) if 'c.x' in result['scale_factors'] else True)" % (REF0, REF, REF0)]
    contract(GRP + '::Group._compute_root_scale_factors@loopbody(in_node_meta)', ['C08', 'C04'], p_,
             ensures=ens + ADDER[differ], modifies=['scale_factors', 'self._has_input_adder'], inline={'_chk_scale_factor'}, assumed={'unit_conversion': UCONV},
             name=GRP + '::Group._compute_root_scale_factors[connected input, units in=%s out=%s]' % (_ui, _uo),
             canaries=([('unit conversion taken in the wrong direction', ('factor, offset = unit_conversion(units_out, units_in)\n\n                    # Send both', 'offset, factor = unit_conversion(units_out, units_in)\n\n                    # Send both'), 'post', GRP + '::Group._compute_root_scale_factors')] if differ else
                       [('a1 is ref instead of ref - ref0', ('a1 = ref - ref0\n\n                if units_in is None', 'a1 = ref\n\n                if units_in is None'), 'post', GRP + '::Group._compute_root_scale_factors')] if _ui == 'm' else []))


# ---------------------------------------------------------------------------------------------
# System._apply_output_solver_options, body of the loop that recomputes the scaling flags from one output's metadata
# (mechanically extracted fragment '@loopbody(res_ref)').  The flags decide which scaling arrays the root vectors
# allocate: a flag that stays False although the metadata asks for scaling makes the vectors transfer unscaled values
# as if they were scaled, so converged outputs would depend on ref/ref0 (the statement of C08).
SYSF = 'openmdao/core/system.py'
MD = 'metadata'


def _anyne(x, c):
    return '((is_scalar({x}) and {x} != {c}) or (not is_scalar({x}) and any({x}[i] != {c} for i in range(n))))'.format(x=x, c=c)


def native_flags(vals, np, om):
    import types
    from pyvc.native_helpers import A, Fl

    def cv(v):
        if v is None:
            return None
        if isinstance(v, dict) and '__arr__' in v:
            return A(v)
        return Fl(v)
    sv = vals['subsys']
    sub = types.SimpleNamespace(**{k: bool(sv[k]) for k in ('_has_output_scaling', '_has_output_adder', '_has_resid_scaling', '_has_bounds')})
    md = {k: cv(v) for k, v in vals['metadata'].items()}
    lens = [len(v) for v in md.values() if hasattr(v, '__len__')]
    return dict(subsys=sub, metadata=md, abs_name='c.y'), dict(n=lens[0] if lens else 1)


def sample_flags(rng):
    n = rng.choice([1, 2, 3])
    fr = lambda k: {'__frac__': [k, 8]}

    def val(neutral, arr_ok=True):
        r = rng.random()
        if r < 0.35:
            return fr(neutral)
        if r < 0.6 or not arr_ok:
            return fr(rng.choice([-8, 4, 16, 24]))
        return {'__arr__': [fr(rng.choice([neutral, neutral, 4, 16, -8])) for _ in range(n)], 'shape': [n], 'dtype': 'real'}
    md = [['ref', val(8)], ['ref0', val(0)], ['res_ref', rng.choice([None, val(8)])], ['lower', rng.choice([None, fr(-80)])], ['upper', rng.choice([None, fr(80)])]]
    flags = {k: rng.random() < 0.3 for k in ('_has_output_scaling', '_has_output_adder', '_has_resid_scaling', '_has_bounds')}
    return {'subsys': {'__obj__': 'System', 'id': 0, 'attrs': flags}, 'metadata': {'__dict__': md}, 'abs_name': 'c.y'}


for _ref, _ref0, _rr in ((Real(), Real(), None), (Arr('n'), Real(), Real()), (Real(), Arr('n'), Arr('n')), (Arr('n'), Arr('n'), Real())):
    contract(SYSF + '::System._apply_output_solver_options@loopbody(res_ref)', ['C08'],
             dict(subsys=Obj('System', _has_output_scaling=OneOf(False, True), _has_output_adder=OneOf(False, True),
                             _has_resid_scaling=OneOf(False, True), _has_bounds=OneOf(False, True)),
                  metadata=DictT({'ref': _ref, 'ref0': _ref0, 'res_ref': _rr, 'lower': OneOf(None, Real()), 'upper': OneOf(None, Real())}),
                  abs_name='c.y'),
             requires=['n >= 1'] if any(isinstance(x_, Arr) for x_ in (_ref, _ref0, _rr)) else [],
             ensures=["iff(subsys._has_output_scaling, old(subsys._has_output_scaling) or %s or %s)" % (_anyne(MD + "['ref']", '1'), _anyne(MD + "['ref0']", '0')),
                      # the adder flag follows ref0 alone, whatever ref is
                      "iff(subsys._has_output_adder, old(subsys._has_output_adder) or %s)" % _anyne(MD + "['ref0']", '0'),
                      "iff(subsys._has_resid_scaling, old(subsys._has_resid_scaling) or (%s['res_ref'] is not None and %s))" % (MD, _anyne(MD + "['res_ref']", '1')),
                      "iff(subsys._has_bounds, old(subsys._has_bounds) or %s['lower'] is not None or %s['upper'] is not None)" % (MD, MD)],
             modifies=['subsys._has_output_scaling', 'subsys._has_output_adder', 'subsys._has_resid_scaling', 'subsys._has_bounds'],
             native=native_flags, sampler=sample_flags,
             name=SYSF + '::System._apply_output_solver_options[flags from one output: ref=%s, ref0=%s, res_ref=%s]' % (
                 type(_ref).__name__, type(_ref0).__name__, type(_rr).__name__),
             canaries=[('adder flag not set when ref is also non-trivial', ("subsys._has_output_adder |= ref0 != 0.0", "subsys._has_output_adder |= (ref0 != 0.0 and ref == 1.0)"), 'post', SYSF + '::System._apply_output_solver_options')]
             if isinstance(_ref, Real) and isinstance(_ref0, Real) else [])
