"""C03 — simultaneous-derivative coloring.  The colouring algorithms themselves are decided in the bounded tier
(bounded/c03_coloring.py).  Under contract: the consumer anchored in the property, _TotalJacInfo.simul_coloring_jac_setter
— after a coloured solve, for every jacobian column (fwd) / row (rev) index of the colour, exactly the entries listed
in the colouring's row/column map are overwritten with the solution entries AT THOSE SAME rows/columns, and nothing
else of the total jacobian changes (so entries recovered by other colours, or by the other direction, survive)."""
from pyvc.spec import *   # noqa

TJ = 'openmdao/core/total_jac.py'


def tj_self(mode):
    return Obj('_TotalJacInfo', comm=Obj('Comm', size=1), J=Arr('nr', 'nc'), jac_scratch=None, get_remote=True,
               simul_coloring=Obj('Coloring'),
               sol2jac_map=DictT({mode: TupleT(Arr('ns', dtype='int'), Arr('ns', dtype='int'), None)}),
               output_vec=DictT({mode: Obj('DefaultVector', _data=Arr('nd'), _under_complex_step=False)}))


# fwd: one column index i of the colour; rows = row_col_map[i] (distinct, within range)
contract(TJ + '::_TotalJacInfo.simul_coloring_jac_setter', ['C03'],
         dict(self=tj_self('fwd'), inds=ListT(Int(0, None)), mode='fwd', meta=OpaqueT('meta')),
         requires=['inds[0] < nc', 'ns == nr',
                   'all(0 <= self.sol2jac_map["fwd"][0][k] and self.sol2jac_map["fwd"][0][k] < nd for k in range(ns))'],
         ensures=[
             # entries (rows[k], i) get the solution entry of THEIR row; everything else is untouched
             # (the rows to write are the ones the colouring's row/column map lists: a body that never consults the map
             #  leaves ghost("rows") unset and fails these clauses)
             '(all(self.J[ghost("rows")[k], inds[0]] == old(self.output_vec["fwd"]._data[self.sol2jac_map["fwd"][0][ghost("rows")[k]]]) for k in range(len(ghost("rows"))))) if ghost("rows") is not None else False',
             '(all(all(implies(c != inds[0] or not any(ghost("rows")[k] == r for k in range(len(ghost("rows")))), self.J[r, c] == old(self.J[r, c])) for c in range(nc)) for r in range(nr))) if ghost("rows") is not None else False'],
         modifies=['self.J'], inline={'asarray'},
         ghost_init={'rows': None},
         assumed={'self.simul_coloring.get_row_col_map': Assumed(returns=Seq('nc', Arr('m', dtype='int')), ghost=lambda it, env, res: it.ctx.ghost.__setitem__('rows', res.elem(env['inds'][0]) if hasattr(res, 'elem') else None),
                                                                ensures=['all(all(0 <= result[j][k] and result[j][k] < nr for k in range(len(result[j]))) for j in range(nc))',
                                                                         'all(all(all(implies(k1 != k2, result[j][k1] != result[j][k2]) for k2 in range(len(result[j]))) for k1 in range(len(result[j]))) for j in range(nc))'],
                                                                note='Coloring.get_row_col_map(mode): per column the list of distinct nonzero rows recovered in this direction (bounded tier)')},
         name=TJ + '::_TotalJacInfo.simul_coloring_jac_setter[fwd]',
         canaries=[('solution entry taken at the column index instead of the row', ('J[row, i] = reduced_derivs[row]', 'J[row, i] = reduced_derivs[i]'), 'post'),
                   ('whole column overwritten (entries recovered by other colours / the other direction are lost)', ('J[row, i] = reduced_derivs[row]', 'J[:, i] = reduced_derivs'), 'post')])

# rev: one row index i of the colour; cols = row_col_map[i]
contract(TJ + '::_TotalJacInfo.simul_coloring_jac_setter', ['C03'],
         dict(self=tj_self('rev'), inds=ListT(Int(0, None)), mode='rev', meta=OpaqueT('meta')),
         requires=['inds[0] < nr', 'ns == nc',
                   'all(0 <= self.sol2jac_map["rev"][0][k] and self.sol2jac_map["rev"][0][k] < nd for k in range(ns))'],
         ensures=[
             '(all(self.J[inds[0], ghost("rows")[k]] == old(self.output_vec["rev"]._data[self.sol2jac_map["rev"][0][ghost("rows")[k]]]) for k in range(len(ghost("rows"))))) if ghost("rows") is not None else False',
             '(all(all(implies(r != inds[0] or not any(ghost("rows")[k] == c for k in range(len(ghost("rows")))), self.J[r, c] == old(self.J[r, c])) for c in range(nc)) for r in range(nr))) if ghost("rows") is not None else False'],
         modifies=['self.J'], inline={'asarray'},
         ghost_init={'rows': None},
         assumed={'self.simul_coloring.get_row_col_map': Assumed(returns=Seq('nr', Arr('m', dtype='int')), ghost=lambda it, env, res: it.ctx.ghost.__setitem__('rows', res.elem(env['inds'][0]) if hasattr(res, 'elem') else None),
                                                                ensures=['all(all(0 <= result[j][k] and result[j][k] < nc for k in range(len(result[j]))) for j in range(nr))',
                                                                         'all(all(all(implies(k1 != k2, result[j][k1] != result[j][k2]) for k2 in range(len(result[j]))) for k1 in range(len(result[j]))) for j in range(nr))'],
                                                                note='Coloring.get_row_col_map(mode): per row the list of distinct nonzero columns recovered in this direction (bounded tier)')},
         name=TJ + '::_TotalJacInfo.simul_coloring_jac_setter[rev]',
         canaries=[('row entries written transposed', ('J[i, col] = reduced_derivs[col]', 'J[col, i] = reduced_derivs[col]'), 'post')])
