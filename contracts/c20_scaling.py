"""C20 — driver scaling is an exact, invertible affine map applied consistently."""
from pyvc.spec import *   # noqa

GU = 'openmdao/utils/general_utils.py'
AS = 'openmdao/drivers/autoscalers/autoscaler.py'

NUM = lambda: OneOf(None, Real(finite=True), Arr('n'))


def E(x):
    """element i of a scalar-or-array clause operand"""
    return '(%s if is_scalar(%s) else %s[i])' % (x, x, x)


def native_das(vals, np, om):
    from pyvc.native_helpers import A, Fl

    def cv(v):
        if v is None:
            return None
        if isinstance(v, dict) and '__arr__' in v:
            return A(v)
        return Fl(v)
    kw = {k: cv(vals[k]) for k in ('ref0', 'ref', 'adder', 'scaler')}
    lens = [len(v) for v in kw.values() if hasattr(v, '__len__')]
    n = lens[0] if lens else 1
    return kw, dict(n=n)


contract(GU + '::determine_adder_scaler', ['C20'],
         dict(ref0=NUM(), ref=NUM(), adder=NUM(), scaler=NUM()),
         requires=['n > 0', 'all(is_scalar(v) or v is None or len(v) == n for v in (ref0, ref, adder, scaler))',
                   # ref != ref0 element-wise (else the map is not defined)
                   # (1e-300: the reciprocal must be a finite double, else it is clamped to INF_BOUND)
                   'implies(ref0 is not None or ref is not None, all(abs(%s - %s) >= 1e-300 for i in range(n)))' % (
                       E('(ref if ref is not None else 1)'), E('(ref0 if ref0 is not None else 0)'))],
         raises_iff={'ValueError': '(ref0 is not None or ref is not None) and (scaler is not None or adder is not None)'},
         ensures=[
             # from the statement: ref0 maps to 0 and ref maps to 1 under v -> (v + adder) * scaler
             'implies(ref0 is not None or ref is not None, all((%s + %s) * %s == 0 and (%s + %s) * %s == 1 for i in range(n)))' % (
                 E('(ref0 if ref0 is not None else 0)'), E('result[0]'), E('result[1]'),
                 E('(ref if ref is not None else 1)'), E('result[0]'), E('result[1]')),
             # explicit adder/scaler are passed through, defaults are the identity map
             'implies(ref0 is None and ref is None, all(%s == %s and %s == %s for i in range(n)))' % (
                 E('result[0]'), E('(adder if adder is not None else 0)'), E('result[1]'), E('(scaler if scaler is not None else 1)')),
         ],
         modifies=[], inline={'format_as_float_or_array'}, native=native_das,
         canaries=[('adder sign', ('adder = -ref0', 'adder = ref0'), 'post'),
                   ('scaler ignores ref0', ('scaler = 1.0 / (ref + adder)', 'scaler = 1.0 / ref'), 'post'),
                   ('mutual exclusion check dropped', ('if scaler is not None or adder is not None:', 'if False:'), 'exc')])


# ---------------------------------------------------------------------------------------------
# OptimizerVector over two variables x = data[ax:bx], y = data[ay:by]
def optvec(scaled=None):
    return Obj('OptimizerVector', voi_type='design_var', _data=Arr('N'),
               _meta=DictT({'x': DictT({'slice': SliceT('ax', 'bx'), 'size': Size('nx')}),
                            'y': DictT({'slice': SliceT('ay', 'by'), 'size': Size('ny')})}),
               _driver_scaling=OneOf(False, True) if scaled is None else scaled)


LAYOUT = ['ax <= bx and bx <= ay and ay <= by and by <= N', 'nx == bx - ax and ny == by - ay']


def autoscaler(kinds=('design_var',), full=True):
    alt = (lambda s: OneOf(None, Real(), Arr(s))) if full else (lambda s: OneOf(None, Arr(s)))
    vm = {}
    for k in kinds:
        vm[k] = DictT({'x': DictT({'total_scaler': OneOf(None, Real(), Arr('nx')), 'total_adder': OneOf(None, Real(), Arr('nx'))}),
                       'y': DictT({'total_scaler': alt('ny'), 'total_adder': OneOf(None, Arr('ny'))})})
    return Obj('Autoscaler', _var_meta=DictT(vm), _has_scaling=True)


def SC(v, j='i'):
    m = "self._var_meta['design_var']['%s']" % v
    s, a = m + "['total_scaler']", m + "['total_adder']"
    return ('(1 if %s is None else (%s if is_scalar(%s) else %s[%s]))' % (s, s, s, s, j),
            '(0 if %s is None else (%s if is_scalar(%s) else %s[%s]))' % (a, a, a, a, j))


SX, AX = SC('x', 'i - ax')
SY, AY = SC('y', 'i - ay')
OUTSIDE = 'all(implies(not (ax <= i and i < bx) and not (ay <= i and i < by), vec._data[i] == old(vec._data[i])) for i in range(N))'


def native_autoscaler(vals, np, om):
    from pyvc.native_helpers import A, Fl
    from openmdao.drivers.autoscalers.autoscaler import Autoscaler
    from openmdao.vectors.optimizer_vector import OptimizerVector

    def cv(v):
        if v is None:
            return None
        if isinstance(v, dict) and '__arr__' in v:
            return A(v)
        return Fl(v)
    a = Autoscaler()
    vm = vals['self']['_var_meta']
    a._var_meta = {k: {n: {kk: cv(vv) for kk, vv in m.items()} for n, m in d.items()} for k, d in vm.items()}
    for k in ('design_var', 'constraint', 'objective'):
        a._var_meta.setdefault(k, {})
    a._has_scaling = True
    kw = dict(self=a)
    sizes = {}
    if 'vec' in vals:
        vv = vals['vec']
        meta = {n: {'slice': slice(int(m['slice'].start), int(m['slice'].stop)), 'size': int(m['size'])}
                for n, m in vv['_meta'].items()}
        data = A(vv['_data'])
        ov = OptimizerVector(vv['voi_type'], data, meta, driver_scaling=bool(vv['_driver_scaling']))
        kw['vec'] = ov
        sizes = dict(N=len(data), ax=meta['x']['slice'].start, bx=meta['x']['slice'].stop,
                     ay=meta['y']['slice'].start, by=meta['y']['slice'].stop,
                     nx=meta['x']['size'], ny=meta['y']['size'])
    return kw, sizes


def vec_sampler(scaled):
    def samp(rng):
        from pyvc.sample import frac
        nx, ny = rng.choice([0, 1, 2]), rng.choice([1, 2])
        gap0, gap1, gap2 = rng.choice([0, 1]), rng.choice([0, 1]), rng.choice([0, 1])
        ax = gap0
        bx = ax + nx
        ay = bx + gap1
        by = ay + ny
        N = by + gap2

        def nz():
            while True:
                f = frac(rng)
                if f['__frac__'][0] != 0:
                    return f

        def alt(n, allow_scalar, nonzero):
            g = nz if nonzero else (lambda: frac(rng))
            c = rng.choice(['none', 'scalar', 'arr'] if allow_scalar else ['none', 'arr'])
            if c == 'none':
                return None
            if c == 'scalar':
                return g()
            return {'__arr__': [g() for _ in range(n)], 'shape': [n], 'dtype': 'real'}
        vm = {'x': {'__dict__': [['total_scaler', alt(nx, True, True)], ['total_adder', alt(nx, True, False)]]},
              'y': {'__dict__': [['total_scaler', alt(ny, True, True)], ['total_adder', alt(ny, False, False)]]}}
        return {'self': {'__obj__': 'Autoscaler', 'id': 0, 'attrs': {
                    '_var_meta': {'__dict__': [['design_var', {'__dict__': [['x', vm['x']], ['y', vm['y']]]}]]}, '_has_scaling': True}},
                'vec': {'__obj__': 'OptimizerVector', 'id': 1, 'attrs': {
                    'voi_type': 'design_var', '_data': {'__arr__': [frac(rng) for _ in range(N)], 'shape': [N], 'dtype': 'real'},
                    '_meta': {'__dict__': [['x', {'__dict__': [['slice', {'__slice__': [ax, bx, None]}], ['size', nx]]}],
                                           ['y', {'__dict__': [['slice', {'__slice__': [ay, by, None]}], ['size', ny]]}]]},
                    '_driver_scaling': scaled if scaled is not None else (rng.random() < 0.3)}}}
    return samp


VEC_INLINE = {'__getitem__', '__setitem__', '__iter__', 'driver_scaling'}

contract(AS + '::Autoscaler._apply_vec_scaling', ['C20'], dict(self=autoscaler(), vec=optvec()),
         requires=LAYOUT,
         ensures=[
             # optimizer value = (model value + adder) * scaler, per variable, None = identity
             'implies(not old(vec._driver_scaling), all(implies(ax <= i and i < bx, vec._data[i] == (old(vec._data[i]) + %s) * %s) for i in range(N)))' % (AX, SX),
             'implies(not old(vec._driver_scaling), all(implies(ay <= i and i < by, vec._data[i] == (old(vec._data[i]) + %s) * %s) for i in range(N)))' % (AY, SY),
             OUTSIDE,
             # idempotent: an already scaled vector is left alone
             'implies(old(vec._driver_scaling), all(vec._data[i] == old(vec._data[i]) for i in range(N)))',
             'vec._driver_scaling == True'],
         modifies=['vec._data', 'vec._driver_scaling'], inline=VEC_INLINE, native=native_autoscaler,
         sampler=vec_sampler(None),
         canaries=[('scaler applied before adder', ("            if adder is not None:\n                vec[name] += adder\n            if scaler is not None:\n                vec[name] *= scaler",
                                                    "            if scaler is not None:\n                vec[name] *= scaler\n            if adder is not None:\n                vec[name] += adder"), 'post'),
                   ('scaled flag not set', ('vec._driver_scaling = True', 'vec._driver_scaling = vec._driver_scaling'), 'post')])

NONZERO_SCALERS = ['all(%s != 0 for i in range(ax, bx))' % SX, 'all(%s != 0 for i in range(ay, by))' % SY]

contract(AS + '::Autoscaler._apply_vec_unscaling', ['C20'], dict(self=autoscaler(), vec=optvec()),
         requires=LAYOUT + NONZERO_SCALERS,
         ensures=[
             'implies(old(vec._driver_scaling), all(implies(ax <= i and i < bx, vec._data[i] == old(vec._data[i]) / %s - %s) for i in range(N)))' % (SX, AX),
             'implies(old(vec._driver_scaling), all(implies(ay <= i and i < by, vec._data[i] == old(vec._data[i]) / %s - %s) for i in range(N)))' % (SY, AY),
             OUTSIDE,
             'implies(not old(vec._driver_scaling), all(vec._data[i] == old(vec._data[i]) for i in range(N)))',
             'vec._driver_scaling == False', 'same_object(result, vec)'],
         modifies=['vec._data', 'vec._driver_scaling'], inline=VEC_INLINE, native=native_autoscaler,
         sampler=vec_sampler(None),
         canaries=[('adder removed before dividing by the scaler', ("            if scaler is not None:\n                vec[name] /= scaler\n            if adder is not None:\n                vec[name] -= adder",
                                                                   "            if adder is not None:\n                vec[name] -= adder\n            if scaler is not None:\n                vec[name] /= scaler"), 'post')])

# unscaling returns exactly the model values: lemma over the two contracts
contract('verif:contracts/harness.py::scale_then_unscale', ['C20'], dict(self=autoscaler(), vec=optvec(False)),
         requires=LAYOUT + NONZERO_SCALERS,
         ensures=['all(approx(vec._data[i], old(vec._data[i])) for i in range(N))', 'vec._driver_scaling == False'],
         modifies=['vec._data', 'vec._driver_scaling'], name='lemma:scale_then_unscale',
         native=native_autoscaler, sampler=vec_sampler(False))


# ---------------------------------------------------------------------------------------------
# bounds: image of the bound under the same map, +-INF_BOUND sentinels preserved
def native_bound(vals, np, om):
    from pyvc.native_helpers import A, Fl
    from openmdao.drivers.autoscalers.autoscaler import Autoscaler

    def cv(v):
        if v is None:
            return None
        if isinstance(v, dict) and '__arr__' in v:
            return A(v)
        return Fl(v)
    kw = dict(self=Autoscaler(), val=cv(vals['val']), adder=cv(vals['adder']), scaler=cv(vals['scaler']),
              size=int(vals['size']), is_lower=bool(vals['is_lower']))
    if vals.get('__int_dtype__') and hasattr(kw['val'], 'dtype'):
        # bounds are often written as integer arrays (np.array([1, 3, 5])): the metadata keeps that dtype
        kw['val'] = kw['val'].astype(int)
    return kw, dict(n=kw['size'])


def bound_sampler(rng):
    n = rng.choice([1, 2, 3])
    fr = lambda a, b=8: {'__frac__': [a, b]}

    def arr(vs):
        return {'__arr__': vs, 'shape': [n], 'dtype': 'real'}
    int_dtype = rng.random() < 0.5
    kind = rng.choice(['none', 'scalar', 'array', 'array', 'array', 'array'])
    if kind == 'none':
        val = None
    elif kind == 'scalar':
        val = fr(rng.choice([-24, -8, 0, 8, 40]))
    else:
        val = arr([fr(8 * rng.choice([-3, -1, 0, 1, 3, 5])) if int_dtype else fr(rng.choice([-24, -5, 0, 3, 8, 41])) for _ in range(n)])

    def sc(neutral):
        k = rng.choice(['none', 'scalar', 'array'])
        if k == 'none':
            return None
        if k == 'scalar':
            return fr(rng.choice([-12, 1, 3, 5, 20]))
        return arr([fr(rng.choice([-12, 1, 3, 5, 20])) for _ in range(n)])
    out = {'self': {'__obj__': 'Autoscaler', 'id': 0, 'attrs': {}}, 'val': val, 'adder': sc(0), 'scaler': sc(1), 'size': n, 'is_lower': rng.random() < 0.5}
    if int_dtype and kind == 'array':
        out['__int_dtype__'] = True
    return out


V = '(val if is_scalar(val) else val[i])'
UNB = '(%s <= -INF_BOUND if is_lower else %s >= INF_BOUND)' % (V, V)
contract(AS + '::Autoscaler._scale_bound', ['C20', 'C21'],
         dict(self=Obj('Autoscaler'), val=OneOf(None, Real(), Arr('n')), adder=OneOf(None, Real(), Arr('n')),
              scaler=OneOf(None, Real(), Arr('n')), size=Size('n'), is_lower=OneOf(True, False)),
         requires=['n >= 1'],
         ensures=['len(result) == n',
                  'implies(val is None, all(result[i] == (-INF_BOUND if is_lower else INF_BOUND) for i in range(n)))',
                  'implies(val is not None, all(implies(%s, result[i] == (-INF_BOUND if is_lower else INF_BOUND)) for i in range(n)))' % UNB,
                  'implies(val is not None, all(implies(not %s, result[i] == (%s + %s) * %s) for i in range(n)))' % (
                      UNB, V, '(0 if adder is None else (adder if is_scalar(adder) else adder[i]))',
                      '(1 if scaler is None else (scaler if is_scalar(scaler) else scaler[i]))')],
         modifies=[], native=native_bound, sampler=bound_sampler,
         canaries=[('sentinel not restored', ('val_arr[inf_mask] = -INF_BOUND if is_lower else INF_BOUND', 'pass'), 'post'),
                   ('adder skipped', ('if adder is not None:', 'if adder is not None and False:'), 'post')])
REGISTRY[AS + '::Autoscaler._scale_bound'][0].returns = Arr('n')     # a fresh array of length n (callers are verified against this contract)


# ---------------------------------------------------------------------------------------------
# _compute_scaled_bounds, body of the per-variable loop (mechanically extracted fragment '@loopbody(scaler)'): the slice of
# the bounds vectors that belongs to one constraint is the affine image of the MODEL-unit bounds, written nowhere else,
# and the model-unit metadata (lower / upper / equals, adder, scaler) is left untouched — get_bounds_scaling documents
# "the original metadata bounds remain in physical (model) units and are not modified".
GM = "self._var_meta['constraint']['g']"


def _csb_self(lo, up, eq):
    m = {'total_adder': OneOf(None, Real(), Arr('n')), 'total_scaler': OneOf(None, Real(), Arr('n')), 'size': Size('n')}
    if lo is not None:
        m['lower'] = lo
    if up is not None:
        m['upper'] = up
    m['equals'] = eq
    return Obj('Autoscaler', _var_meta=DictT({'constraint': DictT({'g': DictT(m)})}))


def _img(src, i='i'):
    a = "(0 if {m}['total_adder'] is None else ({m}['total_adder'] if is_scalar({m}['total_adder']) else {m}['total_adder'][{i}]))".format(m=GM, i=i)
    sc_ = "(1 if {m}['total_scaler'] is None else ({m}['total_scaler'] if is_scalar({m}['total_scaler']) else {m}['total_scaler'][{i}]))".format(m=GM, i=i)
    v = "({s} if is_scalar({s}) else {s}[{i}])".format(s=src, i=i)
    return v, '((%s + %s) * %s)' % (v, a, sc_)


for _lo, _up, _eq in ((Arr('n'), Real(), None), (None, Arr('n'), None), (Real(), None, None), (None, None, Arr('n')), (None, None, Real())):
    ens = []
    for nm, src, unb, sent in (('lower_data', _lo, '<= -INF_BOUND', '-INF_BOUND'), ('upper_data', _up, '>= INF_BOUND', 'INF_BOUND')):
        if src is None:
            ens.append('all(%s[s0 + i] == %s for i in range(n))' % (nm, sent))
        else:
            v, img = _img("%s['%s']" % (GM, 'lower' if nm == 'lower_data' else 'upper'))
            ens.append('all(%s[s0 + i] == (%s if %s %s else %s) for i in range(n))' % (nm, sent, v, unb, img))
        ens.append('all(implies(not (s0 <= j and j < s0 + n), %s[j] == old(%s[j])) for j in range(N))' % (nm, nm))
    if _eq is None:
        ens.append('all(equals_data[j] == old(equals_data[j]) for j in range(N))')
    else:
        v, img = _img("%s['equals']" % GM)
        ens.append('all(equals_data[s0 + i] == (INF_BOUND if %s >= INF_BOUND else %s) for i in range(n))' % (v, img))
        ens.append('all(implies(not (s0 <= j and j < s0 + n), equals_data[j] == old(equals_data[j])) for j in range(N))')
    contract(AS + '::Autoscaler._compute_scaled_bounds@loopbody(scaler)', ['C20', 'C21'],
             dict(self=_csb_self(_lo, _up, _eq), voi_type='constraint', name='g',
                  vmeta=DictT({'slice': SliceT('s0', 's1'), 'size': Size('n')}),
                  lower_data=Arr('N'), upper_data=Arr('N'), equals_data=Arr('N')),
             requires=['n >= 1', 's0 >= 0', 's1 == s0 + n', 's1 <= N'],
             ensures=ens,
             # frame: ONLY the three bounds vectors are written; the model-unit metadata is not in the list
             modifies=['lower_data', 'upper_data', 'equals_data'],
             name=AS + '::Autoscaler._compute_scaled_bounds[bounds of one constraint: lower=%s, upper=%s, equals=%s]' % tuple(
                 type(x).__name__ for x in (_lo, _up, _eq)),
             canaries=[('equality target scaled in place (model-unit metadata overwritten)',
                        ("equals_data[s] = self._scale_bound(\n                        eq, adder, scaler, size, is_lower=False)",
                         "if adder is not None:\n                        eq += adder\n                    if scaler is not None:\n                        eq *= scaler\n                    equals_data[s] = eq"), 'post', AS + '::Autoscaler._compute_scaled_bounds')]
             if isinstance(_eq, Arr) else [])


# ---------------------------------------------------------------------------------------------
# Jacobian blocks: scaled block = out_scaler[i] * block[i, j] / in_scaler[j]
def jac_autoscaler():
    return Obj('Autoscaler', _has_scaling=OneOf(True, False), _var_meta=DictT({
        'objective': DictT({'f': DictT({'total_scaler': OneOf(None, Real(), Arr('r'))})}),
        'constraint': DictT({'g': DictT({'total_scaler': OneOf(None, Arr('r2'))})}),
        'design_var': DictT({'x': DictT({'total_scaler': OneOf(None, Real(), Arr('c'))})})}))


OS = "self._var_meta['objective']['f']['total_scaler']"
GS = "self._var_meta['constraint']['g']['total_scaler']"
IS = "self._var_meta['design_var']['x']['total_scaler']"


def sc(s, k):
    return '(1 if %s is None else (%s if is_scalar(%s) else %s[%s]))' % (s, s, s, s, k)


def native_jac(layout):
    def build(vals, np, om):
        from pyvc.native_helpers import A, Fl
        from openmdao.drivers.autoscalers.autoscaler import Autoscaler

        def cv(v):
            if v is None:
                return None
            if isinstance(v, dict) and '__arr__' in v:
                return A(v)
            return Fl(v)
        a = Autoscaler()
        a._has_scaling = bool(vals['self']['_has_scaling'])
        a._var_meta = {k: {n: {kk: cv(vv) for kk, vv in m.items()} for n, m in d.items()}
                       for k, d in vals['self']['_var_meta'].items()}
        jd = vals['jac_dict']
        if layout == 'flat':
            jac = {k: A(v) for k, v in jd.items()}
        else:
            jac = {'f': {'x': A(jd['f']['x']), 'z': A(jd['f']['z'])}, 'g': {'x': A(jd['g']['x'])}, 'q': {'x': A(jd['q']['x'])}}
        fx = jac[('f', 'x')] if layout == 'flat' else jac['f']['x']
        gx = jac[('g', 'x')] if layout == 'flat' else jac['g']['x']
        return dict(self=a, jac_dict=jac), dict(r=fx.shape[0], c=fx.shape[1], r2=gx.shape[0])
    return build


for layout in ('flat', 'nested'):
    if layout == 'flat':
        jd = DictT({('f', 'x'): Arr('r', 'c'), ('g', 'x'): Arr('r2', 'c'), ('q', 'x'): Arr('r', 'c'), ('f', 'z'): Arr('r', 'c')})
        FX, GX, QX, FZ = "jac_dict[('f', 'x')]", "jac_dict[('g', 'x')]", "jac_dict[('q', 'x')]", "jac_dict[('f', 'z')]"
    else:
        jd = DictT({'f': DictT({'x': Arr('r', 'c'), 'z': Arr('r', 'c')}), 'g': DictT({'x': Arr('r2', 'c')}), 'q': DictT({'x': Arr('r', 'c')})})
        FX, GX, QX, FZ = "jac_dict['f']['x']", "jac_dict['g']['x']", "jac_dict['q']['x']", "jac_dict['f']['z']"
    contract(AS + '::Autoscaler.apply_jac_scaling', ['C20'], dict(self=jac_autoscaler(), jac_dict=jd),
             requires=['all(%s != 0 for j in range(c))' % sc(IS, 'j')],
             ensures=[
                 'implies(self._has_scaling, all(all(approx(%s[i, j], %s * old(%s[i, j]) / %s) for j in range(c)) for i in range(r)))' % (FX, sc(OS, 'i'), FX, sc(IS, 'j')),
                 'implies(self._has_scaling, all(all(approx(%s[i, j], %s * old(%s[i, j]) / %s) for j in range(c)) for i in range(r2)))' % (GX, sc(GS, 'i'), GX, sc(IS, 'j')),
                 # unknown response / design variable names: block untouched
                 'all(all(%s[i, j] == old(%s[i, j]) and %s[i, j] == old(%s[i, j]) for j in range(c)) for i in range(r))' % (QX, QX, FZ, FZ),
                 'implies(not self._has_scaling, all(all(%s[i, j] == old(%s[i, j]) for j in range(c)) for i in range(r)))' % (FX, FX)],
             modifies=[FX, GX], name=AS + '::Autoscaler.apply_jac_scaling[%s]' % layout, native=native_jac(layout),
             canaries=[('design-variable scaler multiplies instead of divides',
                        ('jac_block *= 1.0 / in_scaler' if layout == 'flat' else 'block *= 1.0 / in_scaler',
                         'jac_block *= in_scaler' if layout == 'flat' else 'block *= in_scaler'), 'post'),
                       ('response scaler applied along the wrong axis',
                        ('jac_block[...] = (out_scaler * jac_block.T).T' if layout == 'flat' else 'block[...] = (out_scaler * block.T).T',
                         'jac_block[...] = (out_scaler * jac_block)' if layout == 'flat' else 'block[...] = (out_scaler * block)'), 'post')])


# ---------------------------------------------------------------------------------------------
# Lagrange multipliers: lambda_model = lambda_opt * scaler / obj_scaler (adder plays no role)
def mult_autoscaler():
    return Obj('Autoscaler', _has_scaling=OneOf(True, False), _var_meta=DictT({
        'objective': DictT({'f': DictT({'total_scaler': OneOf(None, Real())})}),
        'constraint': DictT({'g': DictT({'total_scaler': OneOf(None, Real(), Arr('ng'))})}),
        'design_var': DictT({'x': DictT({'total_scaler': OneOf(None, Real(), Arr('nx'))})})}))


def native_mult(vals, np, om):
    from pyvc.native_helpers import A, Fl
    from openmdao.drivers.autoscalers.autoscaler import Autoscaler

    def cv(v):
        if v is None:
            return None
        if isinstance(v, dict) and '__arr__' in v:
            return A(v)
        return Fl(v)
    a = Autoscaler()
    a._has_scaling = bool(vals['self']['_has_scaling'])
    a._var_meta = {k: {n: {kk: cv(vv) for kk, vv in m.items()} for n, m in d.items()}
                   for k, d in vals['self']['_var_meta'].items()}
    dm = {'x': A(vals['desvar_multipliers']['x'])}
    cm = {'g': A(vals['con_multipliers']['g'])}
    return dict(self=a, desvar_multipliers=dm, con_multipliers=cm), dict(nx=len(dm['x']), ng=len(cm['g']))


OBJ = "self._var_meta['objective']['f']['total_scaler']"
contract(AS + '::Autoscaler.apply_mult_unscaling', ['C20'],
         dict(self=mult_autoscaler(), desvar_multipliers=DictT({'x': Arr('nx')}), con_multipliers=DictT({'g': Arr('ng')})),
         requires=['implies(%s is not None, %s != 0)' % (OBJ, OBJ), 'nx >= 1 and ng >= 1',
                   'all(%s != 0 for i in range(nx))' % sc(IS, 'i'), 'all(%s != 0 for i in range(ng))' % sc(GS, 'i')],
         ensures=[
             "implies(self._has_scaling, all(approx(desvar_multipliers['x'][i], old(desvar_multipliers['x'][i]) * %s / %s) for i in range(nx)))" % (sc(IS, 'i'), sc(OBJ, '0')),
             "implies(self._has_scaling, all(approx(con_multipliers['g'][i], old(con_multipliers['g'][i]) * %s / %s) for i in range(ng)))" % (sc(GS, 'i'), sc(OBJ, '0')),
             "implies(not self._has_scaling, all(desvar_multipliers['x'][i] == old(desvar_multipliers['x'][i]) for i in range(nx)))",
             "implies(not self._has_scaling, all(con_multipliers['g'][i] == old(con_multipliers['g'][i]) for i in range(ng)))",
             "same_object(result[0], desvar_multipliers) and same_object(result[1], con_multipliers)"],
         modifies=["desvar_multipliers['x']", "con_multipliers['g']"], native=native_mult,
         canaries=[('objective scaler multiplies instead of divides', ('mult *= scaler / obj_scaler', 'mult *= scaler * obj_scaler'), 'post')])


# ---------------------------------------------------------------------------------------------
# _TotalJacInfo._apply_unit_scaling: driver units are an affine map of model units; the total jacobian block
# d(resp)/d(dv) is multiplied by the response's unit factor and divided by the design variable's — every entry,
# both dict layouts; names without a unit factor are left alone; an empty dict / no factors: nothing happens.
TJ = 'openmdao/core/total_jac.py'


def native_unit(layout):
    def build(vals, np, om):
        from pyvc.native_helpers import A, Fl
        from openmdao.core.total_jac import _TotalJacInfo
        o = _TotalJacInfo.__new__(_TotalJacInfo)
        o._resp_unit_scalers = {k: Fl(v) for k, v in vals['self']['_resp_unit_scalers'].items()}
        o._desvar_unit_scalers = {k: Fl(v) for k, v in vals['self']['_desvar_unit_scalers'].items()}
        jd = vals['jac_dict']
        if layout == 'flat':
            jac = {k: A(v) for k, v in jd.items()}
        else:
            jac = {'f': {'x': A(jd['f']['x']), 'z': A(jd['f']['z'])}, 'q': {'x': A(jd['q']['x'])}}
        fx = jac[('f', 'x')] if layout == 'flat' else jac['f']['x']
        return dict(self=o, jac_dict=jac), dict(r=fx.shape[0], c=fx.shape[1])
    return build


for layout in ('flat', 'nested'):
    if layout == 'flat':
        jd = DictT({('f', 'x'): Arr('r', 'c'), ('q', 'x'): Arr('r', 'c'), ('f', 'z'): Arr('r', 'c')})
        FX, QX, FZ = "jac_dict[('f', 'x')]", "jac_dict[('q', 'x')]", "jac_dict[('f', 'z')]"
    else:
        jd = DictT({'f': DictT({'x': Arr('r', 'c'), 'z': Arr('r', 'c')}), 'q': DictT({'x': Arr('r', 'c')})})
        FX, QX, FZ = "jac_dict['f']['x']", "jac_dict['q']['x']", "jac_dict['f']['z']"
    RF, DX = "self._resp_unit_scalers['f']", "self._desvar_unit_scalers['x']"
    contract(TJ + '::_TotalJacInfo._apply_unit_scaling', ['C20'],
             dict(self=Obj('_TotalJacInfo', _resp_unit_scalers=DictT({'f': Real()}), _desvar_unit_scalers=DictT({'x': Real()})), jac_dict=jd),
             requires=['%s != 0' % RF, '%s != 0' % DX],
             ensures=['all(all(approx(%s[i, j], %s * old(%s[i, j]) / %s) for j in range(c)) for i in range(r))' % (FX, RF, FX, DX),
                      # only the response / only the design variable has a unit factor
                      'all(all(approx(%s[i, j], old(%s[i, j]) / %s) for j in range(c)) for i in range(r))' % (QX, QX, DX),
                      'all(all(approx(%s[i, j], %s * old(%s[i, j])) for j in range(c)) for i in range(r))' % (FZ, RF, FZ)],
             modifies=[FX, QX, FZ], name=TJ + '::_TotalJacInfo._apply_unit_scaling[%s]' % layout, native=native_unit(layout),
             canaries=[('design-variable unit factor multiplies instead of divides',
                        (('                if in_scaler:\n                    block *= (1.0 / in_scaler)', '                if in_scaler:\n                    block *= in_scaler') if layout == 'flat' else
                         ('                    if in_scaler:\n                        block *= (1.0 / in_scaler)', '                    if in_scaler:\n                        block *= in_scaler')), 'post'),
                       ('response unit factor skipped',
                        (('                if out_scaler:\n                    block *= out_scaler', '                if out_scaler:\n                    block *= 1.0') if layout == 'flat' else
                         ('                    if out_scaler:\n                        block *= out_scaler', '                    if out_scaler:\n                        block *= 1.0')), 'post')])
