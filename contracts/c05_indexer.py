"""C05 — index objects follow NumPy indexing semantics (1-d normalisation kernels proved; the n-d
comparison against NumPy is the bounded tier bounded/c05_indexer.py)."""
from pyvc.spec import *   # noqa

IX = 'openmdao/utils/indexer.py'


def native_a2s(vals, np, om):
    from pyvc.native_helpers import A
    arr = A(vals['arr'], int)
    return dict(arr=arr), dict(n=len(arr))


def a2s_sampler(rng):
    n = rng.choice([0, 1, 2, 3, 4, 5])
    if rng.random() < 0.7:
        start, step = rng.randint(0, 6), rng.choice([-3, -2, -1, 1, 2, 3])
        vals = [start + k * step for k in range(n)]
    else:
        vals = [rng.randint(-2, 6) for _ in range(n)]
    return {'arr': {'__arr__': vals, 'shape': [n], 'dtype': 'int'}}


S = 'result'
contract(IX + '::array2slice', ['C05'], dict(arr=Arr('n', dtype='int')),
         ensures=[
             'implies(n == 0, result == slice(0, 0))',
             # A returned slice(start, stop, step) selects exactly the positions listed in arr, in order:
             # stated in difference form (start, constant non-zero stride, stop one stride-direction past
             # the last entry, both end points non-negative so nothing wraps).  The closed form
             # arr[k] = start + k*step and "all entries >= 0" follow by induction: Lean lemmas
             # OmLemmas.ap_closed_form / ap_nonneg.
             'implies(result is not None and n > 0, result.start == arr[0] and arr[0] >= 0)',
             'implies(result is not None and n > 1 and result.step is not None and result.step < 0, arr[n - 1] > 0 and result.stop >= 0)',
             'implies(result is not None and n == 1, result.step is None and result.stop == arr[0] + 1)',
             'implies(result is not None and n > 1, result.step is not None and result.step != 0)',
             'implies(result is not None and n > 1 and result.step is not None, all(arr[k + 1] - arr[k] == result.step for k in range(n - 1)))',
             'implies(result is not None and n > 1 and result.step is not None and result.step > 0, result.stop == arr[n - 1] + 1)',
             'implies(result is not None and n > 1 and result.step is not None and result.step < 0, result.stop == arr[n - 1] - 1)',
         ],
         modifies=[], native=native_a2s, sampler=a2s_sampler,
         canaries=[('negative stride: stop not moved past the last element', ('return slice(int(arr[0]), int(arr[-1]) - 1, step)', 'return slice(int(arr[0]), int(arr[-1]), step)'), 'post'),
                   ('only the first difference is checked', ('if np.all(diffs == step):', 'if True:'), 'post'),
                   ('last element 0 allowed with a negative stride', ('elif arr[-1] > 0:', 'elif arr[-1] >= 0:'), 'post')])


# ---- Indexer.set_src_shape: the cached shaped instance never survives a change of the source shape ----------------
# (the shaped instance holds flat positions computed for one shape; every index class answers as_array / flat /
# indexed_src_shape through it).  _get_shapes (normalisation) and _check_bounds (may raise) are assumed.
IX = 'openmdao/utils/indexer.py'


def _shape_ghost(it, env, res):
    it.ctx.ghost['new_shape'] = res[0]


contract(IX + '::Indexer.set_src_shape', ['C05'],
         dict(self=Obj('Indexer', _src_shape=OneOf(None, TupleT(Int(0, None))), _dist_shape=None, _flat_src=OneOf(None, True, False),
                       _shaped_inst=OneOf(None, OpaqueT('cached_shaped_instance'))),
              shape=TupleT(Int(0, None)), dist_shape=None),
         ensures=['same_object(result, self)',
                  "self._src_shape == ghost('new_shape')",
                  # a cached shaped instance is kept only when the shape is the one it was built for
                  "implies(self._shaped_inst is not None, old(self._src_shape) is not None and old(self._src_shape) == ghost('new_shape') and same_object(self._shaped_inst, old(self._shaped_inst)))",
                  'self._flat_src is not None'],
         may_raise=['IndexError', 'ValueError'],
         exc_ensures=['self._src_shape is None and self._dist_shape is None'],
         modifies=['self._src_shape', 'self._dist_shape', 'self._flat_src', 'self._shaped_inst'],
         ghost_init={'new_shape': None},
         assumed={'self._get_shapes': Assumed(returns=TupleT(TupleT(Int(0, None)), None), ghost=_shape_ghost, note='normalises an int / tuple shape to a tuple (and the distributed shape)'),
                  'self._check_bounds': Assumed(may_raise=['IndexError'], note='raises when the index does not fit the new shape')},
         name=IX + '::Indexer.set_src_shape',
         canaries=[('cache reset only when the bounds check fails', ("                raise\n            self._shaped_inst = None", "                self._shaped_inst = None\n                raise"), 'post')])


# ---- IntIndexer.shaped_instance / SliceIndexer.shaped_instance: the cached instance is returned if there is one;
# otherwise the index is normalised against the first source dimension exactly as NumPy does (negative int: + n;
# slice: slice.indices(n)) and the new shaped instance carries the parent's shape attributes ----------------------
def _int_ix(cached):
    return Obj('IntIndexer', _idx=Int(), _src_shape=OneOf(None, TupleT(Int(1, None))), _dist_shape=None, _flat_src=OneOf(True, False),
               _shaped_inst=OpaqueT('cached_shaped_instance') if cached else None)


contract(IX + '::IntIndexer.shaped_instance', ['C05'], dict(self=_int_ix(True)),
         ensures=['same_object(result, old(self._shaped_inst))', 'same_object(self._shaped_inst, old(self._shaped_inst))'],
         modifies=[], name=IX + '::IntIndexer.shaped_instance[cached]')

contract(IX + '::IntIndexer.shaped_instance', ['C05'], dict(self=_int_ix(False)),
         requires=['implies(self._src_shape is not None, -self._src_shape[0] <= self._idx and self._idx < self._src_shape[0])'],   # (_check_bounds ran in set_src_shape)
         ensures=['implies(self._src_shape is None, result is None and self._shaped_inst is None)',
                  'implies(self._src_shape is not None, same_object(result, self._shaped_inst))',
                  # NumPy: a negative index counts from the end of the first dimension
                  'implies(self._src_shape is not None, result._idx == (self._idx if self._idx >= 0 else self._idx + self._src_shape[0]) and 0 <= result._idx and result._idx < self._src_shape[0])',
                  'implies(self._src_shape is not None, result._src_shape == self._src_shape and result._flat_src == self._flat_src and result._dist_shape is None)',
                  'self._idx == old(self._idx)'],
         modifies=['self._shaped_inst'], inline={'ShapedIntIndexer', 'Indexer', '__init__', '_set_attrs'}, name=IX + '::IntIndexer.shaped_instance[not cached]',
         canaries=[('negative index normalised against the wrong length', ('ShapedIntIndexer(self._idx + self._src_shape[0])', 'ShapedIntIndexer(self._idx + self._src_shape[0] - 1)'), 'post'),
                   ('shape attributes not copied to the shaped instance', ('return self._shaped_inst._set_attrs(self)', 'return self._shaped_inst'), 'post')])


# ---- ShapedIntIndexer._check_bounds: an int index is refused exactly when NumPy would refuse it for the first dimension
contract(IX + '::ShapedIntIndexer._check_bounds', ['C05'],
         dict(self=Obj('ShapedIntIndexer', _idx=Int(), _src_shape=TupleT(Int(1, None)), _dist_shape=TupleT(Int(1, None)), _flat_src=OneOf(True, False), _shaped_inst=None)),
         raises_iff={'IndexError': 'self._idx >= self._dist_shape[0] or self._idx < -self._dist_shape[0]'},
         ensures=[], modifies=[], name=IX + '::ShapedIntIndexer._check_bounds',
         canaries=[('the most negative legal index is refused', ('self._idx < -self._dist_shape[0]', 'self._idx <= -self._dist_shape[0]'), 'exc')])

# a shaped int index into a 1-d (flat) source selects exactly that position
contract(IX + '::ShapedIntIndexer.as_array', ['C05'],
         dict(self=Obj('ShapedIntIndexer', _idx=Int(0, None), _src_shape=TupleT(Int(1, None)), _dist_shape=None, _flat_src=True, _shaped_inst=None),
              copy=OneOf(False, True), flat=OneOf(True, False)),
         ensures=['len(result) == 1 and result[0] == self._idx'], modifies=[], returns=Arr(1, dtype='int'),
         name=IX + '::ShapedIntIndexer.as_array[1-d source]')
