"""C05 — index objects follow NumPy indexing semantics (1-d normalisation kernels proved; the n-d
comparison against NumPy is the bounded tier bounded/c05_indexer.py)."""
from pyvc.spec import *   # noqa

IX = 'openmdao/utils/indexer.py'


def native_a2s(vals, np, om):
    from pyvc.native_helpers import A
    arr = A(vals['arr'], int)
    return dict(arr=arr), dict(n=len(arr))


def a2s_sampler(rng):
    n = rng.choice([0, 1, 2, 3, 4, 5])
    if rng.random() < 0.7:
        start, step = rng.randint(0, 6), rng.choice([-3, -2, -1, 1, 2, 3])
        vals = [start + k * step for k in range(n)]
    else:
        vals = [rng.randint(-2, 6) for _ in range(n)]
    return {'arr': {'__arr__': vals, 'shape': [n], 'dtype': 'int'}}


S = 'result'
contract(IX + '::array2slice', ['C05'], dict(arr=Arr('n', dtype='int')),
         ensures=[
             'implies(n == 0, result == slice(0, 0))',
             # A returned slice(start, stop, step) selects exactly the positions listed in arr, in order:
             # stated in difference form (start, constant non-zero stride, stop one stride-direction past
             # the last entry, both end points non-negative so nothing wraps).  The closed form
             # arr[k] = start + k*step and "all entries >= 0" follow by induction: Lean lemmas
             # OmLemmas.ap_closed_form / ap_nonneg.
             'implies(result is not None and n > 0, result.start == arr[0] and arr[0] >= 0)',
             'implies(result is not None and n > 1 and result.step is not None and result.step < 0, arr[n - 1] > 0 and result.stop >= 0)',
             'implies(result is not None and n == 1, result.step is None and result.stop == arr[0] + 1)',
             'implies(result is not None and n > 1, result.step is not None and result.step != 0)',
             'implies(result is not None and n > 1 and result.step is not None, all(arr[k + 1] - arr[k] == result.step for k in range(n - 1)))',
             'implies(result is not None and n > 1 and result.step is not None and result.step > 0, result.stop == arr[n - 1] + 1)',
             'implies(result is not None and n > 1 and result.step is not None and result.step < 0, result.stop == arr[n - 1] - 1)',
         ],
         modifies=[], native=native_a2s, sampler=a2s_sampler,
         canaries=[('negative stride: stop not moved past the last element', ('return slice(int(arr[0]), int(arr[-1]) - 1, step)', 'return slice(int(arr[0]), int(arr[-1]), step)'), 'post'),
                   ('only the first difference is checked', ('if np.all(diffs == step):', 'if True:'), 'post'),
                   ('last element 0 allowed with a negative stride', ('elif arr[-1] > 0:', 'elif arr[-1] >= 0:'), 'post')])
