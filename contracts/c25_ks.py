"""C25 — KS aggregation brackets the extremum and has exact gradients.

pyvc proves that the code computes m + (1/rho) log Sum exp(rho (g - m)) with m the attained maximum
and derives the bracket from the Lean lemmas OmLemmas.sum_unit_interval / ks_bracket (exp and log are
uninterpreted functions constrained by true facts)."""
from pyvc.spec import *   # noqa

JK = 'openmdao/jax_funcs/ks.py'


def native_ks(vals, np, om):
    from pyvc.native_helpers import A, Fl
    x = A(vals['x'])
    return dict(x=x, rho=Fl(vals['rho'])), dict(n=len(x), log=np.log, exp=np.exp)


def ks_sampler(rng):
    from pyvc.sample import frac
    n = rng.choice([1, 2, 3, 5])
    return {'x': {'__arr__': [frac(rng) for _ in range(n)], 'shape': [n], 'dtype': 'real'},
            'rho': {'__frac__': [rng.choice([1, 8, 40, 400]), 8]}}


contract(JK + '::ks_max', ['C25'], dict(x=Arr('n'), rho=Real()),
         requires=['rho > 0', 'n > 0'],
         ensures=['all(le(x[i], result) for i in range(n))',                       # >= max(g)
                  'any(le(result, x[i] + log_(n) / rho) for i in range(n))',        # <= max(g) + ln(n)/rho
                  # the value is the (shifted) log-sum-exp around the attained maximum
                  'all(implies(all(x[j] <= x[i] for j in range(n)), approx(result, x[i] + 1 / rho * log_(Sum(n, lambda k: exp_(rho * (x[k] - x[i])))))) for i in range(n))'],
         modifies=[], native=native_ks, sampler=ks_sampler,
         canaries=[('shift by the minimum instead of the maximum', ('x_max = jnp.max(x)', 'x_max = jnp.min(x)'), 'post'),
                   ('rho applied twice', ('return x_max + 1.0 / rho * jnp.log(summation)', 'return x_max + 1.0 / (rho * rho) * jnp.log(summation)'), 'post')])

contract(JK + '::ks_min', ['C25'], dict(x=Arr('n'), rho=Real()),
         requires=['rho > 0', 'n > 0'],
         ensures=['all(le(result, x[i]) for i in range(n))',                       # <= min(g)
                  'any(le(x[i] - log_(n) / rho, result) for i in range(n))',        # >= min(g) - ln(n)/rho
                  'all(implies(all(x[i] <= x[j] for j in range(n)), approx(result, x[i] - 1 / rho * log_(Sum(n, lambda k: exp_(rho * (x[i] - x[k])))))) for i in range(n))'],
         modifies=[], native=native_ks, sampler=ks_sampler,
         canaries=[('sign of the correction flipped', ('return x_min - 1.0 / rho * jnp.log(summation)', 'return x_min + 1.0 / rho * jnp.log(summation)'), 'post')])
